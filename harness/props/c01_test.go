package props

// C01: totality — compiling and executing never panics, crashes or hangs.

import (
	"errors"
	"fmt"
	"math"
	"os"
	"regexp"
	"sort"
	"strconv"
	"strings"
	"sync"
	"testing"
	"time"

	"github.com/flosch/pongo2/v6"
	"pgregory.net/rapid"
)

// ---- the value universe --------------------------------------------------------------

type c01Inner struct {
	A    int
	b    string //nolint:unused
	Any  any
	List []string
}

type c01S struct {
	Name  string
	priv  string //nolint:unused
	In    c01Inner
	PIn   *c01Inner
	Nilp  *c01Inner
	Any   any
	M     map[string]int
	F     func(int) int
	privf func() //nolint:unused
	Ch    chan int
}

func (s c01S) Hello(n string) string             { return "hello " + n }
func (s *c01S) PHello() string                   { return "phello" }
func (s c01S) Var(a ...int) int                  { return len(a) }
func (s c01S) Val(v *pongo2.Value) *pongo2.Value { return v }
func (s c01S) Iface(x fmt.Stringer) string       { return "iface" }
func (s c01S) Two() (int, int)                   { return 1, 2 }
func (s c01S) None()                             {}

// a struct that reaches fields and methods through an embedded pointer (which may be nil)
type c01EmbInner struct{ X string }

func (b *c01EmbInner) PVal() string { return "pval" }

type c01Emb struct {
	*c01EmbInner
	Y string
}

// comparable by type, but not by value: the interface field may hold a slice
type c01AnyField struct{ F any }

type c01Err struct{ msg string }

func (e c01Err) Error() string { return e.msg } // value receiver: a nil *c01Err is an error value that cannot be asked

type c01StructKey struct{ V string }

func (s c01StructKey) String() string { return s.V }

func c01Universe(variant int) pongo2.Context {
	ctx := progContext(variant, nil)
	in := &c01Inner{A: 1, b: "b", Any: []int{1}, List: []string{"x", "y"}}
	one := 1
	pone := &one
	extra := pongo2.Context{
		"s":  c01S{Name: "N", priv: "p", In: *in, PIn: in, Any: map[string]any{"k": 1}, M: map[string]int{"a": 1}, F: func(i int) int { return i }},
		"sp": &c01S{Name: "PN", PIn: in}, "nilp": (*c01S)(nil), "nili": nil,
		"i": 3, "neg": -7, "i8": int8(-128), "u8": uint8(255), "i64min": int64(math.MinInt64), "i64max": int64(math.MaxInt64), "u64max": uint64(math.MaxUint64),
		"f": 2.5, "f32": float32(0.1), "nan": math.NaN(), "inf": math.Inf(1), "ninf": math.Inf(-1), "tiny": math.SmallestNonzeroFloat64, "negzero": math.Copysign(0, -1),
		"t": true, "fl": false, "e": "", "str": "héllo wörld", "num": "12.5", "bad": "a\xffb", "x": "<b>&'\"", "nul": "a\x00b\x01c", "long": strings.Repeat("ab ", 200),
		"sl": []int{3, 1, 2}, "sl0": []int{}, "sls": []string{"b", "a"}, "any": []any{"a", 1, nil, 2.5, []int{1}, map[string]int{"z": 1}},
		"arr": [3]int{1, 2, 3}, "parr": &[2]string{"p", "q"}, "by": []byte("xy"), "arr0": [0]int{},
		"mm": map[string]any{"a": 1, "b": "two", "c": nil, "d": []int{1}}, "im": map[int]string{1: "one", 2: "two"}, "um": map[uint8]int{1: 1},
		"am": map[any]any{"k": 1, 2: "v"}, "bm": map[bool]int{true: 1}, "fm": map[float64]int{1.5: 1}, "sm": map[c01StructKey]int{{"k"}: 1}, "nilmap": map[string]int(nil),
		"istr": ZIntStr(5), "sstr": ZStructStr{"<ss>"}, "psstr": &ZPtrStr{"<ps>"}, "nilstr": (*ZPtrStr)(nil),
		// typed nil pointers to types whose String() has a VALUE receiver (calling it through the nil pointer would panic)
		"nilsstr": (*ZStructStr)(nil), "nilistr": (*ZIntStr)(nil), "nilskey": (*c01StructKey)(nil), "niltm": (*time.Time)(nil), "nilerr": (*c01Err)(nil),
		"tm": zTime, "val": pongo2.AsValue("v"), "sval": pongo2.AsSafeValue("<sv>"), "nilval": (*pongo2.Value)(nil), "valnil": pongo2.AsValue(nil),
		"fn": func(a int, b string) string { return fmt.Sprint(a, b) }, "fv": func(a ...int) int { return len(a) },
		"fa": func(a any) any { return a }, "fe": func(a int) (int, error) {
			if a == 0 {
				return 0, errors.New("boom")
			}
			return a, nil
		},
		"fval": func(v *pongo2.Value) *pongo2.Value { return v }, "fctx": func(c *pongo2.ExecutionContext, a int) int { return a },
		"f0": func() string { return "f0" }, "fnil": func() any { return nil }, "f3": func() (int, int, int) { return 1, 2, 3 }, "fnone": func() {},
		"fstr": func(s fmt.Stringer) string { return "x" }, "fptr": func(p *int) int { return 1 }, "nilfn": (func() string)(nil),
		"fvalnil": func() *pongo2.Value { return nil }, "ferrtype": func() (int, string) { return 1, "notanerror" },
		"ch": make(chan int, 1), "cplx": complex(1, 2), "err": errors.New("<err>"), "pp": &pone, "u": uintptr(7),
		// maps with unusual key types, and values that are almost (but not) keys of them
		"arrmap": map[[2]int]string{{1, 2}: "pair"}, "i64map": map[int64]string{1: "one"}, "nsmap": map[ZStrStr]int{"k": 1}, "ptrmap": map[*int]int{pone: 1}, "pi": pone, "nilpi": (*int)(nil), "psmap": map[*c01S]string{}, "errmap": map[error]int{}, "anymap": map[any]int{"k": 1, 2: 2},
		"ifmap": map[fmt.Stringer]int{ZIntStr(1): 1}, "sl1": []int{7}, "sl2": []int{1, 2}, "arr2": [2]int{1, 2}, "i64": int64(1), "ns": ZStrStr("k"),
		// fields promoted through a nil embedded pointer; values whose type is comparable / hashable but whose content is not
		"embnil": c01Emb{Y: "y"}, "pembnil": &c01Emb{Y: "y"}, "emb": c01Emb{c01EmbInner: &c01EmbInner{X: "x"}, Y: "y"},
		"ucmp": [1]any{[]int{1}}, "ukey": c01AnyField{F: []int{1}}, "ulist": []any{c01AnyField{F: []int{1}}, [1]any{map[string]int{}}},
		// a context key that clashes with a macro exported by a helper file
		"imp_box": "clash", "selfname": "/root.tpl",
	}
	for k, v := range extra {
		ctx[k] = v
	}
	return ctx
}

var c01Names = func() []string {
	var ns []string
	for k := range c01Universe(0) {
		ns = append(ns, k)
	}
	ns = append(ns, "undefined", "forloop", "pongo2", "block")
	sort.Strings(ns)
	return ns
}()

var c01Steps = []string{".Name", ".priv", ".In", ".PIn", ".Nilp", ".Any", ".M", ".F", ".privf", ".Hello", ".PHello", ".Var", ".Val", ".Iface", ".Two", ".None", ".A", ".b", ".List", ".0", ".1", ".5",
	".99999999999", ".a", ".k", ".version", ".Counter", ".String", ".V", ".Year", ".UTC", ".Super", ".Parentloop", ".Ch", ".X", ".Y", ".F"}

var c01Lits = []string{"0", "1", "2", "5", "1.5", `"a"`, `""`, `"1:2"`, `"-1:"`, `":"`, `"%d"`, `"%s"`, `"%99999d"`, `"-2000000000"`, `"-40000000"`, `"-1001"`, "-2000000000", `"2000000000"`, `"a,b"`, `"a,b,c,d"`, `"b"`, "true", "false", `"é"`, `"\\"`,
	// resource-hungry requests: every one must end in an error or a bounded result, not in gigabytes
	`f|floatformat:"-2000000000"`, `f|floatformat:2000000000`, `f32|floatformat:"-1001"`, `str|ljust:2000000000`, `str|rjust:"2000000000"`, `str|center:2000000000`, `str|center:-2000000000`,
	`i|stringformat:"%2000000000d"`, `str|truncatechars:-2000000000`, `long|wordwrap:-1`, `long|wordwrap:0`, `sl|slice:"-2000000000:2000000000"`, `str|get_digit:2000000000`, `long|truncatewords_html:2000000000`,
	`i|add:i64max`, `i64min|add:i64min`, `2000000000 ^ 2000000000`, `str|linenumbers|linenumbers|linenumbers`, `i|divisibleby:0`, `u64max|get_digit:1`, `i64min|get_digit:1`, `inf|floatformat:3`, `nan|floatformat`, `inf|integer`, `nan|integer`,
	// ready-made operand pairs of one kind (two random names rarely are): time comparisons, membership in structs and maps
	"tm < tm", "tm >= tm", "tm == tm", "tm != tm", "tm > tm", "tm <= tm", `"Name" in s`, `"priv" in s`, "1 in im", `"k" in sm`, "nili in sm", "f in fm", "t in bm", "u8 in um", "s in sl", "nili in sl", "pi in ptrmap", "nilpi in ptrmap", "sp in psmap", "nilp in psmap", "err in errmap", "nilerr in errmap", "sl in anymap", "mm in anymap", "[1, 2] in anymap", "anymap[sl]", "anymap[[1, 2]]", "anymap[mm]", "anymap[fn]",
	"ucmp == ucmp", "ukey == ukey", "ukey != ucmp", "ukey in ulist", "ucmp in ulist", "anymap[ukey]", "anymap[ucmp]", "am[ukey]", "ukey in anymap", "embnil.X", `embnil["X"]`, `"X" in embnil`, "pembnil.X", "embnil.PVal", "emb.X", "embnil.Y",
	"7 % 0.5", "7 % f32", "i % tiny", "2 ^ (-1)", "2 ^ neg", "0 ^ neg", "neg ^ 0.5", "i64min / neg", "i64min % neg"}

// ---- case: a program (generated or assembled), optionally mutated at token level ---------

type c01Mut struct {
	Op  string `json:"op"` // del dup swap repl ins trunc
	I   int    `json:"i"`
	J   int    `json:"j"`
	Lex string `json:"lex,omitempty"`
}

type c01Case struct {
	Files   map[string]string `json:"files"`
	Entry   string            `json:"entry"`
	Muts    []c01Mut          `json:"muts,omitempty"`
	Variant int               `json:"variant"`
	Trim    bool              `json:"trim"`
	LStrip  bool              `json:"lstrip"`
	Globals bool              `json:"globals"`
	Raw     []byte            `json:"raw,omitempty"`   // layer (a): the entry source as raw bytes
	Route   string            `json:"route,omitempty"` // entry point of the set used to compile; "" = FromFile
}

var c01Routes = []string{"FromFile", "FromCache", "FromString", "FromBytes", "RenderTemplateFile", "RenderTemplateString", "RenderTemplateBytes", "ExecuteBlocks"}

var c01TokRe = regexp.MustCompile(`\{\{-?|-?\}\}|\{%-?|-?%\}|\{#|#\}|"(?:[^"\\]|\\.)*"|'[^']*'|[A-Za-z_][A-Za-z_0-9]*|[0-9]+|\s+|.`)

func c01Tokens(src string) []string { return c01TokRe.FindAllString(src, -1) }

func c01ApplyMuts(src string, muts []c01Mut) string {
	toks := c01Tokens(src)
	for _, m := range muts {
		n := len(toks)
		if n == 0 {
			toks = append(toks, m.Lex)
			continue
		}
		i, j := m.I%n, m.J%n
		switch m.Op {
		case "del":
			toks = append(toks[:i:i], toks[i+1:]...)
		case "dup":
			toks = append(toks[:i+1:i+1], toks[i:]...)
		case "swap":
			toks[i], toks[j] = toks[j], toks[i]
		case "repl":
			toks[i] = m.Lex
		case "ins":
			toks = append(toks[:i:i], append([]string{m.Lex}, toks[i:]...)...)
		case "trunc":
			// the arguments of one tag / variable end too early: keep the first (J mod k) of its k
			// tokens, drop the rest up to the closing delimiter
			var opens []int
			for x, tk := range toks {
				if strings.HasPrefix(tk, "{%") || strings.HasPrefix(tk, "{{") {
					opens = append(opens, x)
				}
			}
			if len(opens) == 0 {
				break
			}
			o := opens[m.I%len(opens)]
			c := o + 1
			for c < len(toks) && !strings.HasSuffix(toks[c], "%}") && !strings.HasSuffix(toks[c], "}}") {
				c++
			}
			if c >= len(toks) || c == o+1 {
				break
			}
			// inner tokens o+1 .. c-1; keep the leading `keep` non-blank ones
			keep := m.J % (c - o - 1)
			cut, seen := o+1, 0
			for cut < c && seen < keep {
				if strings.TrimSpace(toks[cut]) != "" {
					seen++
				}
				cut++
			}
			toks = append(toks[:cut:cut], append([]string{" "}, toks[c:]...)...)
		}
	}
	return strings.Join(toks, "")
}

var c01Vocab = func() []string {
	v := []string{"{{", "}}", "{%", "%}", "{#", "#}", "{{-", "-}}", "{%-", "-%}", " ", " ", "\n", "\t",
		"(", ")", "[", "]", ",", ".", "|", ":", "=", "+", "-", "*", "/", "%", "^", "==", "!=", "<>", "<", ">", "<=", ">=", "&&", "||", "!",
		"and", "or", "not", "in", "true", "false", "as", "export", "with", "only", "if_exists", "reversed", "sorted", "silent", "parsed", "fake", "random", "w", "p", "b", "on", "off", "nil",
		"0", "1", "2", "7", "10", "1000", "100000", "100001", "99999999999999999999", "1.5", "0.0",
		`"a"`, `""`, `"1:2"`, `":"`, `"-1:"`, `"%d"`, `"a,b"`, `"a,b,c"`, `"x y z"`, `'q'`, `"`, `'`, `\`, `"\""`, `"/lazy.tpl"`, `"/part.tpl"`, `"/macros.tpl"`, `"/base.tpl"`, `"/root.tpl"`, `"nope"`, "\x00", "\x01", "\xff",
		"text", "<a> <b>", "openblock", "2000000000", "-2000000000", "Super", "Counter", "Parentloop", "version", "imp_box", "imp_row", "content", "side",
		"Name", "priv", "In", "PIn", "Nilp", "Any", "M", "F", "privf", "Hello", "PHello", "Var", "Val", "A", "List", "String", "V"}
	v = append(v, c01Names...)
	for _, tg := range pongo2.VerifRegisteredTags() {
		v = append(v, tg, tg, "end"+tg)
	}
	v = append(v, "elif", "else", "empty", "verbatim", "endverbatim")
	v = append(v, pongo2.VerifRegisteredFilters()...)
	return v
}()

// c01Run compiles and executes; returns a violation message or "".
func c01Run(cs *c01Case) (msg string, compiled, executed bool) {
	files := copyFiles(cs.Files)
	src := files[cs.Entry]
	if cs.Raw != nil {
		src = string(cs.Raw)
	}
	src = c01ApplyMuts(src, cs.Muts)
	files[cs.Entry] = src
	ld := newMemLoader(files)
	set := pongo2.NewSet("c01", ld)
	set.Options.TrimBlocks, set.Options.LStripBlocks = cs.Trim, cs.LStrip
	ctx := c01Universe(cs.Variant)
	if cs.Globals {
		for k, v := range ctx {
			set.Globals[k] = v
		}
		ctx = pongo2.Context{"name": "ctx-over-global"}
	}
	var tpl *pongo2.Template
	var err error
	switch cs.Route {
	case "RenderTemplateFile", "RenderTemplateString", "RenderTemplateBytes":
		// compile and execute in one call: output or error, never a panic
		var out string
		switch cs.Route {
		case "RenderTemplateFile":
			out, err = set.RenderTemplateFile(cs.Entry, ctx)
		case "RenderTemplateString":
			out, err = set.RenderTemplateString(src, ctx)
		default:
			out, err = set.RenderTemplateBytes([]byte(src), ctx)
		}
		if err != nil && out != "" {
			return fmt.Sprintf("%s returned both output %q and error %v\n src=%q", cs.Route, out, err, src), true, true
		}
		if err != nil {
			_ = err.Error()
		}
		return "", true, err == nil
	case "FromCache":
		tpl, err = set.FromCache(cs.Entry)
		// the cache is usable afterwards, whether that worked or not
		tpl2, err2 := set.FromCache(cs.Entry)
		if (err == nil) != (err2 == nil) || (err == nil && tpl2 != tpl) {
			return fmt.Sprintf("FromCache twice: first (tpl=%v err=%v), then (tpl=%v err=%v)\n src=%q", tpl != nil, err, tpl2 != nil, err2, src), false, false
		}
		set.CleanCache(cs.Entry)
		set.CleanCache()
		// ... and after it was emptied
		tpl3, err3 := set.FromCache(cs.Entry)
		if (err == nil) != (err3 == nil) || (err3 == nil && tpl3 == nil) {
			return fmt.Sprintf("FromCache after CleanCache(): first (err=%v), now (tpl=%v err=%v)\n src=%q", err, tpl3 != nil, err3, src), false, false
		}
		set.CleanCache()
	case "FromString":
		tpl, err = set.FromString(src)
	case "FromBytes":
		tpl, err = set.FromBytes([]byte(src))
	default:
		tpl, err = set.FromFile(cs.Entry)
	}
	if (tpl == nil) == (err == nil) {
		return fmt.Sprintf("compile returned tpl=%v err=%v (exactly one must be non-nil)\n src=%q", tpl, err, src), false, false
	}
	if err != nil {
		if _, ok := err.(*pongo2.Error); !ok {
			return fmt.Sprintf("compile error is %T, not *pongo2.Error: %v", err, err), false, false
		}
		_ = err.Error()
		return "", false, false
	}
	out, xerr := tpl.Execute(ctx)
	if xerr != nil && out != "" {
		return fmt.Sprintf("Execute returned both output %q and error %v\n src=%q", out, xerr, src), true, true
	}
	if xerr != nil {
		_ = xerr.Error()
	}
	// a second entry point, for the buffering paths
	_ = tpl.ExecuteWriterUnbuffered(c01Universe(cs.Variant), &plainWriter{})
	if cs.Route == "ExecuteBlocks" {
		_, _ = tpl.ExecuteBlocks(c01Universe(cs.Variant), []string{"content", "side", "nosuchblock", ""})
		_, _ = tpl.ExecuteBlocks(nil, nil)
	}
	return "", true, xerr == nil
}

// c01HangBound: a case that does not come back within the bound ends the worker; the driver then
// re-runs the journalled case alone, in a fresh process and with a six times longer bound
// (VERIF_HANG_BOUND), and only that second verdict counts: slow but finite work - on a loaded
// machine, or made slower by a change - is not a hang.
var c01HangBound = func() time.Duration {
	if v, err := strconv.Atoi(os.Getenv("VERIF_HANG_BOUND")); err == nil && v > 0 {
		return time.Duration(v) * time.Second
	}
	return 30 * time.Second
}()

func checkC01(c any, r *Rec) error {
	cs := c.(*c01Case)
	type res struct {
		msg                string
		compiled, executed bool
		pan                any
		stack              string
	}
	done := make(chan res, 1)
	go func() {
		var rs res
		defer func() {
			if p := recover(); p != nil {
				rs.pan = p
				rs.stack = stackOf()
			}
			done <- rs
		}()
		rs.msg, rs.compiled, rs.executed = c01Run(cs)
	}()
	select {
	case rs := <-done:
		if rs.pan != nil {
			return fmt.Errorf("engine panicked: %v\n src=%q\n%s", rs.pan, c01Src(cs), rs.stack)
		}
		if rs.msg != "" {
			return errors.New(rs.msg)
		}
		if rs.compiled {
			r.Class("compiled")
		}
		if rs.executed {
			r.Class("executed-ok")
		}
		if rs.compiled {
			r.NonTrivial(c01Src(cs) + fmt.Sprint(cs.Variant, cs.Trim, cs.LStrip, cs.Globals))
		}
		return nil
	case <-time.After(c01HangBound):
		// not a verdict by itself: the driver re-runs the journalled case alone with a longer bound
		fmt.Printf("VERIF-HANG spec=C01 after %s: %q\n", c01HangBound, c01Src(cs))
		os.Exit(3)
		return nil
	}
}

func stackOf() string {
	buf := make([]byte, 1<<14)
	return string(buf[:runtimeStack(buf)])
}

func c01Src(cs *c01Case) string {
	src := cs.Files[cs.Entry]
	if cs.Raw != nil {
		src = string(cs.Raw)
	}
	return c01ApplyMuts(src, cs.Muts)
}

// ---- generators -----------------------------------------------------------------------------

// layer (c1): crude grammar over the whole universe, every step kind mixed freely
func c01Expr(t *rapid.T, depth int) string {
	filters := pongo2.VerifRegisteredFilters()
	atom := func() string {
		if drawBool(t, "lit") {
			return pick(t, "l", c01Lits)
		}
		s := pick(t, "n", c01Names)
		for j := drawInt(t, 0, 3, "ns"); j > 0; j-- {
			switch drawInt(t, 0, 5, "k") {
			case 0, 1, 2:
				s += pick(t, "st", c01Steps)
			case 3:
				if drawBool(t, "mapsub") {
					// container x key-like value: reaches the key handling of subscripts far more often than two random names
					return pick(t, "cont", []string{"arrmap", "i64map", "nsmap", "ptrmap", "ifmap", "am", "im", "um", "bm", "fm", "sm", "mm", "nilmap", "s", "sp", "sl", "arr", "str"}) +
						"[" + pick(t, "keyish", []string{"sl1", "sl2", "sl", "arr2", "arr", "i64", "i", "u8", "ns", "str", "e", "f", "nan", "t", "nili", "pp", "istr", "sstr", "mm", "fn", "0", "1", `"k"`, `"a"`, "neg", "i64min", "u64max", "tm", "val", "nilval"}) + "]"
				}
				if depth > 0 {
					s += "[" + c01Expr(t, depth-1) + "]"
				} else {
					s += "[0]"
				}
				return s // the grammar ends a name after a subscript
			default:
				var args []string
				for a := drawInt(t, 0, 3, "na"); a > 0; a-- {
					if depth > 0 {
						args = append(args, c01Expr(t, depth-1))
					} else {
						args = append(args, "1")
					}
				}
				s += "(" + strings.Join(args, ",") + ")"
			}
		}
		return s
	}
	e := atom()
	for j := drawInt(t, 0, 2, "nf"); j > 0; j-- {
		e += "|" + pick(t, "f", filters)
		if drawBool(t, "hp") {
			if drawBool(t, "pl") {
				e += ":" + pick(t, "pl2", c01Lits)
			} else {
				e += ":" + pick(t, "pn", c01Names)
			}
		}
	}
	if depth > 0 && drawInt(t, 0, 2, "bin") == 0 {
		op := pick(t, "op", []string{"+", "-", "*", "/", "%", "^", "==", "!=", "<", ">", "<=", ">=", "in", "and", "or", "&&", "||", "<>"})
		e = e + " " + op + " " + c01Expr(t, depth-1)
	}
	switch drawInt(t, 0, 9, "un") {
	case 0:
		e = "-" + e
	case 1:
		e = "!" + e
	case 2:
		e = "(" + e + ")"
	case 3:
		e = "not " + e
	}
	return e
}

func c01Tpl(t *rapid.T, depth int) string {
	var sb strings.Builder
	for i := drawInt(t, 1, 3, "n"); i > 0; i-- {
		k := drawInt(t, 0, 21, "kind")
		if depth <= 0 && k > 3 {
			k = k % 4
		}
		body := func() string { return c01Tpl(t, depth-1) }
		e := func() string { return c01Expr(t, 2) }
		switch k {
		case 0:
			sb.WriteString(pick(t, "txt", []string{"txt ", "\n", "<a> <b>", "é", "\x01", "{ ", " }}", "-"}))
		case 1, 2, 3:
			sb.WriteString("{{ " + e() + " }}")
		case 4:
			sb.WriteString("{% if " + e() + " %}" + body() + "{% elif " + e() + " %}" + body() + "{% else %}" + body() + "{% endif %}")
		case 5:
			mod := pick(t, "mod", []string{"", " reversed", " sorted", " reversed sorted"})
			v := pick(t, "lv", []string{"item", "k, v", "forloop", "i", "s", "block", "pongo2"})
			sb.WriteString("{% for " + v + " in " + e() + mod + " %}" + body() + "{{ forloop.Counter }}{{ forloop.Parentloop.Last }}{% empty %}" + body() + "{% endfor %}")
		case 6:
			nm := pick(t, "wn", []string{"a", "forloop", "block", "pongo2", "s", "i"})
			sb.WriteString("{% with " + nm + "=" + e() + " %}" + body() + "{% endwith %}")
		case 7:
			nm := pick(t, "sn", []string{"a", "forloop", "block", "pongo2", "s", "i", "mq"})
			sb.WriteString("{% set " + nm + " = " + e() + " %}")
		case 8:
			sb.WriteString("{% macro mq(a, b=" + e() + ") %}" + body() + "{{ a }}{{ b }}{% endmacro %}{{ mq(" + e() + ") }}{{ mq(1,2,3) }}")
		case 9:
			sb.WriteString("{% cycle " + e() + " " + e() + " as cy %}{% cycle cy %}{{ cy }}")
		case 10:
			sb.WriteString("{% ifchanged " + e() + " %}" + body() + "{% else %}x{% endifchanged %}{% ifchanged %}" + body() + "{% endifchanged %}")
		case 11:
			sb.WriteString("{% ifequal " + e() + " " + e() + " %}a{% else %}b{% endifequal %}{% ifnotequal " + e() + " " + e() + " %}a{% endifnotequal %}")
		case 12:
			sb.WriteString("{% firstof " + e() + " " + e() + " %}{% widthratio " + e() + " " + e() + " " + e() + " %}{% widthratio " + e() + " " + e() + " " + e() + " as wr %}{{ wr }}")
		case 13:
			f := pick(t, "tf", []string{"upper", "slice:\"1:\"", "center:sl", "join:x", "add:s", "first", "length", "floatformat:nan", "stringformat:x", "yesno:x", "pluralize", "date:x",
				"truncatewords_html:neg", "truncatechars_html:i64min", "wordwrap:u64max", "rjust:i64min", "ljust:u64max", "center:inf", "removetags:bad", "urlizetrunc:neg", "get_digit:inf"})
			sb.WriteString("{% filter " + f + " %}" + body() + "{% endfilter %}")
		case 14:
			sb.WriteString("{% autoescape off %}" + body() + "{% endautoescape %}{% spaceless %}<a> " + body() + " <b>{% endspaceless %}")
		case 15:
			sb.WriteString("{% include " + e() + " %}{% include \"/part.tpl\" with a=" + e() + " only %}{% include " + e() + " if_exists %}")
		case 16:
			sb.WriteString("{% block bb" + fmt.Sprint(drawInt(t, 0, 99, "bn")) + " %}" + body() + "{{ block.Super }}{% endblock %}{% lorem " + pick(t, "lc", []string{"3", "0", "50"}) + " w %}{% now \"2006\" fake %}{% templatetag openblock %}")
		case 17:
			sb.WriteString("{% cycle %}{% firstof %}{% ifchanged %}{% endifchanged %}")
		case 18:
			cyArg := func() string {
				if drawBool(t, "cyself") {
					return pick(t, "cya", []string{"a", "q", "name", "forloop"})
				}
				return e()
			}
			sb.WriteString("{% for q in sl %}{% cycle " + cyArg() + " " + cyArg() + " as " + pick(t, "cyn", []string{"a", "q", "name", "forloop"}) + pick(t, "cysil", []string{"", " silent"}) + " %}{{ a }}{% endfor %}")
		case 20:
			// a helper file that exports macros, pulled in as a document: its macro names may clash with context keys
			sb.WriteString(pick(t, "clash", []string{`{% include "/macros.tpl" %}`, `{% set imp_row = 1 %}{% include "/macros.tpl" %}`, `{% ssi "/macros.tpl" parsed %}`, `{% include incname with imp_row=` + e() + ` %}`,
				`{% with imp_box=1 %}{% include "/macros.tpl" only %}{% endwith %}`, `{% include "/macros.tpl" with imp_box=` + e() + ` only %}`}))
		case 21:
			// named cycles that list each other (and themselves), advanced through their names
			a, b := pick(t, "mca", []string{"a", "q"}), pick(t, "mcb", []string{"b", "a", "s"})
			sb.WriteString(`{% cycle "1" ` + b + ` as ` + a + pick(t, "mcs1", []string{"", " silent"}) + ` %}{% cycle "2" ` + a + ` as ` + b + pick(t, "mcs2", []string{"", " silent"}) + ` %}`)
			for j := drawInt(t, 1, 4, "mcn"); j > 0; j-- {
				sb.WriteString(`{% cycle ` + pick(t, "mcadv", []string{a, b}) + ` %}`)
			}
			sb.WriteString(`{{ ` + a + ` }}{{ ` + b + ` }}`)
		case 19:
			sb.WriteString(`{% import "/macros.tpl" imp_box, imp_row as ` + pick(t, "al", []string{"row", "forloop", "imp_box", "s"}) + ` %}{{ imp_box(` + e() + `) }}`)
		}
	}
	return sb.String()
}

func genC01Muts(t *rapid.T, max int) []c01Mut {
	var ms []c01Mut
	for i := drawInt(t, 0, max, "nmut"); i > 0; i-- {
		ms = append(ms, c01Mut{Op: pick(t, "mop", []string{"del", "dup", "swap", "repl", "repl", "ins", "trunc", "trunc", "trunc"}), I: drawInt(t, 0, 400, "mi"), J: drawInt(t, 0, 400, "mj"), Lex: pick(t, "mlex", c01Vocab)})
	}
	return ms
}

func genC01(t *rapid.T) *c01Case {
	cs := &c01Case{Variant: drawInt(t, 0, 11, "variant"), Trim: drawInt(t, 0, 3, "trim") == 0, LStrip: drawInt(t, 0, 3, "lstrip") == 0, Globals: drawInt(t, 0, 5, "globals") == 0, Entry: "/root.tpl"}
	switch pickW(t, "layer", []string{"program", "crude", "soup"}, []int{4, 4, 2}) {
	case "program":
		pr := genProgramWith(t, progOpts{ticks: true, includes: true, inherit: true, stateful: true, errProne: true, nondeterm: true, allFilters: true, maxDepth: 4, maxNodes: 40}, c01Names)
		cs.Files, cs.Entry = pr.Files, pr.Entry
		if drawBool(t, "mutate") {
			cs.Muts = genC01Muts(t, 3)
		}
	case "crude":
		cs.Files = progFixedFiles()
		cs.Files["/base.tpl"] = "BASE[{% block content %}base{% endblock %}]"
		src := c01Tpl(t, 3)
		if drawInt(t, 0, 5, "ext") == 0 {
			src = `{% extends "/base.tpl" %}{% block content %}` + src + `{% endblock %}`
		}
		if drawInt(t, 0, 7, "circle") == 0 {
			// templates that refer to themselves or to each other in a circle: "whatever the
			// template asks for" - loading must end (with an error), not kill the process
			cs.Files["/ring1.tpl"] = pick(t, "ring1", []string{`r1{% include "/ring2.tpl" %}`, `{% extends "/ring2.tpl" %}`, `r1{% include selfname %}`, `{% import "/ring2.tpl" rm %}r1`, `r1{% ssi "/ring2.tpl" parsed %}`})
			cs.Files["/ring2.tpl"] = pick(t, "ring2", []string{`r2{% include "/root.tpl" %}`, `{% extends "/root.tpl" %}`, `r2{% include "/ring1.tpl" if_exists %}`, `{% macro rm() export %}x{% endmacro %}{% import "/ring1.tpl" rm as rm2 %}`, `r2{% ssi "/root.tpl" parsed %}`})
			ref := pick(t, "circleref", []string{`{% include "/root.tpl" %}`, `{% include "/root.tpl" if_exists %}`, `{% include selfname %}`, `{% include selfname if_exists %}{% include selfname if_exists %}`, `{% ssi "/root.tpl" parsed %}`,
				`{% import "/root.tpl" selfm %}`, `{% include "/ring1.tpl" %}`, `{% ssi "/ring1.tpl" parsed %}`, `{% import "/ring1.tpl" rm %}`, `{% for q in sl %}{% include "/root.tpl" %}{% endfor %}`})
			switch drawInt(t, 0, 3, "circlekind") {
			case 0:
				src = pick(t, "selfext", []string{`{% extends "/root.tpl" %}`, `{% extends "/ring1.tpl" %}`, `{% extends "root.tpl" %}`}) + src
			default:
				src = src + ref
			}
		}
		cs.Files["/root.tpl"] = src
		if drawInt(t, 0, 3, "mutate") == 0 {
			cs.Muts = genC01Muts(t, 2)
		}
	default:
		cs.Files = progFixedFiles()
		var sb strings.Builder
		for i := drawInt(t, 0, 60, "nsoup"); i > 0; i-- {
			sb.WriteString(pick(t, "lx", c01Vocab))
			if drawBool(t, "sp") {
				sb.WriteString(" ")
			}
		}
		cs.Files["/root.tpl"] = sb.String()
	}
	if drawInt(t, 0, 2, "otherroute") == 0 {
		cs.Route = pick(t, "route", c01Routes)
	}
	return cs
}

var _ = register(&propSpec{
	ID:    "C01.total",
	Journ: true,
	Rule:  "three layers against a set whose loader serves an acyclic library of helper files: grammar programs over every registered tag / filter (registry hook) and operator with error-prone constructs and the full value universe as context (nil, strings incl. invalid UTF-8 / NUL, every int/uint width incl. extremes, floats incl. NaN/Inf/-0/subnormal, bools, slices, arrays by value and pointer incl. empty, maps with string/int/uint8/any/bool/float/struct keys incl. nil map, structs with exported/unexported/embedded/pointer/chan/func fields, nil pointers, pointer to pointer, Stringers, time, *Value safe/unsafe/nil, funcs of every accepted and several unaccepted shapes incl. nil func, chan, complex, error, uintptr) - also installed as Globals; a crude grammar mixing path steps, subscripts, calls and filters freely, now and then with templates that include / extend / import / ssi themselves or each other in a circle (static names, names computed at run time, rings of three files); random lexeme soup; each optionally with 1-3 token-level mutations (delete, duplicate, swap, replace, insert from the lexeme vocabulary, truncate the arguments of one tag after its first k tokens). Compiled through FromFile (2/3) or another entry point of the set (FromCache, FromString, FromBytes, RenderTemplateFile/String/Bytes, plus ExecuteBlocks). Oracle: compile returns exactly one of (template, *Error); Execute / Render* return output or an error; no panic; the worker survives (journal); no case exceeds the 30 s hang bound. Non-trivial: the source compiled (so execution ran); distinct by source+configuration.",
	Gen:   func(t *rapid.T) any { return genC01(t) },
	New:   func() any { return &c01Case{} },
	Check: checkC01,
})

func TestC01Total(t *testing.T) { runProp(t, "C01.total") }

// ---- layer (a): raw bytes, native fuzzing ---------------------------------------------------

var c01SeedOnce sync.Once
var c01Seeds [][]byte

func c01SeedCorpus() [][]byte {
	c01SeedOnce.Do(func() {
		for _, pat := range []string{"/repo/template_tests/*.tpl", "/repo/template_tests/*.helper", "/repo/template_tests/*/*.tpl", "/repo/README.md"} {
			ms, _ := globFiles(pat)
			for _, m := range ms {
				if b, err := os.ReadFile(m); err == nil && len(b) < 6000 {
					c01Seeds = append(c01Seeds, b)
				}
			}
		}
		for _, s := range []string{"{{", "}}", "{%", "%}", "{#", "{{-", "-}}", "{% verbatim %}", "{% endverbatim %}", "\x00", "\x01", "'", "\"", "\\", "{{ a|slice:\"-1:\" }}", "{% for i in x %}{% endfor %}",
			"{{ 1/0 }}", "{% cycle %}", "{% macro m(x=m()) %}{% endmacro %}{{ m() }}", "{% include \"/lazy.tpl\" %}", "{{ s.priv }}", "{{ am[mm] }}", "{{ nilfn() }}", "{% extends \"/base.tpl\" %}"} {
			c01Seeds = append(c01Seeds, []byte(s))
		}
	})
	return c01Seeds
}

func FuzzC01(f *testing.F) {
	for i, s := range c01SeedCorpus() {
		f.Add(s, uint16(i))
	}
	s := specs["C01.total"]
	rec := newRec(s)
	f.Fuzz(func(t *testing.T, src []byte, sel uint16) {
		files := progFixedFiles()
		files["/base.tpl"] = "BASE[{% block content %}base{% endblock %}]"
		files["/root.tpl"] = ""
		c := &c01Case{Files: files, Entry: "/root.tpl", Raw: src, Variant: int(sel % 12), Trim: sel&16 != 0, LStrip: sel&32 != 0, Globals: sel&64 != 0}
		if sel&128 != 0 {
			c.Route = c01Routes[int(sel>>8)%len(c01Routes)]
		}
		if err := evalCase(s, c, rec); err != nil {
			p := writeReplay(s, c, err.Error())
			t.Fatalf("VERIF-VIOLATION property=C01 spec=C01.total replay=%s: %v", p, err)
		}
	})
}

// the seed corpus itself is part of the replay tier
func TestC01Seeds(t *testing.T) {
	enumerate(t, "C01.total", "seeds", func(yield func(any) bool) {
		for i, b := range c01SeedCorpus() {
			files := progFixedFiles()
			files["/base.tpl"] = "BASE[{% block content %}base{% endblock %}]"
			files["/root.tpl"] = ""
			for v := 0; v < 2; v++ {
				if !yield(&c01Case{Files: files, Entry: "/root.tpl", Raw: b, Variant: (i + v) % 12, Globals: v == 1}) {
					return
				}
			}
		}
	})
}

// every registered filter x typical inputs x hostile parameters taken from the context (extreme
// integers of every width, infinities, NaN, nil, containers): a grid that random pairing of a
// filter with a name reaches only by luck
func TestC01Grid(t *testing.T) {
	inputs := []string{"long", "str", "sl", "i", "f", "mm", "nili", "tm", "bad", "i64min"}
	params := []string{"i64max", "i64min", "u64max", "neg", "inf", "ninf", "nan", "tiny", "nili", "sl", "str", `"2000000000"`, `"-2000000000"`, "2000000000", "i8", "u8"}
	enumerate(t, "C01.total", "grid", func(yield func(any) bool) {
		for _, f := range pongo2.VerifRegisteredFilters() {
			for _, in := range inputs {
				for pi, p := range params {
					files := progFixedFiles()
					files["/base.tpl"] = "BASE[{% block content %}base{% endblock %}]"
					files["/root.tpl"] = "{{ " + in + "|" + f + ":" + p + " }}{% filter " + f + ":" + p + " %}alpha beta gamma delta{% endfilter %}"
					if !yield(&c01Case{Files: files, Entry: "/root.tpl", Variant: pi % 12}) {
						return
					}
				}
			}
		}
	})
}
