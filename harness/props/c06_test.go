package props

// C06: literal text, verbatim blocks, comments and templatetag are reproduced
// exactly.

import (
	"bytes"
	"fmt"
	"io"
	"strings"
	"sync/atomic"
	"testing"

	"github.com/flosch/pongo2/v6"
	"pgregory.net/rapid"
)

// ---------------------------------------------------------------------------
// C06.text — a source without opening delimiters renders to itself

type c06Text struct {
	Src   []byte `json:"src"`
	Route string `json:"route,omitempty"` // how the source reaches the engine; "" = FromBytes
	// Repeat: the source is Src written Repeat times (0 = once): sizes around 4 KiB, 64 KiB, just over 1 MiB
	Repeat int `json:"repeat,omitempty"`
}

func (cs *c06Text) source() []byte {
	if cs.Repeat <= 1 || len(cs.Src) == 0 {
		return cs.Src
	}
	return bytes.Repeat(cs.Src, cs.Repeat)
}

// every way a source can reach the engine: the From*/Render* entry points of a set (bytes, string,
// through the loaders, through the cache) and being pulled in by another template
var c06Routes = []string{"FromBytes", "FromString", "FromFile", "FromCache", "RenderTemplateString", "RenderTemplateBytes", "RenderTemplateFile", "include", "ssi"}

func c06RenderVia(route string, src []byte, ctx pongo2.Context) (string, error) {
	if route == "" || route == "FromBytes" {
		return c06RenderBytes(src, ctx)
	}
	set := pongo2.NewSet("c06", &memLoader{files: map[string]string{"/t.tpl": string(src), "/inc.tpl": `{% include "/t.tpl" %}`, "/ssi.tpl": `{% ssi "/t.tpl" parsed %}`,
		"/supbase.tpl": "{% block c06b %}" + string(src) + "{% endblock %}", "/sup.tpl": `{% extends "/supbase.tpl" %}{% block c06b %}{{ block.Super }}{% endblock %}`}})
	var tpl *pongo2.Template
	var err error
	switch route {
	case "FromString":
		tpl, err = set.FromString(string(src))
	case "FromFile":
		tpl, err = set.FromFile("/t.tpl")
	case "FromCache":
		tpl, err = set.FromCache("/t.tpl")
	case "include":
		tpl, err = set.FromFile("/inc.tpl")
	case "ssi":
		tpl, err = set.FromFile("/ssi.tpl")
	case "super":
		// the text stands in a parent's block and reaches the output through block.Super
		tpl, err = set.FromFile("/sup.tpl")
	case "RenderTemplateString":
		return set.RenderTemplateString(string(src), ctx)
	case "RenderTemplateBytes":
		return set.RenderTemplateBytes(append([]byte(nil), src...), ctx)
	case "RenderTemplateFile":
		return set.RenderTemplateFile("/t.tpl", ctx)
	default:
		return "", fmt.Errorf("unknown route %q", route)
	}
	if err != nil {
		return "", fmt.Errorf("compile: %w", err)
	}
	out, err := tpl.ExecuteBytes(ctx)
	if err != nil {
		return "", fmt.Errorf("execute: %w", err)
	}
	// the other ways to execute write the same bytes
	var wb, ub bytes.Buffer
	s2, err2 := tpl.Execute(ctx)
	err3 := tpl.ExecuteWriter(ctx, &wb)
	err4 := tpl.ExecuteWriterUnbuffered(ctx, &onlyWriter{&ub})
	if err2 != nil || err3 != nil || err4 != nil {
		return "", fmt.Errorf("execute: ExecuteBytes succeeded, Execute / ExecuteWriter / ExecuteWriterUnbuffered: %v / %v / %v", err2, err3, err4)
	}
	if s2 != string(out) {
		return s2, nil
	}
	if wb.String() != string(out) {
		return wb.String(), nil
	}
	if ub.String() != string(out) {
		return ub.String(), nil
	}
	return string(out), nil
}

// onlyWriter hides every method of the wrapped writer but Write
type onlyWriter struct{ w io.Writer }

func (o *onlyWriter) Write(p []byte) (int, error) { return o.w.Write(p) }

var c06Alphabet = []byte{'{', '}', '%', '#', '-', '"', '\'', '\\', '\n', ' ', 'a', 0x01}

func hasOpenDelim(b []byte) bool {
	for i := 0; i+1 < len(b); i++ {
		if b[i] == '{' && (b[i+1] == '{' || b[i+1] == '%' || b[i+1] == '#') {
			return true
		}
	}
	return false
}

// genDelimFreeBytes builds (by construction, no rejection) a byte string that
// contains no "{{", "{%", "{#".
func genDelimFreeBytes(t *rapid.T, label string, maxLen int) []byte {
	n := drawInt(t, 0, maxLen, label+".len")
	out := make([]byte, 0, n)
	for i := 0; i < n; i++ {
		var b byte
		switch drawInt(t, 0, 9, label+".cls") {
		case 0, 1, 2, 3:
			b = pick(t, label+".sig", c06Alphabet)
		case 4:
			b = byte(drawInt(t, 0, 31, label+".ctl"))
		case 5:
			b = byte(drawInt(t, 128, 255, label+".hi"))
		case 6:
			b = pick(t, label+".ws", []byte{'\r', '\n', '\t', ' '})
		default:
			b = byte(drawInt(t, 32, 126, label+".asc"))
		}
		if len(out) > 0 && out[len(out)-1] == '{' && (b == '{' || b == '%' || b == '#') {
			b = 'x'
		}
		out = append(out, b)
	}
	// multi-byte runes and a BOM now and then
	switch drawInt(t, 0, 11, label+".extra") {
	case 0:
		out = append([]byte("\xef\xbb\xbf"), out...)
	case 1:
		out = append(out, []byte("héllo→世界😀")...)
	}
	return out
}

func significantByte(b []byte) bool {
	for _, c := range b {
		if c < 32 || c >= 127 || strings.IndexByte("{}%#-\"'\\", c) >= 0 {
			return true
		}
	}
	return false
}

func c06RenderBytes(src []byte, ctx pongo2.Context) (string, error) {
	set := pongo2.NewSet("c06", &memLoader{files: map[string]string{}})
	// the caller's buffer belongs to the caller: it is reused (overwritten) after compilation
	scratch := append([]byte(nil), src...)
	tpl, err := set.FromBytes(scratch)
	for i := range scratch {
		scratch[i] = '#'
	}
	if err != nil {
		return "", fmt.Errorf("compile: %w", err)
	}
	if tpl == nil {
		return "", fmt.Errorf("compile returned nil template and nil error")
	}
	out, err := tpl.ExecuteBytes(ctx)
	if err != nil {
		return "", fmt.Errorf("execute: %w", err)
	}
	return string(out), nil
}

func checkC06Text(c any, r *Rec) error {
	cs := c.(*c06Text)
	full := cs.source()
	if hasOpenDelim(full) {
		// outside the identity domain: only totality (tpl xor err, no panic)
		set := pongo2.NewSet("c06", &memLoader{files: map[string]string{}})
		tpl, err := set.FromBytes(full)
		if (tpl == nil) == (err == nil) {
			return fmt.Errorf("compile of %q returned tpl=%v err=%v", cs.Src, tpl, err)
		}
		if tpl != nil {
			_, _ = tpl.ExecuteBytes(pongo2.Context{})
		}
		r.Class("has-delimiter(totality only)")
		return nil
	}
	if cs.Route == "super" && len(full) > 0 && full[len(full)-1] == '{' {
		cs.Route = "FromFile" // (a trailing brace would form a delimiter with the endblock tag written behind it)
	}
	out, err := c06RenderVia(cs.Route, full, pongo2.Context{})
	if err != nil {
		return fmt.Errorf("delimiter-free source %q failed (%s): %v", cs.Src, cs.Route, err)
	}
	if out != string(full) {
		if cs.Repeat > 1 {
			return fmt.Errorf("delimiter-free source of %d bytes (%q x %d) does not render to itself (route %s): %d bytes came out", len(full), cs.Src, cs.Repeat, cs.Route, len(out))
		}
		return fmt.Errorf("delimiter-free source does not render to itself (route %s):\n src=%q\n out=%q", cs.Route, cs.Src, out)
	}
	r.Class("identity")
	if cs.Route != "" {
		r.Class("route:" + cs.Route)
	}
	if cs.Repeat > 1 {
		r.Class(fmt.Sprintf("size>=%dKiB", len(full)/1024/64*64))
	}
	if significantByte(cs.Src) {
		r.NonTrivial(string(cs.Src) + fmt.Sprint(cs.Repeat))
	}
	return nil
}

var _ = register(&propSpec{
	ID:   "C06.text",
	Rule: "byte strings built without {{ {% {# (now and then repeated up to 4 KiB / 64 KiB / just over 1 MiB; lexer-significant chars, control bytes incl. 0x01, high bytes/invalid UTF-8, CR/LF, BOM, multi-byte), handed to the engine by a drawn route (FromBytes with the caller's buffer scribbled afterwards, FromString, FromFile, FromCache, RenderTemplateString/Bytes/File, as the target of an include, as the target of ssi parsed, as the body of a parent's block reached through block.Super) and executed by all four Execute variants (the unbuffered one into a writer that has nothing but Write); must render to themselves byte for byte. Non-trivial: contains a lexer-significant, control or non-ASCII byte; distinct by source bytes.",
	Gen: func(t *rapid.T) any {
		cs := &c06Text{Src: genDelimFreeBytes(t, "src", 40), Route: pick(t, "route", append([]string{"super", "super"}, c06Routes...))}
		if len(cs.Src) > 0 && cs.Src[len(cs.Src)-1] != '{' && drawInt(t, 0, 599, "big") == 0 {
			// a large source (nothing in the statement limits the size)
			target := pick(t, "size", []int{4097, 65537, 1<<20 + 1, 1<<20 + 1})
			cs.Repeat = target/len(cs.Src) + 1
		}
		return cs
	},
	New:   func() any { return &c06Text{} },
	Check: checkC06Text,
})

func TestC06Text(t *testing.T) { runProp(t, "C06.text") }

// exhaustive: all strings over the 12-letter lexer alphabet up to length L
func TestC06Enum(t *testing.T) {
	maxLen := envInt("VERIF_C06_ENUM_LEN", 5)
	enumerate(t, "C06.text", "enum", func(yield func(any) bool) {
		buf := make([]byte, 0, maxLen)
		var rec func(depth int) bool
		rec = func(depth int) bool {
			cp := append([]byte(nil), buf...)
			if !yield(&c06Text{Src: cp}) {
				return false
			}
			if depth == maxLen {
				return true
			}
			for _, ch := range c06Alphabet {
				buf = append(buf, ch)
				if !rec(depth + 1) {
					return false
				}
				buf = buf[:len(buf)-1]
			}
			return true
		}
		rec(0)
	})
}

func FuzzC06Text(f *testing.F) {
	for _, s := range []string{"", "a", "{", "}}", "%}", "#}", "{ {", "a\x01b", "\xff\xfe", "x\r\ny", "{\n%", "-}}", "\\\"'"} {
		f.Add([]byte(s))
	}
	s := specs["C06.text"]
	rec := newRec(s)
	f.Fuzz(func(t *testing.T, src []byte) {
		c := &c06Text{Src: src}
		if len(src) > 0 {
			c.Route = c06Routes[int(src[len(src)-1])%len(c06Routes)]
		}
		if err := evalCase(s, c, rec); err != nil {
			p := writeReplay(s, c, err.Error())
			t.Fatalf("VERIF-VIOLATION property=C06 spec=C06.text replay=%s: %v", p, err)
		}
	})
}

// ---------------------------------------------------------------------------
// C06.frag — independent fragments render to the concatenation of their
// renderings; verbatim bodies are literal; comments emit nothing and are not
// evaluated; templatetag emits the named delimiter.

type c06Frag struct {
	Kind string `json:"kind"` // text verbatim hashcomment tagcomment var block templatetag
	Body []byte `json:"body"` // text / verbatim body / comment body / var+block source / templatetag arg
}

type c06Frags struct {
	Frags []c06Frag `json:"frags"`
	Route string    `json:"route,omitempty"`
}

var c06TemplateTags = map[string]string{
	"openblock": "{%", "closeblock": "%}", "openvariable": "{{", "closevariable": "}}",
	"openbrace": "{", "closebrace": "}", "opencomment": "{#", "closecomment": "#}",
}

var c06TTNames = []string{"openblock", "closeblock", "openvariable", "closevariable", "openbrace", "closebrace", "opencomment", "closecomment"}

var c06Blocks = []string{
	`{% if 1 %}A{% else %}B{% endif %}`,
	`{% if 0 %}A{% elif 1 %}C{% endif %}`,
	`{% for i in "ab" %}[{{ i }}{{ forloop.Counter }}]{% endfor %}`,
	`{% for i in "" %}x{% empty %}E{% endfor %}`,
	`{% with a=7 %}{{ a }}{% endwith %}`,
	`{% firstof 0 "f" %}`,
	`{% ifequal 1 1 %}eq{% endifequal %}`,
	`{% ifnotequal 1 1 %}ne{% else %}same{% endifnotequal %}`,
	`{% filter upper %}shout{% endfilter %}`,
	`{% spaceless %}<a> </a>{% endspaceless %}`,
	`{% autoescape off %}{{ "<" }}{% endautoescape %}`,
	`{% widthratio 1 2 100 %}`,
	`{% now "2006" fake %}`,
	`{% lorem 3 w %}`,
	`{% macro m(x) %}<{{ x }}>{% endmacro %}{{ m(5) }}`,
	`{% set q = 3 %}{{ q }}`,
}

var c06Vars = []string{`{{ 1 }}`, `{{ "s" }}`, `{{ true }}`, `{{ 'x<y' }}`, `{{ 1+2 }}`, `{{ "a"|upper }}`, `{{ 5 }}`, `{{ "\"q\\" }}`, `{{ nothing }}`}

// lexically valid but semantically broken content for comment bodies; boom()
// counts evaluations.
var c06CommentJunk = []string{
	`{{ boom() }}`, `{% nosuchtag %}`, `{{ 1|nosuchfilter }}`, `{% if %}`, `{% endfor %}`, `{{ boom()|upper }}`,
	`{% for %}`, `{{ }}`, `plain text`, `{% include "missing.tpl" %}`, `{% extends "missing.tpl" %}`, `{% block x %}`,
	`{% verbatimx %}`, `{{ 1 / 0 }}`, `{% comment %}`, `{% comment again %}`, `{% macro c06m() %}`, `{% endblock %}`, `{% autoescape off %}`, `"`, `'`, ` `, `{`, `}`, `%`, `\`,
}

func genC06Frag(t *rapid.T, i int) c06Frag {
	lbl := fmt.Sprintf("f%d", i)
	kinds := []string{"text", "verbatim", "hashcomment", "tagcomment", "var", "block", "templatetag"}
	k := pickW(t, lbl+".kind", kinds, []int{4, 3, 2, 2, 2, 2, 1})
	switch k {
	case "text":
		b := genDelimFreeBytes(t, lbl+".text", 12)
		// must not glue a delimiter together with the following fragment
		for len(b) > 0 && b[len(b)-1] == '{' {
			b[len(b)-1] = '.'
		}
		return c06Frag{Kind: k, Body: b}
	case "verbatim":
		var b []byte
		switch drawInt(t, 0, 5, lbl+".vk") {
		case 0: // empty body
		case 1:
			b = []byte(pick(t, lbl+".vj", c06CommentJunk))
		case 2:
			b = []byte(pick(t, lbl+".vfix", []string{
				"{% endverbatim%}{%endverbatim %}{% verbatim %}{{ x }}{# c #}",
				"{% comment %}kept{% endcomment %}", "a{% comment %}", "{% endcomment %}b", "{# kept #}",
				"{% comment %}{{ boom() }}{% endcomment %}tail", "{%- comment -%} x {%- endcomment -%}",
				"{% templatetag openblock %}", "{% autoescape off %}", "{{- x -}}", "{% raw %}",
			}))
		default:
			n := drawInt(t, 0, 14, lbl+".vlen")
			for j := 0; j < n; j++ {
				if drawBool(t, lbl+".vsig") {
					b = append(b, pick(t, lbl+".vc", c06Alphabet))
				} else {
					b = append(b, byte(drawInt(t, 0, 255, lbl+".vb")))
				}
			}
		}
		b = bytes.ReplaceAll(b, []byte("{% endverbatim %}"), []byte("{% endverbatim_%}"))
		return c06Frag{Kind: k, Body: b}
	case "hashcomment":
		var sb strings.Builder
		n := drawInt(t, 0, 3, lbl+".cn")
		for j := 0; j < n; j++ {
			sb.WriteString(pick(t, lbl+".cj", c06CommentJunk))
			if drawBool(t, lbl+".csp") {
				sb.WriteByte(' ')
			}
		}
		s := strings.ReplaceAll(sb.String(), "#}", "# }")
		s = strings.ReplaceAll(s, "\n", " ")
		return c06Frag{Kind: k, Body: []byte(s)}
	case "tagcomment":
		var sb strings.Builder
		n := drawInt(t, 0, 3, lbl+".cn")
		for j := 0; j < n; j++ {
			junk := pick(t, lbl+".cj", c06CommentJunk)
			// the body of a comment tag is lexed: keep it lexically valid
			if junk == `"` || junk == `'` || junk == `\` || junk == "{" {
				junk = "txt" + junk
			}
			sb.WriteString(junk)
			sb.WriteByte(' ')
		}
		return c06Frag{Kind: k, Body: []byte(sb.String())}
	case "var":
		return c06Frag{Kind: k, Body: []byte(pick(t, lbl+".var", c06Vars))}
	case "block":
		return c06Frag{Kind: k, Body: []byte(pick(t, lbl+".blk", c06Blocks))}
	default:
		return c06Frag{Kind: "templatetag", Body: []byte(pick(t, lbl+".tt", c06TTNames))}
	}
}

func (f c06Frag) source() []byte {
	switch f.Kind {
	case "text", "var", "block":
		return f.Body
	case "verbatim":
		return []byte("{% verbatim %}" + string(f.Body) + "{% endverbatim %}")
	case "hashcomment":
		return []byte("{#" + string(f.Body) + "#}")
	case "tagcomment":
		return []byte("{% comment %}" + string(f.Body) + "{% endcomment %}")
	case "templatetag":
		return []byte("{% templatetag " + string(f.Body) + " %}")
	}
	panic("unknown fragment kind " + f.Kind)
}

func checkC06Frags(c any, r *Rec) error {
	cs := c.(*c06Frags)
	var boom int64
	ctx := pongo2.Context{"boom": func() string { atomic.AddInt64(&boom, 1); return "BOOM" }}
	var whole []byte
	var expect strings.Builder
	kinds := map[string]bool{}
	for i, f := range cs.Frags {
		src := f.source()
		if i > 0 && len(whole) > 0 && whole[len(whole)-1] == '{' && len(src) > 0 && strings.IndexByte("{%#", src[0]) >= 0 {
			return skipf("fragments glue a delimiter")
		}
		whole = append(whole, src...)
		kinds[f.Kind] = true
		alone, err := c06RenderBytes(src, ctx)
		if err != nil {
			return fmt.Errorf("fragment %d (%s) %q alone failed: %v", i, f.Kind, src, err)
		}
		// direct expectations
		switch f.Kind {
		case "text", "verbatim":
			if alone != string(f.Body) {
				return fmt.Errorf("%s fragment %q rendered %q, want its body %q", f.Kind, src, alone, f.Body)
			}
		case "hashcomment", "tagcomment":
			if alone != "" {
				return fmt.Errorf("comment fragment %q rendered %q, want nothing", src, alone)
			}
		case "templatetag":
			if alone != c06TemplateTags[string(f.Body)] {
				return fmt.Errorf("templatetag %s rendered %q, want %q", f.Body, alone, c06TemplateTags[string(f.Body)])
			}
		}
		expect.WriteString(alone)
	}
	if boom != 0 {
		// vars/blocks never call boom; only comment/verbatim bodies mention it
		return fmt.Errorf("content of a comment/verbatim was evaluated %d time(s): %q", boom, whole)
	}
	got, err := c06RenderVia(cs.Route, whole, ctx)
	if err != nil {
		return fmt.Errorf("concatenation %q failed although every fragment renders alone: %v", whole, err)
	}
	if boom != 0 {
		return fmt.Errorf("content of a comment/verbatim was evaluated %d time(s) in %q", boom, whole)
	}
	if got != expect.String() {
		return fmt.Errorf("render(f1..fn) != render(f1)..render(fn)\n src=%q\n got =%q\n want=%q", whole, got, expect.String())
	}
	for k := range kinds {
		r.Class("kind:" + k)
	}
	adjacentDifferent := false
	for i := 1; i < len(cs.Frags); i++ {
		if cs.Frags[i].Kind != cs.Frags[i-1].Kind {
			adjacentDifferent = true
		}
	}
	if adjacentDifferent || significantByte(whole) && len(cs.Frags) > 0 {
		r.NonTrivial(string(whole))
	}
	return nil
}

var _ = register(&propSpec{
	ID:   "C06.frag",
	Rule: "sequences of 1-8 fragments [text|verbatim(any bytes, empty, delimiters)|{# #}|comment tag (lexically valid junk calling boom())|{{ literal }}|deterministic tag block|templatetag], no '-' markers, the whole handed over by a drawn route (From*/Render*/include/ssi parsed); verbatim bodies also hold comment tags, {# #} and trim markers; oracle: whole == concatenation of parts rendered alone, verbatim==body, comments==\"\" and boom never called, templatetag from an independent table. Non-trivial: >=2 adjacent fragments of different kinds or a lexer-significant/control/non-ASCII byte; distinct by source.",
	Gen: func(t *rapid.T) any {
		n := drawInt(t, 1, 8, "nfrags")
		cs := &c06Frags{}
		for i := 0; i < n; i++ {
			f := genC06Frag(t, i)
			cs.Frags = append(cs.Frags, f)
		}
		// repair glue between fragments by construction
		for i := 1; i < len(cs.Frags); i++ {
			prev := cs.Frags[i-1].source()
			if len(prev) > 0 && prev[len(prev)-1] == '{' {
				cs.Frags[i-1].Body = append(cs.Frags[i-1].Body, '.')
			}
		}
		cs.Route = pick(t, "route", c06Routes)
		return cs
	},
	New:   func() any { return &c06Frags{} },
	Check: checkC06Frags,
})

func TestC06Frag(t *testing.T) { runProp(t, "C06.frag") }

// unknown templatetag argument is a compile error
func TestC06TemplatetagUnknown(t *testing.T) {
	for _, arg := range []string{"nosuch", "open", "OPENBLOCK", ""} {
		_, err := pongo2.NewSet("x", &memLoader{}).FromString("{% templatetag " + arg + " %}")
		if err == nil {
			fmt.Printf("VERIF-VIOLATION property=C06 spec=C06.frag replay=- msg=%q\n", "templatetag "+arg+" compiled")
			t.Fatalf("templatetag %q compiled", arg)
		}
	}
}

func (c *c06Text) Describe() string { return quoteShort(string(c.Src)) }

func (c *c06Frags) Describe() string {
	var whole []byte
	for _, f := range c.Frags {
		whole = append(whole, f.source()...)
	}
	return quoteShort(string(whole))
}
