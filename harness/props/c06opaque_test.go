package props

// C06.opaque: "the body of a verbatim block is emitted literally and never interpreted; comments
// emit nothing and their content is never evaluated" - under every option. If a body is opaque,
// replacing it by a neutral word of letters can change the rendering only where the body itself
// is emitted: render(doc[body]) == render(doc[WORD]) with WORD replaced by the body (nothing, for
// comments). This also holds with TrimBlocks / LStripBlocks on, where the concatenation oracle of
// C06.frag does not apply.

import (
	"fmt"
	"strings"
	"testing"

	"github.com/flosch/pongo2/v6"
	"pgregory.net/rapid"
)

type c06Opaque struct {
	Frags  []c06Frag `json:"frags"`
	Trim   bool      `json:"trim"`
	LStrip bool      `json:"lstrip"`
	Route  string    `json:"route,omitempty"`
}

func c06OpaqueRender(src []byte, trim, lstrip bool, route string) (string, error) {
	set := pongo2.NewSet("c06o", newMemLoader(map[string]string{"/t.tpl": string(src), "/inc.tpl": `{% include "/t.tpl" %}`}))
	set.Options.TrimBlocks, set.Options.LStripBlocks = trim, lstrip
	var tpl *pongo2.Template
	var err error
	switch route {
	case "FromFile":
		tpl, err = set.FromFile("/t.tpl")
	case "include":
		tpl, err = set.FromFile("/inc.tpl")
	default:
		tpl, err = set.FromBytes(src)
	}
	if err != nil {
		return "", fmt.Errorf("compile: %w", err)
	}
	return tpl.Execute(pongo2.Context{"boom": func() string { return "BOOM" }})
}

func checkC06Opaque(c any, r *Rec) error {
	cs := c.(*c06Opaque)
	var real, neutral []byte
	words := map[string]string{} // neutral word -> what must appear instead
	n := 0
	for i, f := range cs.Frags {
		src := f.source()
		if i > 0 && len(real) > 0 && real[len(real)-1] == '{' && len(src) > 0 && strings.IndexByte("{%#", src[0]) >= 0 {
			return skipf("fragments glue a delimiter")
		}
		real = append(real, src...)
		switch {
		case f.Kind == "verbatim" && len(f.Body) == 0:
			// an empty body stays empty: whether "directly after a block tag" looks through an
			// empty verbatim block is C15's (open) question, not a matter of interpreting a body
			neutral = append(neutral, src...)
		case f.Kind == "verbatim" || f.Kind == "hashcomment" || f.Kind == "tagcomment":
			n++
			w := fmt.Sprintf("qzj%dxwv", n)
			g := f
			g.Body = []byte(w)
			if f.Kind != "verbatim" {
				g.Body = []byte(" " + w + " ")
				words[w] = ""
			} else {
				words[w] = string(f.Body)
			}
			neutral = append(neutral, g.source()...)
		default:
			neutral = append(neutral, src...)
		}
	}
	if n == 0 {
		return skipf("no verbatim block or comment")
	}
	got, err1 := c06OpaqueRender(real, cs.Trim, cs.LStrip, cs.Route)
	base, err2 := c06OpaqueRender(neutral, cs.Trim, cs.LStrip, cs.Route)
	if err2 != nil {
		return skipf("neutral document does not render: %v", err2)
	}
	if err1 != nil {
		return fmt.Errorf("the document fails (%v) although it renders with the verbatim bodies / comment contents replaced by plain words\n doc=%q\n neutral=%q", err1, real, neutral)
	}
	want := base
	for w, body := range words {
		if body != "" && strings.Count(want, w) != 1 {
			return fmt.Errorf("verbatim body %q: the neutral word appears %d times in %q", body, strings.Count(want, w), base)
		}
		want = strings.ReplaceAll(want, w, body)
	}
	if got != want {
		return fmt.Errorf("TrimBlocks=%v LStripBlocks=%v route=%s: what is inside a verbatim block / comment changed the rendering around it\n doc     %q\n renders %q\n with the bodies replaced by plain words it renders %q,\n i.e. expected %q", cs.Trim, cs.LStrip, cs.Route, real, got, base, want)
	}
	if cs.Trim || cs.LStrip {
		r.Class("with-options")
	}
	r.NonTrivial(string(real) + fmt.Sprint(cs.Trim, cs.LStrip))
	return nil
}

var _ = register(&propSpec{
	ID:   "C06.opaque",
	Rule: "C06.frag's fragment sequences (text, variables and tags also with '-' delimiters, verbatim bodies with leading / trailing whitespace, verbatim bodies of any bytes incl. delimiters, '%}', comment tags, both comment forms with junk that would fail or call boom(), literals, tag blocks, templatetag) under all four TrimBlocks x LStripBlocks settings and three routes; metamorphic oracle: replacing every verbatim body and every comment content by a plain word changes the rendering only by that word (verbatim) or not at all (comments). Non-trivial: every evaluated case (at least one verbatim block or comment).",
	Gen: func(t *rapid.T) any {
		cs := &c06Opaque{Trim: drawBool(t, "trim"), LStrip: drawBool(t, "lstrip"), Route: pick(t, "route", []string{"FromBytes", "FromFile", "include"})}
		n := drawInt(t, 1, 7, "nfrags")
		for i := 0; i < n; i++ {
			f := genC06Frag(t, i)
			if f.Kind == "verbatim" && drawInt(t, 0, 3, "delimbody") == 0 {
				f.Body = []byte(pick(t, "vb", []string{"%}", "-%}", "{%", "}}", "{{", "%}\n", "\n%}", "#}", "{#", " %}", "x%}"}))
			}
			if (f.Kind == "var" || f.Kind == "block") && drawInt(t, 0, 2, "trimmed") == 0 {
				// '-' delimiters next to a verbatim block / comment
				f.Body = []byte(pick(t, "tv", []string{"{{- 1 -}}", "{{ 2 -}}", "{{- 3 }}", "{%- if 1 -%}y{%- endif -%}", "{% if 1 -%}z{%- endif %}", "{%- set q = 1 -%}"}))
			}
			if f.Kind == "verbatim" && drawInt(t, 0, 2, "wsbody") == 0 {
				f.Body = []byte(pick(t, "wb", []string{"  x  ", "\n\ny\n", " ", "\n", "\t{{ boom() }}\t", " \n%}\n "}))
			}
			if f.Kind == "text" && drawBool(t, "nl") {
				f.Body = append([]byte(pick(t, "lead", []string{"\n", "\r\n", " \n", "\n\n", "  ", "\t"})), f.Body...)
			}
			cs.Frags = append(cs.Frags, f)
		}
		for i := 1; i < len(cs.Frags); i++ {
			prev := cs.Frags[i-1].source()
			if len(prev) > 0 && prev[len(prev)-1] == '{' {
				cs.Frags[i-1].Body = append(cs.Frags[i-1].Body, '.')
			}
		}
		return cs
	},
	New:   func() any { return &c06Opaque{} },
	Check: checkC06Opaque,
})

func TestC06Opaque(t *testing.T) { runProp(t, "C06.opaque") }
