package props

// C04: compile once, render many — execution never alters the compiled template.

import (
	"bytes"
	"fmt"
	"strings"
	"testing"

	"github.com/flosch/pongo2/v6"
	"pgregory.net/rapid"
)

type c04Step struct {
	Variant int    `json:"variant"`
	FailAt  int    `json:"fail_at"`       // the k-th tick() call fails (0 = none)
	Entry   string `json:"entry"`         // Execute ExecuteBytes ExecuteWriter ExecuteWriterUnbuffered
	BadKey  bool   `json:"bad_key"`       // context carries an invalid key => execution is refused
	Opt     bool   `json:"opt,omitempty"` // context carries one more entry (which the helper files print): key sets differ between executions
}

type c04Case struct {
	Prog   *Program  `json:"prog"`
	Trim   bool      `json:"trim"`
	LStrip bool      `json:"lstrip"`
	Hist   []c04Step `json:"hist"`
}

func c04Exec(tpl *pongo2.Template, st c04Step) (string, string) {
	out, errText, _ := c04ExecRaw(tpl, st)
	return out, errText
}

// c04ExecRaw also hands back the byte slice ExecuteBytes returned (it belongs to the caller)
func c04ExecRaw(tpl *pongo2.Template, st c04Step) (string, string, []byte) {
	var raw []byte
	ctx := progContext(st.Variant, &tickState{failAt: st.FailAt})
	if st.BadKey {
		ctx["not an identifier"] = 1
	}
	if st.Opt {
		ctx["opt"] = fmt.Sprintf("OPT%d", st.Variant)
	}
	var out string
	var err error
	switch st.Entry {
	case "ExecuteBytes":
		var b []byte
		b, err = tpl.ExecuteBytes(ctx)
		out = string(b)
		raw = b
	case "ExecuteWriter":
		var buf bytes.Buffer
		err = tpl.ExecuteWriter(ctx, &buf)
		out = buf.String()
	case "ExecuteWriterUnbuffered":
		var buf bytes.Buffer
		err = tpl.ExecuteWriterUnbuffered(ctx, &buf)
		out = buf.String()
	case "ExecuteBlocks":
		// every block the program may define (names are generated as blk<N>, content, side)
		names := []string{"content", "side", "nosuchblock"}
		for i := 1; i <= 12; i++ {
			names = append(names, fmt.Sprintf("blk%d", i))
		}
		var m map[string]string
		m, err = tpl.ExecuteBlocks(ctx, names)
		keys := make([]string, 0, len(m))
		for k := range m {
			keys = append(keys, k)
		}
		sortStringsInPlace(keys)
		for _, k := range keys {
			out += k + "=" + m[k] + ";"
		}
	default:
		out, err = tpl.Execute(ctx)
	}
	return out, errText(err), raw
}

func checkC04(c any, r *Rec) error {
	cs := c.(*c04Case)
	_, shared, _, err := compileProgram(cs.Prog, cs.Trim, cs.LStrip)
	if err != nil {
		return skipf("program does not compile: %v", err)
	}
	src := cs.Prog.Files[cs.Prog.Entry]
	failedBefore, differ := false, false
	type kept struct {
		raw  []byte
		want string
		at   int
	}
	var results []kept
	for i, st := range cs.Hist {
		_, fresh, _, err := compileProgram(cs.Prog, cs.Trim, cs.LStrip)
		if err != nil {
			return fmt.Errorf("second compilation of the same sources failed: %v", err)
		}
		wantOut, wantErr := c04Exec(fresh, st)
		gotOut, gotErr, raw := c04ExecRaw(shared, st)
		if raw != nil {
			results = append(results, kept{raw, gotOut, i + 1})
		}
		if gotOut != wantOut || gotErr != wantErr {
			return fmt.Errorf("execution %d of %d on the shared template (context variant %d, fail_at %d, %s, TrimBlocks=%v LStripBlocks=%v)\n got  %q / %s\n a freshly compiled template gives\n want %q / %s\n root=%q\n history=%+v",
				i+1, len(cs.Hist), st.Variant, st.FailAt, st.Entry, cs.Trim, cs.LStrip, gotOut, gotErr, wantOut, wantErr, src, cs.Hist)
		}
		if i > 0 {
			if failedBefore {
				r.Class("after-failed-execution")
			}
			if st.Variant != cs.Hist[i-1].Variant {
				differ = true
			}
		}
		if gotErr != "<nil>" {
			failedBefore = true
		}
	}
	// what an execution returned stays what it was, whatever was executed afterwards
	for _, k := range results {
		if string(k.raw) != k.want {
			return fmt.Errorf("the bytes ExecuteBytes returned in execution %d of %d were %q; after the later executions the same slice reads %q\n root=%q\n history=%+v", k.at, len(cs.Hist), k.want, string(k.raw), src, cs.Hist)
		}
	}
	stateful := strings.Contains(src, "cycle") || strings.Contains(src, "ifchanged")
	if stateful {
		r.Class("has-stateful-tag")
	}
	if cs.Trim || cs.LStrip {
		r.Class("trim-options")
	}
	if len(cs.Hist) >= 2 && (failedBefore || differ || stateful) {
		r.NonTrivial(fmt.Sprintf("%v|%v|%v|%+v", cs.Prog.Files, cs.Trim, cs.LStrip, cs.Hist))
	}
	return nil
}

func genC04Hist(t *rapid.T, maxLen int) []c04Step {
	n := drawInt(t, 2, maxLen, "nexec")
	pool := []int{drawInt(t, 0, 11, "v0"), drawInt(t, 0, 11, "v1"), drawInt(t, 0, 11, "v2")}
	var hist []c04Step
	for i := 0; i < n; i++ {
		st := c04Step{Variant: pick(t, "variant", pool), Entry: pick(t, "entry", []string{"Execute", "Execute", "ExecuteBytes", "ExecuteWriter", "ExecuteWriterUnbuffered", "ExecuteBlocks"})}
		switch drawInt(t, 0, 5, "fault") {
		case 0, 1:
			st.FailAt = drawInt(t, 1, 6, "failat")
		case 2:
			st.BadKey = drawInt(t, 0, 2, "badkey") == 0
		}
		st.Opt = drawInt(t, 0, 2, "opt") == 0
		hist = append(hist, st)
	}
	return hist
}

var _ = register(&propSpec{
	ID:   "C04.history",
	Rule: "deterministic generated multi-file programs over every tag (incl. cycle, ifchanged, macros, includes static/lazy, import, extends, filter tag, spaceless), both TrimBlocks/LStripBlocks settings; histories of 2-6 executions on ONE compiled template with contexts from a pool of 3, some of them carrying one more entry than the others (same names carrying different Go types), entry points chosen at random, some executions failing (k-th tick() fails, invalid context key, division by a zero variable); each (output, error text) must equal that of a freshly compiled template executed once, and the byte slices ExecuteBytes handed out are read again after the whole history (a result is the caller's; later executions leave it alone). Non-trivial: n >= 2 and (an earlier execution failed, or contexts differ, or a stateful tag is present); distinct by program+history.",
	Gen: func(t *rapid.T) any {
		return &c04Case{
			Prog:   genProgram(t, progOpts{ticks: true, includes: true, inherit: true, stateful: true, errProne: drawInt(t, 0, 3, "errprone") == 0, maxDepth: 4, maxNodes: 30}),
			Trim:   drawBool(t, "trim"),
			LStrip: drawBool(t, "lstrip"),
			Hist:   genC04Hist(t, 6),
		}
	},
	New:   func() any { return &c04Case{} },
	Check: checkC04,
})

func TestC04History(t *testing.T) { runProp(t, "C04.history") }
