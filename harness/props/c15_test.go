package props

// C15: whitespace control removes exactly the whitespace it names.
// Metamorphic pair: the marked document (with '-' markers / TrimBlocks /
// LStripBlocks) must render exactly like the same document from which the
// named whitespace was deleted by hand, compiled with everything off.

import (
	"fmt"
	"strings"
	"testing"

	"github.com/flosch/pongo2/v6"
	"pgregory.net/rapid"
)

type c15Tok struct {
	Kind string `json:"kind"` // text | var | tag
	Src  string `json:"src"`  // literal text, or the inside of the tag ("if flag", "endif", "v")
	L    bool   `json:"l,omitempty"`
	R    bool   `json:"r,omitempty"`
}

type c15Case struct {
	Files   map[string][]c15Tok `json:"files"`
	Trim    bool                `json:"trim"`
	LStrip  bool                `json:"lstrip"`
	Variant int                 `json:"variant"`
	// PerTemplate: the options are set on the compiled root template (tpl.Options) instead of on
	// the set; the hand-stripped reference is compiled in the SAME set and keeps the defaults
	PerTemplate bool `json:"per_template,omitempty"`
	// UsedSet: the set compiled and rendered the same files before, with the opposite options
	UsedSet bool `json:"used_set,omitempty"`
}

const c15WS = " \t\r\n"

func (t c15Tok) marked() string {
	switch t.Kind {
	case "text":
		return t.Src
	case "verb":
		// a verbatim block: its tags take no markers, its body is nobody's literal text - neither
		// a neighbour's '-' nor an option touches it
		return "{% verbatim %}" + t.Src + "{% endverbatim %}"
	case "var":
		s := "{{"
		if t.L {
			s += "-"
		}
		s += " " + t.Src + " "
		if t.R {
			s += "-"
		}
		return s + "}}"
	default:
		s := "{%"
		if t.L {
			s += "-"
		}
		s += " " + t.Src + " "
		if t.R {
			s += "-"
		}
		return s + "%}"
	}
}

func (t c15Tok) plain() string {
	switch t.Kind {
	case "text":
		return t.Src
	case "verb":
		return "{% verbatim %}" + t.Src + "{% endverbatim %}"
	case "var":
		return "{{ " + t.Src + " }}"
	default:
		return "{% " + t.Src + " %}"
	}
}

// c15Strip returns the hand-stripped source of a token list plus statistics.
func c15Strip(toks []c15Tok, trim, lstrip bool) (src string, removed, survived int) {
	var sb strings.Builder
	for i, t := range toks {
		if t.Kind != "text" {
			sb.WriteString(t.plain())
			continue
		}
		s := t.Src
		var p, q *c15Tok
		if i > 0 {
			p = &toks[i-1]
		}
		if i+1 < len(toks) {
			q = &toks[i+1]
		}
		orig := s
		if trim && p != nil && p.Kind == "tag" && strings.HasPrefix(s, "\n") {
			s = s[1:] // exactly the first newline directly after a block tag
		}
		if lstrip && q != nil && q.Kind == "tag" {
			s = strings.TrimRight(s, " \t") // exactly the spaces and tabs directly before a block tag
		}
		if p != nil && p.R {
			s = strings.TrimLeft(s, c15WS)
		}
		if q != nil && q.L {
			s = strings.TrimRight(s, c15WS)
		}
		if s != orig {
			removed++
		}
		if s != "" && (strings.TrimLeft(s, c15WS) != s || strings.TrimRight(s, c15WS) != s) {
			survived++
		}
		sb.WriteString(s)
	}
	return sb.String(), removed, survived
}

func c15Marked(toks []c15Tok) string {
	var sb strings.Builder
	for _, t := range toks {
		sb.WriteString(t.marked())
	}
	return sb.String()
}

func c15Context(variant int) pongo2.Context {
	return pongo2.Context{
		"v":     []string{"  spaced\tvalue \n", "x", "", "\n\nlines\n"}[variant%4],
		"flag":  variant%2 == 0,
		"items": [][]string{{"a", " b "}, {}, {"\n", "c", "d"}}[variant%3],
		"name":  " N ",
		// names of includable files, for includes by a computed name
		"lz1": "/inc1.tpl", "lz2": "/inc2.tpl", "lz3": "/inc3.tpl", "lz4": "/inc4.tpl", "lz5": "/inc5.tpl", "lz6": "/inc6.tpl", "lz7": "/inc7.tpl", "lz8": "/inc8.tpl", "lz9": "/inc9.tpl",
	}
}

func c15Render(files map[string]string, trim, lstrip bool, ctx pongo2.Context) (string, error) {
	return c15RenderOn(pongo2.NewSet("c15", newMemLoader(files)), trim, lstrip, ctx)
}

// c15RenderOn: the set may have been used before, with other options
func c15RenderOn(set *pongo2.TemplateSet, trim, lstrip bool, ctx pongo2.Context) (string, error) {
	set.Options.TrimBlocks = trim
	set.Options.LStripBlocks = lstrip
	tpl, err := set.FromFile("/root.tpl")
	if err != nil {
		return "", fmt.Errorf("compile: %w", err)
	}
	return tpl.Execute(ctx)
}

func checkC15(c any, r *Rec) error {
	cs := c.(*c15Case)
	marked := map[string]string{}
	plain := map[string]string{}
	removed, survived := 0, 0
	for name, toks := range cs.Files {
		// two adjacent text tokens would be one literal for the engine: merge defensively
		for i := 1; i < len(toks); i++ {
			if toks[i].Kind == "text" && toks[i-1].Kind == "text" {
				return skipf("adjacent text tokens")
			}
		}
		marked[name] = c15Marked(toks)
		p, rm, sv := c15Strip(toks, cs.Trim, cs.LStrip)
		plain[name] = p
		removed += rm
		survived += sv
	}
	ctx := c15Context(cs.Variant)
	if cs.PerTemplate {
		return c15PerTemplate(cs, r, removed, survived)
	}
	var got string
	var err1 error
	if cs.UsedSet {
		// one set whose options are switched between the compilations: the document was compiled
		// and rendered with the opposite settings before
		set := pongo2.NewSet("c15used", newMemLoader(marked))
		_, _ = c15RenderOn(set, !cs.Trim, !cs.LStrip, c15Context(cs.Variant))
		got, err1 = c15RenderOn(set, cs.Trim, cs.LStrip, ctx)
	} else {
		got, err1 = c15Render(marked, cs.Trim, cs.LStrip, ctx)
	}
	want, err2 := c15Render(plain, false, false, c15Context(cs.Variant))
	if err2 != nil {
		return skipf("hand-stripped variant does not render: %v", err2)
	}
	if err1 != nil {
		return fmt.Errorf("marked document fails (%v) although the hand-stripped one renders\n marked=%q\n plain =%q", err1, marked, plain)
	}
	if got != want {
		return fmt.Errorf("TrimBlocks=%v LStripBlocks=%v\n marked document  %q\n renders         %q\n hand-stripped   %q\n renders         %q", cs.Trim, cs.LStrip, marked, got, plain, want)
	}
	if cs.Trim {
		r.Class("TrimBlocks")
	}
	if cs.LStrip {
		r.Class("LStripBlocks")
	}
	if len(cs.Files) > 1 {
		r.Class("with-include-or-parent")
	}
	if _, ok := cs.Files["/base.tpl"]; ok {
		r.Class("hierarchy")
	}
	if removed > 0 && survived > 0 {
		r.NonTrivial(fmt.Sprintf("%v|%v|%v|%d", marked, cs.Trim, cs.LStrip, cs.Variant))
	}
	return nil
}

// ---- generator ----------------------------------------------------------------

type c15Gen struct {
	t     *rapid.T
	files map[string][]c15Tok
	n     int
}

func (g *c15Gen) ws() string {
	n := drawInt(g.t, 0, 4, "wslen")
	var sb strings.Builder
	for i := 0; i < n; i++ {
		sb.WriteString(pick(g.t, "ws", []string{" ", " ", "\t", "\n", "\n", "\r", "\r\n"}))
	}
	return sb.String()
}

func (g *c15Gen) text() string {
	// whitespace run, optionally word(s) with inner whitespace, whitespace run
	s := g.ws()
	switch drawInt(g.t, 0, 5, "textkind") {
	case 0: // whitespace only
		return s
	case 1:
		s += pick(g.t, "word", []string{"w", "é", "x-y", "<p>", "%", "}"}) + "{# c #}" + pick(g.t, "word2", []string{"z", "q"})
	default:
		s += pick(g.t, "word", []string{"w", "é", "x-y", "<p>", "-", "a b", "l1\nl2", "}"})
	}
	return s + g.ws()
}

func (g *c15Gen) tag(kind, src string) c15Tok {
	return c15Tok{Kind: kind, Src: src, L: drawInt(g.t, 0, 3, "L") == 0, R: drawInt(g.t, 0, 3, "R") == 0}
}

func (g *c15Gen) seq(depth int, out *[]c15Tok) {
	n := drawInt(g.t, 0, 3, "seqlen")
	addText := func() {
		if drawInt(g.t, 0, 4, "notext") != 0 {
			if s := g.text(); s != "" {
				*out = append(*out, c15Tok{Kind: "text", Src: s})
			}
		}
	}
	addText()
	for i := 0; i < n; i++ {
		k := pick(g.t, "construct", []string{"var", "var", "if", "for", "with", "set", "include", "verb"})
		if depth <= 0 && (k == "if" || k == "for" || k == "with" || k == "include") {
			k = "var"
		}
		switch k {
		case "var":
			*out = append(*out, g.tag("var", pick(g.t, "v", []string{"v", "name", `"lit"`, "1"})))
		case "if":
			*out = append(*out, g.tag("tag", pick(g.t, "cond", []string{"if flag", "if not flag", "if 1"})))
			g.seq(depth-1, out)
			if drawBool(g.t, "else") {
				*out = append(*out, g.tag("tag", "else"))
				g.seq(depth-1, out)
			}
			*out = append(*out, g.tag("tag", "endif"))
		case "for":
			*out = append(*out, g.tag("tag", "for i in items"))
			g.seq(depth-1, out)
			if drawBool(g.t, "empty") {
				*out = append(*out, g.tag("tag", "empty"))
				g.seq(depth-1, out)
			}
			*out = append(*out, g.tag("tag", "endfor"))
		case "with":
			*out = append(*out, g.tag("tag", "with a=v"))
			g.seq(depth-1, out)
			*out = append(*out, g.tag("tag", "endwith"))
		case "verb":
			*out = append(*out, c15Tok{Kind: "verb", Src: pick(g.t, "verbbody", []string{"  vb  ", "\nvb\n", " ", "\t{{ x }} \n", "vb", "\n\n"})})
		case "set":
			*out = append(*out, g.tag("tag", "set s = 1"))
		case "include":
			g.n++
			name := fmt.Sprintf("/inc%d.tpl", g.n)
			var sub []c15Tok
			g.seq(depth-1, &sub)
			g.files[name] = sub
			// (by whichever tag the file is pulled in: its whitespace is controlled like the root's)
			*out = append(*out, g.tag("tag", pick(g.t, "incvia", []string{`include "` + name + `"`, `include "` + name + `"`, `ssi "` + name + `" parsed`, `include "` + name + `" with q=1`, `include "` + name + `" if_exists`, fmt.Sprintf("include lz%d", g.n)})))
		}
		addText()
	}
}

var _ = register(&propSpec{
	ID:   "C15.doc",
	Rule: "documents (optionally with files pulled in by include - plain, with a pair, if_exists - or ssi parsed, or a two- or three-level extends hierarchy in which every level contributes text) = constructs ({{ v }}, if/else, for/empty, with, set, include, verbatim blocks whose body is whitespace-rich and must come out untouched whatever stands next to them) separated by literal text with random runs of space/tab/CR/LF (also at BOF/EOF, between adjacent constructs, around embedded {# #}); every delimiter independently carries '-'; all four TrimBlocks x LStripBlocks settings (in a quarter of the cases on a set that compiled and rendered the same files with the opposite settings before); context values contain whitespace themselves. Oracle: byte-identical to the hand-stripped document compiled with all options off. Non-trivial: >= 1 whitespace run removed and >= 1 surviving; distinct by marked sources+options.",
	Gen: func(t *rapid.T) any {
		g := &c15Gen{t: t, files: map[string][]c15Tok{}}
		var root []c15Tok
		switch drawInt(t, 0, 5, "hierarchy") {
		case 0:
			// a two-level hierarchy: the options and markers apply to the parent's document as well
			var base []c15Tok
			g.seq(2, &base)
			base = append(base, g.tag("tag", "block main"))
			g.seq(1, &base)
			base = append(base, g.tag("tag", "endblock"))
			g.seq(2, &base)
			g.files["/base.tpl"] = base
			root = append(root, g.tag("tag", `extends "/base.tpl"`), g.tag("tag", "block main"))
			g.seq(3, &root)
			root = append(root, g.tag("tag", "endblock"))
		case 1:
			// three levels: the template in the middle contributes text of its own
			var base, mid []c15Tok
			g.seq(1, &base)
			base = append(base, g.tag("tag", "block main"))
			g.seq(1, &base)
			base = append(base, g.tag("tag", "endblock"))
			g.seq(1, &base)
			g.files["/base.tpl"] = base
			mid = append(mid, g.tag("tag", `extends "/base.tpl"`), g.tag("tag", "block main"))
			g.seq(2, &mid)
			mid = append(mid, g.tag("tag", "block inner"))
			g.seq(1, &mid)
			mid = append(mid, g.tag("tag", "endblock"))
			g.seq(2, &mid)
			mid = append(mid, g.tag("tag", "endblock"))
			g.files["/mid.tpl"] = mid
			root = append(root, g.tag("tag", `extends "/mid.tpl"`), g.tag("tag", "block inner"))
			g.seq(2, &root)
			root = append(root, g.tag("tag", "endblock"))
		default:
			g.seq(3, &root)
		}
		g.files["/root.tpl"] = root
		// per-template options only for single-file documents: whether a template's own options reach
		// what it includes or extends is not something the property states
		return &c15Case{Files: g.files, Trim: drawBool(t, "trim"), LStrip: drawBool(t, "lstrip"), Variant: drawInt(t, 0, 11, "variant"), PerTemplate: len(g.files) == 1 && drawInt(t, 0, 1, "pertemplate") == 0, UsedSet: drawInt(t, 0, 3, "usedset") == 0}
	},
	New:   func() any { return &c15Case{} },
	Check: checkC15,
})

func TestC15Doc(t *testing.T) { runProp(t, "C15.doc") }

// ---- spaceless -------------------------------------------------------------------

type c15SL struct {
	Parts []string `json:"parts"` // literal pieces of the body
	Vals  []string `json:"vals"`  // pieces that come from context values ({{ p0|safe }} ...)
	Order []int    `json:"order"` // >=0: index into Parts, <0: -(index+1) into Vals
}

func isSLSpace(c byte) bool {
	return c == '\t' || c == '\n' || c == '\v' || c == '\f' || c == '\r' || c == ' '
}

// refSpaceless removes exactly the whitespace runs between two HTML tags,
// where a tag is '<', characters other than newline, '>'. Repeats to a fixed point.
func refSpaceless(s string) string { return refSpacelessWith(s, false) }

// refSpacelessWith: multiline = a tag may contain line breaks (HTML's notion; the engine's regexp
// stops a tag at a line break)
func refSpacelessWith(s string, multiline bool) string {
	for {
		var out []byte
		changed := false
		i := 0
		for i < len(s) {
			if !isSLSpace(s[i]) {
				out = append(out, s[i])
				i++
				continue
			}
			j := i
			for j < len(s) && isSLSpace(s[j]) {
				j++
			}
			// run s[i:j]; removable iff preceded by '>' closing a tag on its line and followed by '<' opening one
			remove := false
			if i > 0 && s[i-1] == '>' && j < len(s) && s[j] == '<' {
				left := false
				for k := i - 2; k >= 0 && (multiline || s[k] != '\n'); k-- {
					if s[k] == '<' {
						left = true
						break
					}
				}
				right := false
				for k := j + 1; k < len(s) && (multiline || s[k] != '\n'); k++ {
					if s[k] == '>' {
						right = true
						break
					}
				}
				remove = left && right
			}
			if remove {
				changed = true
			} else {
				out = append(out, s[i:j]...)
			}
			i = j
		}
		s = string(out)
		if !changed {
			return s
		}
	}
}

func checkC15SL(c any, r *Rec) error {
	cs := c.(*c15SL)
	var src, body strings.Builder
	ctx := pongo2.Context{}
	for _, o := range cs.Order {
		if o >= 0 {
			src.WriteString(cs.Parts[o])
			body.WriteString(cs.Parts[o])
		} else {
			k := -o - 1
			name := fmt.Sprintf("p%d", k)
			ctx[name] = cs.Vals[k]
			src.WriteString("{{ " + name + "|safe }}")
			body.WriteString(cs.Vals[k])
		}
	}
	full := "[{% spaceless %}" + src.String() + "{% endspaceless %}]"
	tpl, err := pongo2.NewSet("c15sl", &memLoader{}).FromString(full)
	if err != nil {
		return skipf("does not compile: %v", err)
	}
	got, err := tpl.Execute(ctx)
	if err != nil {
		return fmt.Errorf("spaceless body %q: %v", body.String(), err)
	}
	want := "[" + refSpaceless(body.String()) + "]"
	if alt := "[" + refSpacelessWith(body.String(), true) + "]"; got == alt {
		// a tag that spans lines is a tag in HTML; whether spaceless sees it as one is not stated
		want = alt
	}
	if got != want {
		return fmt.Errorf("spaceless over rendered body %q\n got  %q\n want %q (only whitespace runs between two tags removed)", body.String(), got, want)
	}
	if want != "["+body.String()+"]" && strings.ContainsAny(refSpaceless(body.String()), " \t\n") {
		r.NonTrivial(full + fmt.Sprint(cs.Vals))
	}
	return nil
}

var c15SLPieces = []string{"<a>", "</a>", "<b class=\"x y\">", "<c/>", "<d\n>", "text", "two words", " ", "  ", "\n", "\t", "\r\n", " \n ", ">", "<", "a > b", "1 < 2",
	"<p>", "</p>", "<i>", "\v", "\f", "$ make >", "< x", "<>", "é", "<e >"}

var _ = register(&propSpec{
	ID:   "C15.spaceless",
	Rule: "spaceless over bodies assembled from HTML-ish pieces (tags, tags with attributes / containing a newline, text, stray '<' and '>', whitespace runs of every kind), literal or coming from safe context values; oracle: exactly the whitespace runs lying between '>' of a tag and '<' of the next tag are removed (fixed point), nothing else changes. Non-trivial: something was removed and some whitespace survived.",
	Gen: func(t *rapid.T) any {
		cs := &c15SL{}
		n := drawInt(t, 0, 10, "n")
		for i := 0; i < n; i++ {
			p := pick(t, "piece", c15SLPieces)
			if drawInt(t, 0, 4, "fromctx") == 0 {
				cs.Vals = append(cs.Vals, p)
				cs.Order = append(cs.Order, -len(cs.Vals))
			} else {
				if p == "<" { // a literal '<' must not glue to '{'... it cannot; but "{" never occurs here anyway
				}
				cs.Parts = append(cs.Parts, p)
				cs.Order = append(cs.Order, len(cs.Parts)-1)
			}
		}
		return cs
	},
	New:   func() any { return &c15SL{} },
	Check: checkC15SL,
})

func TestC15Spaceless(t *testing.T) { runProp(t, "C15.spaceless") }

// c15PerTemplate: options set per template; other templates of the same set are not affected.
func c15PerTemplate(cs *c15Case, r *Rec, removed, survived int) error {
	files := map[string]string{}
	rm := 0
	for name, toks := range cs.Files {
		files["/m"+name] = strings.ReplaceAll(c15Marked(toks), `"/`, `"/m/`)
		// only the root template carries the options; everything it pulls in keeps the set's defaults
		t, l := false, false
		if name == "/root.tpl" {
			t, l = cs.Trim, cs.LStrip
		}
		p, n, _ := c15Strip(toks, t, l)
		rm += n
		files["/p"+name] = strings.ReplaceAll(p, `"/`, `"/p/`)
		// "late": the same marked document, first executed with the options off
		files["/l"+name] = strings.ReplaceAll(c15Marked(toks), `"/`, `"/l/`)
		q, _, _ := c15Strip(toks, false, false)
		files["/q"+name] = strings.ReplaceAll(q, `"/`, `"/q/`)
	}
	set := pongo2.NewSet("c15pt", newMemLoader(files))
	marked, err := set.FromFile("/m/root.tpl")
	if err != nil {
		return skipf("marked document does not compile: %v", err)
	}
	plain, err := set.FromFile("/p/root.tpl")
	if err != nil {
		return skipf("hand-stripped document does not compile: %v", err)
	}
	if cs.Variant%2 == 0 {
		marked.Options.TrimBlocks, marked.Options.LStripBlocks = cs.Trim, cs.LStrip
	} else {
		marked.Options.Update(&pongo2.Options{TrimBlocks: cs.Trim, LStripBlocks: cs.LStrip})
	}
	// the reference first (and again afterwards): it must not be touched by the other template's options
	want, err2 := plain.Execute(c15Context(cs.Variant))
	if err2 != nil {
		return skipf("hand-stripped variant does not render: %v", err2)
	}
	got, err1 := marked.Execute(c15Context(cs.Variant))
	if err1 != nil {
		return fmt.Errorf("marked document fails: %v\n files=%q", err1, files)
	}
	again, _ := plain.Execute(c15Context(cs.Variant))
	if again != want {
		return fmt.Errorf("a template with default options rendered %q before and %q after another template of the same set got TrimBlocks=%v LStripBlocks=%v\n files=%q", want, again, cs.Trim, cs.LStrip, files)
	}
	if got != want {
		return fmt.Errorf("per-template options TrimBlocks=%v LStripBlocks=%v\n marked renders        %q\n hand-stripped renders %q\n files=%q", cs.Trim, cs.LStrip, got, want, files)
	}
	if set.Options.TrimBlocks || set.Options.LStripBlocks {
		return fmt.Errorf("setting a template's options changed the set's options")
	}
	// a set with both options on, a template of it told otherwise through Options.Update before
	// its first execution: the template's own options count, also for switching something OFF
	{
		setOn := pongo2.NewSet("c15on", newMemLoader(files))
		setOn.Options.TrimBlocks, setOn.Options.LStripBlocks = true, true
		if t2, e := setOn.FromFile("/m/root.tpl"); e == nil {
			t2.Options.Update(&pongo2.Options{TrimBlocks: cs.Trim, LStripBlocks: cs.LStrip})
			got2, e2 := t2.Execute(c15Context(cs.Variant))
			if e2 != nil || got2 != want {
				return fmt.Errorf("set with both options on, template updated to TrimBlocks=%v LStripBlocks=%v before its first execution: renders %q (err %v), hand-stripped %q\n files=%q", cs.Trim, cs.LStrip, got2, e2, want, files)
			}
		}
	}
	// "You can change the options before calling the Execute method" (doc of TemplateSet.Options):
	// also when the template has been executed before with the options off
	if cs.Trim || cs.LStrip {
		late, e1 := set.FromFile("/l/root.tpl")
		off, e2 := set.FromFile("/q/root.tpl")
		if e1 == nil && e2 == nil {
			wantOff, e3 := off.Execute(c15Context(cs.Variant))
			gotOff, e4 := late.Execute(c15Context(cs.Variant))
			if e3 == nil && (e4 != nil || gotOff != wantOff) {
				return fmt.Errorf("with all options off the marked document renders %q (err %v), hand-stripped %q\n files=%q", gotOff, e4, wantOff, files)
			}
			late.Options.TrimBlocks, late.Options.LStripBlocks = cs.Trim, cs.LStrip
			gotOn, e5 := late.Execute(c15Context(cs.Variant))
			if e5 != nil || gotOn != want {
				return fmt.Errorf("options TrimBlocks=%v LStripBlocks=%v switched on after a first execution without them: renders %q (err %v), hand-stripped %q\n files=%q", cs.Trim, cs.LStrip, gotOn, e5, want, files)
			}
			// off and on again: still exactly the named whitespace is gone (what the rendering looks
			// like while the options are off again is not asserted)
			late.Options.TrimBlocks, late.Options.LStripBlocks = false, false
			_, _ = late.Execute(c15Context(cs.Variant))
			late.Options.TrimBlocks, late.Options.LStripBlocks = cs.Trim, cs.LStrip
			gotOn2, e6 := late.Execute(c15Context(cs.Variant))
			if e6 != nil || gotOn2 != want {
				return fmt.Errorf("options TrimBlocks=%v LStripBlocks=%v switched on, off and on again: renders %q (err %v), hand-stripped %q\n files=%q", cs.Trim, cs.LStrip, gotOn2, e6, want, files)
			}
			r.Class("options-after-first-execution")
		}
	}
	r.Class("per-template-options")
	if rm > 0 && survived > 0 {
		r.NonTrivial(fmt.Sprintf("%v|%v|%v|pt", files, cs.Trim, cs.LStrip))
	}
	return nil
}
