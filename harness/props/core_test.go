package props

// Shared runner for all property checks: case generation through rapid,
// oracle invocation with panic capture, evidence recording, replay files,
// write-ahead journal for process-killing failures.

import (
	"encoding/binary"
	"encoding/json"
	"fmt"
	"hash/fnv"
	"os"
	"path/filepath"
	"runtime"
	"runtime/debug"
	"sort"
	"strconv"
	"strings"
	"sync"
	"testing"

	"pgregory.net/rapid"
)

// ---------------------------------------------------------------------------
// environment

func envOr(k, d string) string {
	if v := os.Getenv(k); v != "" {
		return v
	}
	return d
}

func envInt(k string, d int) int {
	if v := os.Getenv(k); v != "" {
		if n, err := strconv.Atoi(v); err == nil {
			return n
		}
	}
	return d
}

// outDir is where evidence fragments, journals and replay files are written.
func outDir() string {
	d := envOr("VERIF_OUT", "")
	if d == "" {
		d = filepath.Join(os.TempDir(), "verif-out-default")
	}
	_ = os.MkdirAll(d, 0o755)
	return d
}

func replayDir() string {
	d := envOr("VERIF_REPLAYS", filepath.Join(outDir(), "replays"))
	_ = os.MkdirAll(d, 0o755)
	return d
}

var excludes = func() map[string]bool {
	m := map[string]bool{}
	for _, e := range strings.Split(os.Getenv("VERIF_EXCLUDE"), ",") {
		if e = strings.TrimSpace(e); e != "" {
			m[e] = true
		}
	}
	return m
}()

// excluded reports whether a generator feature is switched off because a
// known finding with that root cause is still present in the tree.
func excluded(feature string) bool { return excludes[feature] }

func tierThorough() bool { return os.Getenv("VERIF_TIER") == "thorough" }

func init() {
	// a runaway recursion should die quickly instead of eating 1 GB
	debug.SetMaxStack(256 << 20)
}

// ---------------------------------------------------------------------------
// spec registry

type propSpec struct {
	ID    string                    // e.g. "C06.text"
	Rule  string                    // generation + non-trivial rule (evidence)
	Gen   func(t *rapid.T) any      // draws a case (pointer to a JSON-able struct)
	New   func() any                // empty case for replay decoding
	Check func(c any, r *Rec) error // oracle; nil = property held on this case
	Journ bool                      // write-ahead journal (process-killing failures)
}

func (s *propSpec) Property() string {
	if i := strings.IndexByte(s.ID, '.'); i >= 0 {
		return s.ID[:i]
	}
	return s.ID
}

var specs = map[string]*propSpec{}

func register(s *propSpec) *propSpec {
	if _, dup := specs[s.ID]; dup {
		panic("duplicate spec " + s.ID)
	}
	specs[s.ID] = s
	return s
}

// errSkip marks a generated case as outside the property's domain (counted
// as discarded, never as an evaluation).
type errSkip struct{ why string }

func (e errSkip) Error() string { return "skip: " + e.why }

func skipf(format string, a ...any) error { return errSkip{fmt.Sprintf(format, a...)} }

// ---------------------------------------------------------------------------
// evidence recorder

type Rec struct {
	mu        sync.Mutex
	spec      *propSpec
	evals     int
	discarded int
	nt        map[uint64]struct{}
	classes   map[string]int
	samples   []json.RawMessage
	extra     map[string]int
	curNT     bool
	curKey    string
}

func newRec(s *propSpec) *Rec {
	return &Rec{spec: s, nt: map[uint64]struct{}{}, classes: map[string]int{}, extra: map[string]int{}}
}

func hash64(s string) uint64 {
	h := fnv.New64a()
	_, _ = h.Write([]byte(s))
	return h.Sum64()
}

// NonTrivial marks the current case as non-trivial by the spec's rule; key is
// the canonical encoding that makes it distinct.
func (r *Rec) NonTrivial(key string) {
	r.mu.Lock()
	r.curNT = true
	r.curKey = key
	r.mu.Unlock()
}

func (r *Rec) Class(name string) {
	r.mu.Lock()
	r.classes[name]++
	r.mu.Unlock()
}

func (r *Rec) Add(name string, n int) {
	r.mu.Lock()
	r.extra[name] += n
	r.mu.Unlock()
}

func (r *Rec) begin() {
	r.mu.Lock()
	r.curNT = false
	r.curKey = ""
	r.mu.Unlock()
}

func (r *Rec) end(c any, err error) {
	r.mu.Lock()
	defer r.mu.Unlock()
	if sk, isSkip := err.(errSkip); isSkip {
		r.discarded++
		if os.Getenv("VERIF_SHOW_SKIPS") != "" {
			fmt.Println("SKIP:", sk.why)
		}
		return
	}
	r.evals++
	if r.curNT {
		h := hash64(r.curKey)
		if _, seen := r.nt[h]; !seen {
			r.nt[h] = struct{}{}
			// keep the first few and then a thinning sample
			n := len(r.nt)
			if len(r.samples) < 4 || (n&(n-1)) == 0 && len(r.samples) < 12 {
				var b []byte
				var e error
				if d, ok := c.(interface{ Describe() string }); ok {
					b, e = json.Marshal(map[string]any{"shown": d.Describe(), "case": c})
				} else {
					b, e = json.Marshal(c)
				}
				if e == nil {
					if len(b) > 2048 {
						b, _ = json.Marshal(string(b[:2000]) + "…(truncated)")
					}
					r.samples = append(r.samples, b)
				}
			}
		}
	}
}

type fragment struct {
	Spec      string            `json:"spec"`
	Property  string            `json:"property"`
	Rule      string            `json:"rule"`
	Evals     int               `json:"evaluations"`
	Discarded int               `json:"discarded"`
	NTFile    string            `json:"nt_file"`
	NTCount   int               `json:"nt_count"`
	Classes   map[string]int    `json:"classes"`
	Extra     map[string]int    `json:"extra"`
	Samples   []json.RawMessage `json:"samples"`
	Seed      string            `json:"seed"`
	Mode      string            `json:"mode"`
}

func (r *Rec) flush(mode string) {
	r.mu.Lock()
	defer r.mu.Unlock()
	base := fmt.Sprintf("frag-%s-%s-%d", r.spec.ID, mode, os.Getpid())
	ntf := filepath.Join(outDir(), base+".nt")
	buf := make([]byte, 0, 8*len(r.nt))
	keys := make([]uint64, 0, len(r.nt))
	for h := range r.nt {
		keys = append(keys, h)
	}
	sort.Slice(keys, func(i, j int) bool { return keys[i] < keys[j] })
	for _, h := range keys {
		buf = binary.LittleEndian.AppendUint64(buf, h)
	}
	_ = os.WriteFile(ntf, buf, 0o644)
	fr := fragment{Spec: r.spec.ID, Property: r.spec.Property(), Rule: r.spec.Rule, Evals: r.evals,
		Discarded: r.discarded, NTFile: ntf, NTCount: len(r.nt), Classes: r.classes, Extra: r.extra,
		Samples: r.samples, Seed: os.Getenv("VERIF_WORKER_SEED"), Mode: mode}
	b, _ := json.MarshalIndent(fr, "", " ")
	_ = os.WriteFile(filepath.Join(outDir(), base+".json"), b, 0o644)
}

// ---------------------------------------------------------------------------
// replay files

type replayFile struct {
	Property string          `json:"property"`
	Spec     string          `json:"spec"`
	Message  string          `json:"message"`
	Case     json.RawMessage `json:"case"`
}

func writeReplay(s *propSpec, c any, msg string) string {
	cb, err := json.MarshalIndent(c, "", " ")
	if err != nil {
		cb = []byte(fmt.Sprintf("%q", fmt.Sprintf("unserialisable case: %v", err)))
	}
	if len(msg) > 6000 {
		msg = msg[:6000] + "…"
	}
	rf := replayFile{Property: s.Property(), Spec: s.ID, Message: msg, Case: cb}
	b, _ := json.MarshalIndent(rf, "", " ")
	name := fmt.Sprintf("%s-%016x.json", s.ID, hash64(string(cb)))
	p := filepath.Join(replayDir(), name)
	_ = os.WriteFile(p, b, 0o644)
	return p
}

func journal(s *propSpec, c any) {
	if !s.Journ {
		return
	}
	cb, err := json.Marshal(c)
	if err != nil {
		return
	}
	rf := replayFile{Property: s.Property(), Spec: s.ID, Message: "journalled case (process died while it ran)", Case: cb}
	b, _ := json.Marshal(rf)
	p := filepath.Join(outDir(), fmt.Sprintf("journal-%s-%s.json", s.ID, envOr("VERIF_WORKER", strconv.Itoa(os.Getpid()))))
	tmp := p + ".tmp"
	if os.WriteFile(tmp, b, 0o644) == nil {
		_ = os.Rename(tmp, p)
	}
}

// ---------------------------------------------------------------------------
// running a check with panic capture

type panicErr struct {
	val   any
	stack string
}

func (p panicErr) Error() string { return fmt.Sprintf("panic: %v\n%s", p.val, p.stack) }

func safeCheck(s *propSpec, c any, r *Rec) (err error) {
	defer func() {
		if p := recover(); p != nil {
			err = panicErr{p, string(debug.Stack())}
		}
	}()
	return s.Check(c, r)
}

func evalCase(s *propSpec, c any, r *Rec) error {
	r.begin()
	journal(s, c)
	err := safeCheck(s, c, r)
	r.end(c, err)
	if _, sk := err.(errSkip); sk {
		return nil
	}
	return err
}

// failure sink shared by rapid / enumerators / fuzz targets
type sink struct {
	spec *propSpec
	mu   sync.Mutex
	last any
	msg  string
	n    int
}

func (k *sink) fail(c any, err error) {
	k.mu.Lock()
	k.last, k.msg = c, err.Error()
	k.n++
	k.mu.Unlock()
}

func (k *sink) report() {
	k.mu.Lock()
	defer k.mu.Unlock()
	if k.last == nil {
		return
	}
	p := writeReplay(k.spec, k.last, k.msg)
	first := k.msg
	if i := strings.IndexByte(first, '\n'); i >= 0 {
		first = first[:i]
	}
	fmt.Printf("VERIF-VIOLATION property=%s spec=%s replay=%s msg=%q\n", k.spec.Property(), k.spec.ID, p, first)
}

// runProp drives one spec through rapid (case count and seed come from the
// -rapid.* flags the driver passes).
func runProp(t *testing.T, id string) {
	s := specs[id]
	if s == nil {
		t.Fatalf("no spec %s", id)
	}
	rec := newRec(s)
	k := &sink{spec: s}
	t.Cleanup(func() {
		rec.flush("rapid")
		k.report()
	})
	rapid.Check(t, func(rt *rapid.T) {
		c := s.Gen(rt)
		if err := evalCase(s, c, rec); err != nil {
			// rapid re-runs the minimal case last, so the last recorded
			// failure is the shrunk one
			k.fail(c, err)
			rt.Fatalf("%s: %v", s.ID, err)
		}
	})
}

// enumerate runs a spec over an explicit case stream (bounded exhaustive
// enumeration, sharded by VERIF_SHARD=i/n). complete=true is recorded in the
// fragment only if the stream finished.
func enumerate(t *testing.T, id, mode string, stream func(yield func(c any) bool)) {
	s := specs[id]
	rec := newRec(s)
	k := &sink{spec: s}
	shard, shards := 0, 1
	if v := os.Getenv("VERIF_SHARD"); v != "" {
		fmt.Sscanf(v, "%d/%d", &shard, &shards)
	}
	idx := 0
	failed := false
	stream(func(c any) bool {
		idx++
		if shards > 1 && idx%shards != shard {
			return true
		}
		if err := evalCase(s, c, rec); err != nil {
			k.fail(c, err)
			failed = true
			return false
		}
		return true
	})
	rec.Add("enumerated_total_index", idx)
	if !failed {
		rec.Add("enumeration_complete", 1)
	}
	rec.flush(mode)
	k.report()
	if failed {
		t.Fatalf("%s: %s", s.ID, k.msg)
	}
}

// ---------------------------------------------------------------------------
// replay entry point: VERIF_REPLAY=<file or dir> go test -run TestReplay

func TestReplay(t *testing.T) {
	target := os.Getenv("VERIF_REPLAY")
	if target == "" {
		t.Skip("VERIF_REPLAY not set")
	}
	var files []string
	if st, err := os.Stat(target); err == nil && st.IsDir() {
		ms, _ := filepath.Glob(filepath.Join(target, "*.json"))
		sort.Strings(ms)
		files = ms
	} else {
		files = []string{target}
	}
	recs := map[string]*Rec{}
	bad := 0
	for _, f := range files {
		b, err := os.ReadFile(f)
		if err != nil {
			t.Fatalf("read %s: %v", f, err)
		}
		var rf replayFile
		if err := json.Unmarshal(b, &rf); err != nil {
			t.Fatalf("decode %s: %v", f, err)
		}
		s := specs[rf.Spec]
		if s == nil {
			t.Fatalf("%s: unknown spec %q", f, rf.Spec)
		}
		c := s.New()
		if err := json.Unmarshal(rf.Case, c); err != nil {
			t.Fatalf("%s: decode case: %v", f, err)
		}
		rec := recs[s.ID]
		if rec == nil {
			rec = newRec(s)
			recs[s.ID] = rec
		}
		if err := evalCase(s, c, rec); err != nil {
			bad++
			first := err.Error()
			if i := strings.IndexByte(first, '\n'); i >= 0 {
				first = first[:i]
			}
			fmt.Printf("VERIF-VIOLATION property=%s spec=%s replay=%s msg=%q\n", s.Property(), s.ID, f, first)
			if os.Getenv("VERIF_VERBOSE") != "" {
				fmt.Println(err.Error())
			}
		} else {
			fmt.Printf("VERIF-REPLAY-OK spec=%s file=%s\n", s.ID, f)
		}
	}
	for _, rec := range recs {
		rec.flush("replay")
	}
	if bad > 0 {
		t.Fatalf("%d replay file(s) violate their property", bad)
	}
}

// ---------------------------------------------------------------------------
// small helpers shared by generators

func drawBool(t *rapid.T, label string) bool { return rapid.Bool().Draw(t, label) }

func drawInt(t *rapid.T, lo, hi int, label string) int { return rapid.IntRange(lo, hi).Draw(t, label) }

func pick[T any](t *rapid.T, label string, xs []T) T {
	return xs[rapid.IntRange(0, len(xs)-1).Draw(t, label)]
}

// weighted pick: weights parallel to xs
func pickW[T any](t *rapid.T, label string, xs []T, ws []int) T {
	total := 0
	for _, w := range ws {
		total += w
	}
	n := rapid.IntRange(0, total-1).Draw(t, label)
	for i, w := range ws {
		if n < w {
			return xs[i]
		}
		n -= w
	}
	return xs[len(xs)-1]
}

func quoteShort(s string) string {
	if len(s) > 300 {
		return fmt.Sprintf("%q…(%d bytes)", s[:300], len(s))
	}
	return fmt.Sprintf("%q", s)
}

func runtimeStack(buf []byte) int { return runtime.Stack(buf, false) }

func globFiles(pattern string) ([]string, error) { return filepath.Glob(pattern) }
