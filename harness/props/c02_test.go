package props

// C02: autoescape non-interference — context strings never reach the output unescaped.

import (
	"errors"
	"fmt"
	"regexp"
	"strings"
	"testing"

	"github.com/flosch/pongo2/v6"
	"pgregory.net/rapid"
)

// every string that originates in the context is a taint marker: unique id + all five specials
func taint(id string) string { return "T" + id + `<>&'"` }

type c02Obj struct {
	Name  string
	Count int
	Tags  []string
	Any   any
}

func (o c02Obj) Greeting() string      { return taint("greeting") }
func (o c02Obj) Hello(s string) string { return taint("hello") + s }

type c02StructStr struct{ id string }

func (s c02StructStr) String() string { return taint(s.id) }

type c02IntStr int

func (i c02IntStr) String() string { return taint(fmt.Sprintf("int%d", int(i))) }

type c02PtrStr struct{ id string }

func (s *c02PtrStr) String() string { return taint(s.id) }

type c02Named string // a defined string type (not the exact type string)

// taintContext mirrors progContext's names; every string leaf is tainted.
func taintContext(variant int) pongo2.Context {
	nameP := taint("pname")
	return pongo2.Context{
		"name":  taint("name"),
		"n":     []int{3, 0, 7, -2}[variant%4],
		"zero":  0,
		"flag":  variant%2 == 0,
		"ratio": 2.5,
		// URL- and mail-shaped text, so that urlize / urlizetrunc take their link-building paths
		"title":     taint("title") + " two words http://example.com/a?b=1&c=" + taint("url") + " www.example.org/x admin@example.com",
		"empty":     "",
		"html":      taint("html"),
		"obj":       c02Obj{Name: taint("objname"), Count: variant, Tags: []string{taint("tag1"), taint("tag2")}, Any: taint("objany")},
		"pobj":      &c02Obj{Name: taint("pobjname")},
		"m":         map[string]any{"a": taint("ma"), "b": taint("mb"), "c": []string{taint("mc")}, taint("key"): taint("mkeyval")},
		"counts":    map[string]int{taint("ck1"): 1, taint("ck2"): 2},
		"items":     []string{taint("i0"), taint("i1"), taint("i2")},
		"words":     []string{taint("w0"), taint("w1")},
		"nums":      []int{1, 2, 3},
		"emptylist": []int{},
		"pairs":     []any{1, taint("pair"), 3.5, nil, c02StructStr{"pairstr"}},
		"nested":    map[string]any{"inner": map[string]any{"x": taint("deep")}},
		"incname":   "/lazy.tpl",
		"kidname":   "/kid.tpl",
		"greet":     func(s string) string { return taint("greet") + s },
		"twice":     func(i int) int { return 2 * i },
		"sum":       func(xs ...int) int { return len(xs) },
		"valfn":     func(v *pongo2.Value) *pongo2.Value { return pongo2.AsValue(taint("valfn") + v.String()) },
		"ctxjoin":   func(ctx *pongo2.ExecutionContext, a, b string, n int) string { return a + b + taint("ctxjoin") },
		"fails": func(i int) (string, error) {
			if i == 0 {
				return "", errors.New(taint("err"))
			}
			return taint("fails"), nil
		},
		"tick":      func() (string, error) { return taint("tick"), nil },
		"when":      zTime,
		"st_struct": c02StructStr{"ststruct"},
		"st_int":    c02IntStr(7),
		"st_ptr":    &c02PtrStr{"stptr"},
		"named":     c02Named(taint("named")),
		"pstr":      &nameP,
		"bytes":     []byte(taint("bytes")),
		"err":       errors.New(taint("errval")),
		"strmap":    map[string]string{"k": taint("strmapv")},
	}
}

var c02Entity = regexp.MustCompile(`(?i)&(amp|lt|gt|quot|#39);`)
var c02TypeRendering = regexp.MustCompile(`(?i)<[^<>&'"]* Value>`)

// c02Leak returns the first raw special character that survives in the output.
func c02Leak(out string) (int, bool) {
	clean := c02TypeRendering.ReplaceAllStringFunc(out, func(m string) string { return strings.Repeat("_", len(m)) })
	clean = c02Entity.ReplaceAllStringFunc(clean, func(m string) string { return strings.Repeat("_", len(m)) })
	if i := strings.IndexAny(clean, `<>&'"`); i >= 0 {
		return i, true
	}
	return 0, false
}

type c02Case struct {
	Prog    *Program `json:"prog"`
	Variant int      `json:"variant"`
}

var c02TaintNames = []string{"st_struct", "st_int", "st_ptr", "named", "pstr", "obj.Any", "obj.Tags.0", "pairs.1", "pairs.4", "strmap.k", "obj.Greeting", "err", "bytes", "pobj.Name"}

func checkC02(c any, r *Rec) error {
	cs := c.(*c02Case)
	_, tpl, _, err := compileProgram(cs.Prog, false, false)
	if err != nil {
		return skipf("does not compile: %v", err)
	}
	out, xerr := tpl.Execute(taintContext(cs.Variant))
	src := cs.Prog.Files[cs.Prog.Entry]
	if xerr != nil {
		// nothing was rendered; the error text is not template output
		r.Class("execution-error")
		return nil
	}
	if i, leaked := c02Leak(out); leaked {
		lo, hi := i-40, i+40
		if lo < 0 {
			lo = 0
		}
		if hi > len(out) {
			hi = len(out)
		}
		return fmt.Errorf("a raw %q reached the output although autoescape is on and the template has no opt-out\n output around it: %q\n root=%q\n other files=%v", out[i], out[lo:hi], src, c02OtherFiles(cs.Prog))
	}
	if c02Entity.MatchString(out) {
		r.NonTrivial(fmt.Sprintf("%v|%d", cs.Prog.Files, cs.Variant))
	}
	return nil
}

func c02OtherFiles(p *Program) map[string]string {
	out := map[string]string{}
	fixed := progFixedFiles()
	for k, v := range p.Files {
		if _, isFixed := fixed[k]; !isFixed && k != p.Entry {
			out[k] = v
		}
	}
	return out
}

var _ = register(&propSpec{
	ID:   "C02.program",
	Rule: "opt-out-free generated programs over the whole tag / filter / operator vocabulary (every registered filter through the registry hook except safe, truncatechars_html, truncatewords_html; no autoescape off; array literals, for over literals / strings / maps / slices, set / with, macro arguments, defaults and bodies, imported macros, include with / only / lazy, ssi parsed, filter tag, firstof, cycle, ifchanged, widthratio as, extends + block.Super); template text and literals contain none of < > & ' \"; every string leaf of the context (map values and keys, slice items, struct fields, []any items, function / method / (T,error) results, Stringers on struct, int and pointer receivers, defined string types, *string, []byte, error values) is a marker Tnn<>&'\". Oracle: after deleting the five entities and the engine's '<type Value>' renderings the output contains none of the five characters. Non-trivial: an escaped marker character reached the output.",
	Gen: func(t *rapid.T) any {
		o := progOpts{taint: true, allFilters: true, includes: true, inherit: true, stateful: true, maxDepth: 4, maxNodes: 30}
		pr := genProgramWith(t, o, c02TaintNames)
		return &c02Case{Prog: pr, Variant: drawInt(t, 0, 7, "variant")}
	},
	New:   func() any { return &c02Case{} },
	Check: checkC02,
})

func TestC02Program(t *testing.T) { runProp(t, "C02.program") }

// ---- every registered filter applied once to a tainted value -------------------------

type c02F struct {
	Filter string `json:"filter"`
	Form   string `json:"form"`
	Input  string `json:"input"` // context name of the tainted input
}

var c02Forms = []string{"{{ IN|F }}", "{{ IN|F:name }}", "{{ 1|F:name }}", "{{ IN|F:2 }}", "{% for q in IN|F %}{{ q }}{% endfor %}", "{% with w=IN|F %}{{ w }}{% endwith %}",
	"{% firstof IN|F %}", "{{ IN|F|F }}", "{{ [IN]|F }}", "{% for q in [IN, name]|F %}{{ q }}{% endfor %}", "{% set w = [IN]|F %}{{ w.0 }}{{ w }}", "{% cycle IN|F name %}",
	"{% macro mm(a) %}{{ a }}{% endmacro %}{{ mm(IN|F) }}", "{{ IN|F:\"x\"|F:name }}",
	// a harmless input of every other kind with a tainted parameter (a layout, a separator, a default ...)
	"{{ when|F:name }}", "{{ n|F:name }}", "{{ ratio|F:name }}", "{{ nums|F:name }}", "{{ flag|F:name }}", "{{ nothing|F:name }}"}

var c02Inputs = []string{"name", "st_struct", "st_int", "st_ptr", "items", "m", "pairs", "named", "pstr", "obj", "title", "err", "bytes"}

func checkC02F(c any, r *Rec) error {
	cs := c.(*c02F)
	if progOptOutFilters[cs.Filter] {
		return skipf("documented opt-out")
	}
	src := strings.ReplaceAll(strings.ReplaceAll(cs.Form, "IN", cs.Input), "F", cs.Filter)
	tpl, err := pongo2.NewSet("c02f", &memLoader{}).FromString(src)
	if err != nil {
		return skipf("does not compile: %v", err)
	}
	out, xerr := tpl.Execute(taintContext(0))
	if xerr != nil {
		r.Class("execution-error")
		return nil
	}
	if i, leaked := c02Leak(out); leaked {
		return fmt.Errorf("%s: a raw %q reached the output: %q", src, out[i], out)
	}
	r.Class("filter:" + cs.Filter)
	if c02Entity.MatchString(out) {
		r.NonTrivial(src)
	}
	return nil
}

var _ = register(&propSpec{
	ID:   "C02.filter",
	Rule: "every registered filter (registry hook; the three documented opt-outs skipped) applied to each of 13 tainted inputs (string, Stringers on struct / int / pointer, list, map, []any, defined string type, *string, struct, error, []byte) in 20 forms (printed, with tainted parameter, a time / number / list / bool / nil input with a tainted parameter, as parameter of a literal, iterated, bound by with / set, firstof, twice, inside an array literal, indexed after set, cycle, macro argument). Exhaustive over filter x input x form. Same oracle as C02.program.",
	Gen: func(t *rapid.T) any {
		return &c02F{Filter: pick(t, "f", pongo2.VerifRegisteredFilters()), Form: pick(t, "form", c02Forms), Input: pick(t, "in", c02Inputs)}
	},
	New:   func() any { return &c02F{} },
	Check: checkC02F,
})

func TestC02Filter(t *testing.T) { runProp(t, "C02.filter") }

func TestC02FilterEnum(t *testing.T) {
	enumerate(t, "C02.filter", "enum", func(yield func(any) bool) {
		for _, f := range pongo2.VerifRegisteredFilters() {
			for _, form := range c02Forms {
				for _, in := range c02Inputs {
					if !yield(&c02F{Filter: f, Form: form, Input: in}) {
						return
					}
				}
			}
		}
	})
}

// ---- partial opt-outs: an opt-out covers what it is written on, nothing else --------------

type c02P struct {
	Form  string `json:"form"`
	Input string `json:"input"` // tainted expression
	Safe  string `json:"safe"`  // the harmless part that carries the opt-out
}

// IN: a tainted expression, SF: a harmless value marked safe (a literal with |safe, a macro result,
// a value Go code marked safe). What is printed from IN must be escaped in every form.
var c02PartialForms = []string{
	"{{ SF + IN }}", "{{ IN + SF }}", "{{ SF + IN + SF }}", "{{ (SF) + IN }}", "{{ IN + (SF + IN) }}",
	"{% for it in [SF, IN] %}{{ it }}{% endfor %}", "{% set row = [SF, IN] %}{{ row.0 }}{{ row.1 }}", "{% with cells=[IN, SF] %}{{ cells.0 }}{{ cells.1 }}{% endwith %}",
	"{% with a=SF b=IN %}{{ a }}{{ b }}{% endwith %}", "{% set a = SF %}{{ a + IN }}{{ a }}", "{% firstof SF IN %}{% firstof zero IN %}", "{% firstof empty|safe IN %}",
	"{% macro pm(a, b) %}{{ a }}{{ b }}{% endmacro %}{{ pm(SF, IN) }}", "{% macro pd(a, b=IN) %}{{ a }}{{ b }}{% endmacro %}{{ pd(SF) }}",
	"{% if SF %}{{ IN }}{% endif %}", "{% with sep=SF %}{{ items|join:sep }}{{ IN|add:sep }}{% endwith %}", "{% with sv=SF %}{{ IN|default:sv }}{{ empty|default:IN }}{{ sv|default:IN }}{% endwith %}",
	"{% filter upper %}{{ SF }}{{ IN }}{% endfilter %}", "{% for q in nums %}{% cycle SF IN %}{% endfor %}", "{{ IN in SF }}{{ SF in IN }}",
	`{% include "/pp.tpl" with a=SF b=IN %}`, "{% for it in items %}{{ SF + it }}{% endfor %}", "{% with sv=SF %}{{ sv|add:IN }}{% endwith %}", "{% with sv=SF %}{{ IN|add:sv }}{% endwith %}", "{% with w=SF + IN %}{{ w }}{% endwith %}",
	"{% ifequal SF IN %}x{% else %}{{ IN }}{% endifequal %}", "{{ SF }}{{ IN }}", "{% set a = SF %}{% set a = IN %}{{ a }}",
}

var c02PartialInputs = []string{"name", "items.0", "obj.Name", "st_struct", "m.a", `greet("z")`, "named", "pstr", "title"}

var c02PartialSafes = []string{`"lit"|safe`, `"lit"|safe|upper`, "sm()", "gosafe", `(7|safe)`, "gosafe|lower"}

func checkC02P(c any, r *Rec) error {
	cs := c.(*c02P)
	src := strings.ReplaceAll(strings.ReplaceAll(cs.Form, "IN", cs.Input), "SF", cs.Safe)
	src = "{% macro sm() %}mac{% endmacro %}" + src
	set := pongo2.NewSet("c02p", newMemLoader(map[string]string{"/pp.tpl": "{{ a }}{{ b }}"}))
	tpl, err := set.FromString(src)
	if err != nil {
		return skipf("does not compile: %v", err)
	}
	ctx := taintContext(0)
	ctx["gosafe"] = pongo2.AsSafeValue("goSafe")
	out, xerr := tpl.Execute(ctx)
	if xerr != nil {
		r.Class("execution-error")
		return nil
	}
	if i, leaked := c02Leak(out); leaked {
		return fmt.Errorf("%s: an opt-out written on a harmless part let a raw %q of the context text through: %q", src, out[i], out)
	}
	if c02Entity.MatchString(out) {
		r.NonTrivial(src)
	}
	return nil
}

func c02PartialAll(yield func(any) bool) {
	for _, form := range c02PartialForms {
		for _, in := range c02PartialInputs {
			for _, sf := range c02PartialSafes {
				if !yield(&c02P{Form: form, Input: in, Safe: sf}) {
					return
				}
			}
		}
	}
}

var _ = register(&propSpec{
	ID:   "C02.partial",
	Rule: "an opt-out covers only what it is written on: 28 forms in which a harmless value marked safe (a literal with |safe, also filtered further, a macro result, a value Go code marked safe) stands next to a tainted expression (9 kinds: string, slice item, struct field, Stringer, map value, function result, defined string type, *string, long text) - operands of +, items of one array literal, pairs of one with, arguments / defaults of one macro call, firstof, cycle, default, add, join separator, in, ifequal, filter tag body, include with, re-assignment. Exhaustive over form x input x safe part (1512 templates). Oracle as C02.program: no raw < > & ' \" in the output.",
	Gen: func(t *rapid.T) any {
		return &c02P{Form: pick(t, "form", c02PartialForms), Input: pick(t, "in", c02PartialInputs), Safe: pick(t, "sf", c02PartialSafes)}
	},
	New:   func() any { return &c02P{} },
	Check: checkC02P,
})

func TestC02PartialEnum(t *testing.T) { enumerate(t, "C02.partial", "enum", c02PartialAll) }

// ---- the process-wide default: SetAutoescape --------------------------------------------------
// (runs in a process of its own: it flips a package-level switch)

func TestC02SetAutoescape(t *testing.T) {
	fail := func(format string, a ...any) {
		msg := fmt.Sprintf(format, a...)
		fmt.Printf("VERIF-VIOLATION property=C02 spec=C02.program replay=- msg=%q\n", msg)
		t.Fatal(msg)
	}
	set := pongo2.NewSet("c02global", newMemLoader(map[string]string{"/inc.tpl": "{{ name }}"}))
	srcs := []string{"{{ name }}", "{% for i in items %}{{ i }}{% endfor %}", `{% include "/inc.tpl" %}`, "{% macro m(a) %}{{ a }}{% endmacro %}{{ m(name) }}", "{{ name|upper }}", "{% with w=obj.Name %}{{ w }}{% endwith %}"}
	render := func(when string, wrapOn bool, compiled []*pongo2.Template) []*pongo2.Template {
		var out []*pongo2.Template
		for i, src := range srcs {
			if wrapOn {
				if strings.Contains(src, "include") {
					// an included template starts from the process-wide default, not from the state of
					// the region the include tag stands in (either way round); not a statement of C02
					continue
				}
				src = "{% autoescape on %}" + src + "{% endautoescape %}"
			}
			tpl, err := set.FromString(src)
			if err != nil {
				t.Fatal(err)
			}
			for len(out) < i {
				out = append(out, nil)
			}
			out = append(out, tpl)
			for _, tp := range []*pongo2.Template{tpl, pick2(compiled, i)} {
				if tp == nil {
					continue
				}
				o, xerr := tp.Execute(taintContext(0))
				if xerr != nil {
					t.Fatal(xerr)
				}
				if at, leaked := c02Leak(o); leaked {
					fail("%s: %q rendered a raw %q: %q", when, src, o[at], o)
				}
			}
		}
		return out
	}
	first := render("default", false, nil)
	pongo2.SetAutoescape(false)
	// an explicit autoescape-on region escapes whatever the process-wide default is
	render("SetAutoescape(false), inside {% autoescape on %}", true, nil)
	whileOff := make([]*pongo2.Template, len(srcs))
	for i, src := range srcs {
		whileOff[i], _ = set.FromString(src)
	}
	pongo2.SetAutoescape(true)
	// back on: for new templates, for templates compiled before, and for those compiled while it was off
	render("after SetAutoescape(true) again", false, first)
	render("after SetAutoescape(true) again (templates compiled while it was off)", false, whileOff)
}

func pick2(xs []*pongo2.Template, i int) *pongo2.Template {
	if i < len(xs) {
		return xs[i]
	}
	return nil
}
