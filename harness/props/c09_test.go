package props

// C09: branching and looping tags follow their reference semantics.

import (
	"fmt"
	"strings"
	"testing"

	"github.com/flosch/pongo2/v6"

	"pgregory.net/rapid"
)

type c09Case struct {
	Root []MNode `json:"root"`
	Ctx  Val     `json:"ctx"`
	// a second context: the same compiled template is rendered with Ctx, Ctx2 and Ctx again, and
	// every rendering must agree with the reference ("within one fresh render": nothing survives)
	Ctx2 *Val `json:"ctx2,omitempty"`
}

type c09Gen struct {
	t       *rapid.T
	ids     int
	loopVar []string // loop variables in scope
	inLoop  int
	// own: number of enclosing loops whose forloop is unambiguous at this point. Inside an
	// {% empty %} branch there is no current position: Django renders it outside the loop,
	// pongo2 inside a zeroed forloop - the property does not choose, so nothing is probed there
	// and loops nested in the branch do not look further up than themselves.
	own int
}

var c09Scalars = []string{"i0", "i1", "i5", "s0", "sx", "su", "t", "f", "nothing", "half", "fzero", "nhalf"}

func (g *c09Gen) scalar() ME {
	switch drawInt(g.t, 0, 5, "sk") {
	case 0:
		return ME{K: "int", I: drawInt(g.t, 0, 6, "il")}
	case 1:
		return ME{K: "str", S: pick(g.t, "sl", []string{"", "x", "é<", "ab"})}
	case 2:
		if len(g.loopVar) > 0 {
			return ME{K: "name", N: pick(g.t, "lv", g.loopVar)}
		}
		fallthrough
	default:
		return ME{K: "name", N: pick(g.t, "sn", c09Scalars)}
	}
}

func (g *c09Gen) arr() ME {
	e := ME{K: "arr"}
	for j := drawInt(g.t, 0, 3, "narr"); j > 0; j-- {
		if g.own > 0 && drawInt(g.t, 0, 3, "lf") == 0 {
			// the position in the loop the literal stands in
			e.Args = append(e.Args, ME{K: "loopfield", S: pick(g.t, "lff", []string{"Counter", "Counter0", "Revcounter", "Last"})})
			continue
		}
		e.Args = append(e.Args, g.scalar())
	}
	return e
}

func (g *c09Gen) cond() ME {
	switch drawInt(g.t, 0, 7, "ck") {
	case 7:
		// an ordering of two integers, the extremes of int64 among them
		ints := func() ME {
			if drawBool(g.t, "ilit") {
				return ME{K: "int", I: drawInt(g.t, 0, 6, "il2")}
			}
			return ME{K: "name", N: pick(g.t, "iname", []string{"i0", "i1", "i5", "imin", "imax", "imin", "imax"})}
		}
		l, r := ints(), ints()
		return ME{K: "lt", L: &l, R: &r}
	case 6:
		l, r := g.scalar(), g.arr()
		return ME{K: "in", L: &l, R: &r}
	case 0:
		l, r := g.scalar(), g.scalar()
		return ME{K: pick(g.t, "cmp", []string{"eq", "ne"}), L: &l, R: &r}
	case 1:
		x := g.scalar()
		return ME{K: "not", L: &x}
	case 2:
		return ME{K: "name", N: pick(g.t, "cl", []string{"l0", "l3", "sl", "m2", "e0"})}
	default:
		return g.scalar()
	}
}

func (g *c09Gen) marker() MNode {
	return MNode{K: "text", Text: pick(g.t, "mk", []string{"A", "B", "c", "d", "|", ","})}
}

func (g *c09Gen) leaf() MNode {
	if drawBool(g.t, "leafprobe") {
		e := g.scalar()
		return MNode{K: "probe", E: &e}
	}
	return g.marker()
}

func (g *c09Gen) body(depth int) []MNode {
	n := drawInt(g.t, 0, 3, "bn")
	out := []MNode{g.leaf()}
	for i := 0; i < n; i++ {
		out = append(out, g.node(depth))
	}
	return out
}

func (g *c09Gen) node(depth int) MNode {
	kinds := []string{"leaf", "if", "ifequal", "firstof", "for", "for", "cycle", "ifchanged", "loopprobe"}
	k := pick(g.t, "k", kinds)
	if depth <= 0 && (k == "if" || k == "ifequal" || k == "for" || k == "ifchanged") {
		k = "leaf"
	}
	switch k {
	case "if":
		c := g.cond()
		nd := MNode{K: "if", E: &c, Body: g.body(depth - 1)}
		for j := drawInt(g.t, 0, 2, "nelif"); j > 0; j-- {
			nd.Elifs = append(nd.Elifs, MElif{Cond: g.cond(), Body: g.body(depth - 1)})
		}
		if drawBool(g.t, "else") {
			nd.HasAlt, nd.Alt = true, g.body(depth-1)
		}
		return nd
	case "ifequal":
		a, b := g.scalar(), g.scalar()
		nd := MNode{K: pick(g.t, "ieq", []string{"ifequal", "ifnotequal"}), E: &a, E2: &b, Body: g.body(depth - 1)}
		if drawBool(g.t, "else") {
			nd.HasAlt, nd.Alt = true, g.body(depth-1)
		}
		return nd
	case "firstof":
		nd := MNode{K: "firstof"}
		for j := drawInt(g.t, 1, 4, "nfo"); j > 0; j-- {
			nd.Es = append(nd.Es, g.scalar())
		}
		return nd
	case "for":
		g.ids++
		v := fmt.Sprintf("v%d", g.ids)
		src := pick(g.t, "src", []string{"l0", "l1", "l3", "l6", "sl", "e0", "su", "sx", "m2", "m0", "nothing", "i5", "fl", "mi", "hl", "hm", "al", "asl", "ma", "zstr"})
		e := ME{K: "name", N: src}
		nd := MNode{K: "for", Name: v, E: &e, Rev: drawInt(g.t, 0, 2, "rev") == 0, Sorted: drawInt(g.t, 0, 2, "sorted") == 0}
		if drawInt(g.t, 0, 4, "arrlit") == 0 {
			// a sequence written in the template; its items may name the variables of the loops around it
			e, src = g.arr(), ""
		}
		vars := []string{v}
		if src == "m2" || src == "m0" || src == "mi" || src == "hm" || src == "ma" {
			nd.Sorted = true // maps only in sorted order (unsorted order is Go's)
			if drawBool(g.t, "kv") {
				nd.Name2 = v + "v"
				vars = append(vars, nd.Name2)
			}
		}
		saved := g.loopVar
		g.loopVar = append(append([]string{}, g.loopVar...), vars...)
		g.inLoop++
		g.own++
		nd.Body = g.body(depth - 1)
		nd.Body = append(nd.Body, MNode{K: "loopprobe", Field: g.loopField()})
		g.own--
		g.inLoop--
		g.loopVar = saved
		if drawBool(g.t, "empty") {
			nd.HasAlt = true
			savedOwn := g.own
			g.own = 0
			nd.Alt = g.body(depth - 1)
			g.own = savedOwn
		}
		return nd
	case "cycle":
		g.ids++
		nd := MNode{K: "cycle", ID: g.ids}
		for j := drawInt(g.t, 1, 3, "ncy"); j > 0; j-- {
			nd.Es = append(nd.Es, g.scalar())
		}
		if drawInt(g.t, 0, 3, "as") == 0 {
			nd.Name = fmt.Sprintf("cy%d", g.ids)
			nd.Silent = drawBool(g.t, "silent")
		}
		return nd
	case "ifchanged":
		// only directly inside a loop that runs once per render (see DESIGN.md C09)
		if g.inLoop != 1 {
			return g.leaf()
		}
		g.ids++
		nd := MNode{K: "ifchanged", ID: g.ids}
		if drawBool(g.t, "watch") {
			for j := drawInt(g.t, 1, 2, "nw"); j > 0; j-- {
				nd.Es = append(nd.Es, g.scalar())
			}
			if drawBool(g.t, "icelse") {
				nd.HasAlt, nd.Alt = true, []MNode{g.marker()}
			}
		}
		nd.Body = []MNode{g.leaf(), g.leaf()}
		return nd
	case "loopprobe":
		if g.own == 0 {
			return g.leaf()
		}
		return MNode{K: "loopprobe", Field: g.loopField()}
	}
	return g.leaf()
}

func (g *c09Gen) loopField() string {
	f := pick(g.t, "lf", []string{"Counter", "Counter0", "Revcounter", "Revcounter0", "First", "Last"})
	maxParents := g.own - 1
	if maxParents > 2 {
		maxParents = 2
	}
	if maxParents < 0 {
		maxParents = 0
	}
	for j := drawInt(g.t, 0, maxParents, "parents"); j > 0; j-- {
		f = "Parentloop." + f
	}
	return f
}

func c09Ctx(t *rapid.T) Val {
	pickInts := func(l string, n int) Val {
		v := Val{K: "ints"}
		for i := 0; i < n; i++ {
			// (values on both sides of 10 and of 0: numeric order differs from the order of their texts)
			v.E = append(v.E, vInt(pick(t, l, []int{0, 1, 2, 3, 4, 9, 10, 11, 100, -1, -10})))
		}
		return v
	}
	return ctxVal(
		"half", vF64(0.5), "fzero", vF64(0), "nhalf", vF64(-0.25),
		"i0", vInt(0), "i1", vInt(1), "i5", vInt(5), "s0", vStr(""), "sx", vStr("x"), "su", vStr("héé→a"), "t", vBool(true), "f", vBool(false), "nothing", vNil(),
		"l0", vInts(), "l1", pickInts("l1", 1), "l3", pickInts("l3", 3), "l6", pickInts("l6", drawInt(t, 4, 6, "n6")),
		"sl", vStrs("b", "a", "b", "é"), "e0", vStrs(),
		"m2", Val{K: "mapSI", Ks: []Val{vStr("kb"), vStr("ka"), vStr("kc")}, E: []Val{vInt(2), vInt(1), vInt(3)}},
		"m0", Val{K: "mapSI"},
		"fl", Val{K: "f64s", E: []Val{vF64(2.5), vF64(10), vF64(-1.5), vF64(2.25), vF64(100)}},
		// neighbours above 2^53: ids, nanosecond timestamps - integers that float64 cannot tell apart
		"hl", Val{K: "ints", E: []Val{vIntK("int", 9007199254740995), vIntK("int", 9007199254740993), vIntK("int", 9007199254740994), vInt(7), vIntK("int", 9007199254740992)}},
		"hm", Val{K: "mapIS", Ks: []Val{vIntK("int", 9007199254740993), vIntK("int", 9007199254740992), vIntK("int", 9007199254740994)}, E: []Val{vStr("b"), vStr("a"), vStr("c")}},
		// lists of type []any (what JSON decoding and template array literals give)
		"al", Val{K: "anys", E: []Val{vInt(10), vInt(9), vInt(-1), vInt(100), vInt(2)}}, "asl", Val{K: "anys", E: []Val{vStr("b"), vStr("a"), vStr("c")}},
		"imin", vIntK("int", -9223372036854775808), "imax", vIntK("int", 9223372036854775807),
		// a named string type that prints differently (fmt.Stringer): a loop walks the string itself
		"zstr", Val{K: "strStr", S: "héa"},
		"ma", Val{K: "mapAA", Ks: []Val{vInt(10), vInt(9), vInt(-1), vInt(100), vInt(2)}, E: []Val{vStr("ten"), vStr("nine"), vStr("minus"), vStr("hundred"), vStr("two")}},
		"mi", Val{K: "mapIS", Ks: []Val{vInt(10), vInt(9), vInt(-1), vInt(100), vInt(2)}, E: []Val{vStr("ten"), vStr("nine"), vStr("minus"), vStr("hundred"), vStr("two")}},
	)
}

func checkC09(c any, r *Rec) error {
	cs := c.(*c09Case)
	empty := Val{K: "mapSA"}
	want, werr := mmReference(cs.Root, nil, empty, cs.Ctx)
	got, gerr, _, _ := mmEngine(cs.Root, nil, empty, cs.Ctx)
	src := mmSrc(cs.Root)
	if werr != nil && strings.HasPrefix(werr.msg, "opaque:") {
		return skipf("%s", werr.msg)
	}
	if werr != nil {
		return fmt.Errorf("reference interpreter failed: %s", werr.msg)
	}
	if gerr != nil {
		return fmt.Errorf("unexpected error %v\n src=%q\n want=%q", gerr, src, want)
	}
	if got != want {
		return fmt.Errorf("control flow differs from the reference interpreter\n got  %q\n want %q\n src=%q\n ctx=%s", got, want, src, descVal(cs.Ctx))
	}
	if cs.Ctx2 != nil {
		ctxs := []Val{cs.Ctx, *cs.Ctx2, cs.Ctx}
		outs, errs, cerr := mmEngineSeq(cs.Root, nil, empty, ctxs)
		if cerr != nil {
			return fmt.Errorf("second compilation fails: %v", cerr)
		}
		for i, c := range ctxs {
			w, we := mmReference(cs.Root, nil, empty, c)
			if we != nil {
				break
			}
			if errs[i] != nil || outs[i] != w {
				return fmt.Errorf("rendering %d of one compiled template (contexts A, B, A) differs from the reference\n got  %q (err %v)\n want %q\n src=%q\n ctx=%s", i+1, outs[i], errs[i], w, src, descVal(c))
			}
		}
		r.Class("three-renderings")
	}
	for _, tag := range []string{"{% if", "{% elif", "{% ifequal", "{% ifnotequal", "{% firstof", "{% for", "{% empty", "{% cycle", "{% ifchanged", "reversed", "sorted", "Parentloop"} {
		if strings.Contains(src, tag) {
			r.Class(strings.TrimPrefix(tag, "{% "))
		}
	}
	depth := 0
	var walk func(ns []MNode, d int)
	walk = func(ns []MNode, d int) {
		for i := range ns {
			n := &ns[i]
			if n.K == "if" || n.K == "for" || n.K == "ifequal" || n.K == "ifnotequal" || n.K == "ifchanged" {
				if d+1 > depth {
					depth = d + 1
				}
				walk(n.Body, d+1)
				walk(n.Alt, d+1)
				for _, el := range n.Elifs {
					walk(el.Body, d+1)
				}
			}
		}
	}
	walk(cs.Root, 0)
	if depth >= 2 || strings.Contains(src, "reversed") || strings.Contains(src, "sorted") || strings.Contains(src, "{% empty") {
		r.NonTrivial(src + descVal(cs.Ctx))
	}
	return nil
}

var _ = register(&propSpec{
	ID:   "C09.flow",
	Rule: "nestings (depth <= 4) of if/elif*/else, ifequal/ifnotequal(+else), firstof, for (+empty, reversed, sorted, k,v over sorted maps), cycle (plain, as, silent) and ifchanged (with/without watched expressions, +else; only directly in a loop that runs once per render); bodies are markers, outputs of loop variables and every forloop field incl. Parentloop chains (not across an empty branch, where the property does not say what the current position is); data: int lists of length 0..6 with random contents, string lists, multi-byte strings, maps (string, int and any keys), lists of type []any, integers beyond 2^53 that float64 cannot tell apart, sequences written as array literals whose items name the variables of enclosing loops (also as the right side of in), nil, scalars (not iterable). Each case rendered once on a fresh compile and compared with a reference interpreter of the tree. Non-trivial: depth >= 2 or a for with modifier / empty; distinct by source+data.",
	Gen: func(t *rapid.T) any {
		g := &c09Gen{t: t}
		var root []MNode
		for i := drawInt(t, 1, 4, "nroot"); i > 0; i-- {
			root = append(root, g.node(4))
		}
		cs := &c09Case{Root: root, Ctx: c09Ctx(t)}
		if drawBool(t, "second") {
			c2 := c09Ctx(t)
			cs.Ctx2 = &c2
		}
		return cs
	},
	New:   func() any { return &c09Case{} },
	Check: checkC09,
})

func TestC09Flow(t *testing.T) { runProp(t, "C09.flow") }

// ---- ifequal / ifnotequal are complementary, whatever the operands -------------------------

type c09Compl struct {
	A   ME  `json:"a"`
	B   ME  `json:"b"`
	Ctx Val `json:"ctx"`
}

func checkC09Compl(c any, r *Rec) error {
	cs := c.(*c09Compl)
	root := []MNode{
		{K: "ifequal", E: &cs.A, E2: &cs.B, Body: []MNode{{K: "text", Text: "E"}}},
		{K: "ifnotequal", E: &cs.A, E2: &cs.B, Body: []MNode{{K: "text", Text: "N"}}},
		{K: "text", Text: "|"},
		{K: "ifequal", E: &cs.A, E2: &cs.B, Body: []MNode{{K: "text", Text: "e"}}, HasAlt: true, Alt: []MNode{{K: "text", Text: "n"}}},
		{K: "ifnotequal", E: &cs.A, E2: &cs.B, Body: []MNode{{K: "text", Text: "n"}}, HasAlt: true, Alt: []MNode{{K: "text", Text: "e"}}},
	}
	got, err, _, _ := mmEngine(root, nil, Val{K: "mapSA"}, cs.Ctx)
	if err != nil {
		return fmt.Errorf("%s: %v", mmSrc(root), err)
	}
	if got != "E|ee" && got != "N|nn" {
		return fmt.Errorf("ifequal / ifnotequal are not complementary on (%s, %s): %q rendered %q (want E|ee or N|nn)", cs.A.Src(), cs.B.Src(), mmSrc(root), got)
	}
	r.NonTrivial(mmSrc(root))
	return nil
}

var _ = register(&propSpec{
	ID:   "C09.complement",
	Rule: "ifequal and ifnotequal (with and without else) over the same two operands drawn from literals and context names of every kind incl. nil, undefined, lists, maps, bools, numerically equal ints of different Go types: exactly one of the two tags renders its body. No value is prescribed for the comparison itself. Every case is non-trivial.",
	Gen: func(t *rapid.T) any {
		g := &c09Gen{t: t}
		names := []string{"nothing", "undefinedx", "l0", "l3", "m2", "t", "f", "i1", "u1", "s0", "sx", "f1"}
		op := func(l string) ME {
			if drawBool(t, l+"name") {
				return ME{K: "name", N: pick(t, l, names)}
			}
			return g.scalar()
		}
		ctx := c09Ctx(t)
		ctx.Ks = append(ctx.Ks, vStr("u1"), vStr("f1"))
		ctx.E = append(ctx.E, vUintK("uint8", 1), vF64(1))
		return &c09Compl{A: op("a"), B: op("b"), Ctx: ctx}
	},
	New:   func() any { return &c09Compl{} },
	Check: checkC09Compl,
})

func TestC09Complement(t *testing.T) { runProp(t, "C09.complement") }

// ---- C09.nilvalues: elements and map values that are nil ---------------------------------------
// "once per element ... key/value over maps as requested": an element that is nil is an element;
// the loop variables are bound anew in every iteration, also to nothing.

type c09NilP struct{ Name string }

type c09Nil struct {
	Vals  []string `json:"vals"`  // per entry: a name, or "" for a nil pointer / nil interface
	Kind  string   `json:"kind"`  // ptrmap anymap ptrlist anylist
	Outer string   `json:"outer"` // how the value variable's name is bound outside the loop: "" ctx with
}

func checkC09Nil(c any, r *Rec) error {
	cs := c.(*c09Nil)
	ctx := pongo2.Context{}
	var want strings.Builder
	keys := []string{"a", "b", "c", "d", "e"}
	switch cs.Kind {
	case "ptrmap":
		m := map[string]*c09NilP{}
		for i, v := range cs.Vals {
			if v == "" {
				m[keys[i]] = nil
			} else {
				m[keys[i]] = &c09NilP{Name: v}
			}
		}
		ctx["m"] = m
	case "anymap":
		m := map[string]any{}
		for i, v := range cs.Vals {
			if v == "" {
				m[keys[i]] = nil
			} else {
				m[keys[i]] = c09NilP{Name: v}
			}
		}
		ctx["m"] = m
	case "ptrlist":
		l := []*c09NilP{}
		for _, v := range cs.Vals {
			if v == "" {
				l = append(l, nil)
			} else {
				l = append(l, &c09NilP{Name: v})
			}
		}
		ctx["m"] = l
	default:
		l := []any{}
		for _, v := range cs.Vals {
			if v == "" {
				l = append(l, nil)
			} else {
				l = append(l, &c09NilP{Name: v})
			}
		}
		ctx["m"] = l
	}
	isMap := cs.Kind == "ptrmap" || cs.Kind == "anymap"
	src := `{% for v in m %}[{{ v.Name }}]{% endfor %}`
	if isMap {
		src = `{% for k, v in m sorted %}{{ k }}={{ v.Name }};{% endfor %}`
	}
	for i, v := range cs.Vals {
		if isMap {
			want.WriteString(keys[i] + "=" + v + ";")
		} else {
			want.WriteString("[" + v + "]")
		}
	}
	outerWant := ""
	switch cs.Outer {
	case "ctx":
		ctx["v"] = c09NilP{Name: "OUT"}
		outerWant = "OUT"
	case "with":
		src = `{% with v=outer %}` + src + `|{{ v.Name }}{% endwith %}`
		ctx["outer"] = c09NilP{Name: "OUT"}
		outerWant = "OUT"
	}
	if cs.Outer != "with" {
		src += "|{{ v.Name }}"
	}
	tpl, err := pongo2.NewSet("c09nil", &memLoader{}).FromString(src)
	if err != nil {
		return err
	}
	for round := 0; round < 2; round++ {
		got, xerr := tpl.Execute(ctx)
		if xerr != nil {
			return fmt.Errorf("%s with values %q (%s): unexpected error %v", src, cs.Vals, cs.Kind, xerr)
		}
		if exp := want.String() + "|" + outerWant; got != exp {
			return fmt.Errorf("%s with values %q (%s; \"\" = nil): rendered %q, want %q (one pass per element, the variable bound anew - also to nothing - in each)", src, cs.Vals, cs.Kind, got, exp)
		}
	}
	nils := 0
	for i, v := range cs.Vals {
		if v == "" && i > 0 {
			nils++
		}
	}
	if nils > 0 {
		r.NonTrivial(fmt.Sprint(*cs))
	}
	return nil
}

var _ = register(&propSpec{
	ID:   "C09.nilvalues",
	Rule: "for loops over 1-5 elements some of which are nil: a map[string]*T and a map[string]any (k, v sorted), a []*T and a []any; the value variable's name may also be bound outside the loop (context entry, enclosing with). One pass per element in order, `{{ v.Name }}` empty for the nil ones (never the previous element's or the outer binding's), the outer binding intact afterwards. Rendered twice. Non-trivial: a nil element after the first position.",
	Gen: func(t *rapid.T) any {
		cs := &c09Nil{Kind: pick(t, "kind", []string{"ptrmap", "anymap", "ptrlist", "anylist"}), Outer: pick(t, "outer", []string{"", "ctx", "with"})}
		for n := drawInt(t, 1, 5, "n"); n > 0; n-- {
			cs.Vals = append(cs.Vals, pick(t, "val", []string{"", "", "Ann", "Cy", "Bo"}))
		}
		return cs
	},
	New:   func() any { return &c09Nil{} },
	Check: checkC09Nil,
})

func TestC09NilValues(t *testing.T) { runProp(t, "C09.nilvalues") }
