package props

// C07: expressions evaluate according to the documented C-like semantics.
// Typed expression trees, printed with minimal parentheses, compared with an
// independent evaluator of the tree.

import (
	"fmt"
	"math"
	"reflect"
	"strconv"
	"strings"
	"testing"

	"github.com/flosch/pongo2/v6"
	"pgregory.net/rapid"
)

// static types: int float fnoeq(float32 var: no ==) str bool truth ilist slist
type Ex struct {
	Op    string `json:"op"` // lit var neg not bin
	Bin   string `json:"bin,omitempty"`
	Spell string `json:"spell,omitempty"` // operator spelling used when printing
	L     *Ex    `json:"l,omitempty"`
	R     *Ex    `json:"r,omitempty"`
	T     string `json:"t"`
	Lit   string `json:"lit,omitempty"`   // literal source text (int digits, d.d, quoted string, true/false)
	Name  string `json:"name,omitempty"`  // variable name
	Paren bool   `json:"paren,omitempty"` // redundant parentheses around this node
	Items []*Ex  `json:"items,omitempty"` // op arr: the items of an array literal
}

type c07Case struct {
	E      *Ex    `json:"e"`
	Spaces []int  `json:"spaces,omitempty"` // spacing choices consumed by the printer
	Src    string `json:"src"`              // printed expression (informative; recomputed on replay)
}

// ---- context ------------------------------------------------------------------

type c07Var struct {
	T string
	V any
}

var c07Vars = map[string]c07Var{
	"i3": {"int", 3}, "z": {"int", 0}, "i8": {"int", int8(-5)}, "u8": {"int", uint8(200)}, "big": {"int", int64(1) << 40},
	"i16": {"int", int16(-300)}, "i32": {"int", int32(70000)}, "i64": {"int", int64(7)}, "u": {"int", uint(7)},
	"u16": {"int", uint16(60000)}, "u32": {"int", uint32(3)}, "u64": {"int", uint64(7)},
	// neighbours beyond 2^53 (float64 cannot tell them apart) and the int64 extremes
	"h0": {"int", int64(9007199254740992)}, "h1": {"int", int64(9007199254740993)}, "imax": {"int", int64(9223372036854775807)}, "imin": {"int", int64(-9223372036854775808)},
	// an unsigned value beyond the range of the signed types: only printed and concatenated (its
	// arithmetic is not part of the fragment)
	"ubig": {"ubig", uint64(1)<<63 + 5},
	// a divisor that is tiny but not zero
	"tiny": {"float", 5e-10}, "ntiny": {"float", -2.5e-12},
	"f": {"float", 2.5}, "fz": {"float", 0.0}, "f32": {"fnoeq", float32(0.5)},
	"s": {"str", "ab"}, "e": {"str", ""}, "t": {"bool", true}, "fl": {"bool", false},
	// a list whose integer elements have different Go kinds
	"al": {"ilist", []any{int64(1), 2, uint8(3), int8(-5), uint64(7)}},
	"il": {"ilist", []int{1, 2, 3}}, "sl": {"slist", []string{"a", "b", ""}}, "el": {"ilist", []int{}},
	"sm": {"smap", map[string]int{"a": 1, "ab": 0, "": 2}}, "im": {"imap", map[int]string{1: "x", 3: "", 0: "z"}}, "em": {"smap", map[string]int{}},
}

var c07IntVars = []string{"i3", "z", "i8", "u8", "big", "i16", "i32", "i64", "u", "u16", "u32", "u64", "h0", "h1", "imax", "imin"}

var c07VarNames = []string{"i3", "z", "i8", "u8", "big", "i16", "i32", "i64", "u", "u16", "u32", "u64", "h0", "h1", "imax", "imin", "tiny", "ntiny", "f", "fz", "f32", "s", "e", "t", "fl", "il", "sl", "el"}

func c07Context() pongo2.Context {
	ctx := pongo2.Context{}
	for k, v := range c07Vars {
		ctx[k] = v.V
	}
	return ctx
}

// ---- typing -------------------------------------------------------------------

func isNumT(t string) bool { return t == "int" || t == "float" || t == "fnoeq" }

func numResult(a, b string) string {
	if a == "int" && b == "int" {
		return "int"
	}
	return "float"
}

// binType returns the static type of l op r, or "" if outside the fragment.
func binType(op string, l, r *Ex) string {
	a, b := l.T, r.T
	switch op {
	case "^":
		if isNumT(a) && isNumT(b) {
			return "float"
		}
	case "*", "/", "-":
		if isNumT(a) && isNumT(b) {
			return numResult(a, b)
		}
	case "%":
		if a == "int" && b == "int" {
			return "int"
		}
	case "+":
		if isNumT(a) && isNumT(b) {
			return numResult(a, b)
		}
		if (a == "str" && (b == "str" || isNumT(b))) || (b == "str" && isNumT(a)) {
			return "str"
		}
		if (a == "str" && b == "ubig") || (a == "ubig" && b == "str") {
			return "str"
		}
	case "==", "!=":
		if a == b && (a == "int" || a == "float" || a == "str" || a == "bool") {
			return "bool"
		}
	case "<", "<=", ">", ">=":
		if isNumT(a) && isNumT(b) {
			return "bool"
		}
	case "in":
		if a == "str" && b == "str" {
			return "bool"
		}
		// membership in a list: right side must be a plain list variable
		if (r.Op == "var" || r.Op == "arr") && (a == "int" && b == "ilist" || a == "str" && b == "slist") {
			return "bool"
		}
		// membership in a map: is it a key (the key's Go type must be the map's: string results are
		// strings; integer results are int unless a bare variable of another width is used)
		if r.Op == "var" && (a == "str" && b == "smap" || a == "int" && b == "imap" && !(l.Op == "var" && l.Name != "i3" && l.Name != "z")) {
			return "bool"
		}
	case "and", "or":
		return "bool"
	}
	return ""
}

func unType(op string, x *Ex) string {
	switch op {
	case "neg":
		if x.T == "int" || x.T == "float" || x.T == "fnoeq" {
			if x.T == "fnoeq" {
				return "float"
			}
			return x.T
		}
	case "not":
		if x.T == "bool" {
			return "bool"
		}
		return "truth" // 0/1/1.1 in pongo2, a bool elsewhere: only its truth may be used
	}
	return ""
}

// ---- independent evaluator ------------------------------------------------------

type c07V struct {
	T string // int float str bool list
	I int64
	F float64
	S string
	B bool
	N int    // list length (truthiness)
	L []c07V // items of an array literal
}

var errDivZero = fmt.Errorf("division by zero")

func (v c07V) truth() bool {
	switch v.T {
	case "int":
		return v.I != 0
	case "float":
		return v.F != 0
	case "str":
		return len(v.S) > 0
	case "bool":
		return v.B
	case "list":
		return v.N > 0
	}
	return false
}

func (v c07V) str() string {
	switch v.T {
	case "int":
		return strconv.FormatInt(v.I, 10)
	case "float":
		return fmt.Sprintf("%f", v.F)
	case "str":
		return v.S
	case "bool":
		if v.B {
			return "True"
		}
		return "False"
	}
	return "<list>"
}

func (v c07V) flt() float64 {
	if v.T == "int" {
		return float64(v.I)
	}
	return v.F
}

func unquoteLit(lit string) string {
	body := lit[1 : len(lit)-1]
	body = strings.ReplaceAll(body, `\"`, `"`)
	body = strings.ReplaceAll(body, `\\`, `\`)
	return body
}

func c07Eval(e *Ex) (c07V, error) {
	switch e.Op {
	case "lit":
		switch e.T {
		case "int":
			n, _ := strconv.ParseInt(e.Lit, 10, 64)
			return c07V{T: "int", I: n}, nil
		case "float":
			f, _ := strconv.ParseFloat(e.Lit, 64)
			return c07V{T: "float", F: f}, nil
		case "str":
			return c07V{T: "str", S: unquoteLit(e.Lit)}, nil
		default:
			return c07V{T: "bool", B: e.Lit == "true"}, nil
		}
	case "var":
		switch x := c07Vars[e.Name].V.(type) {
		case int:
			return c07V{T: "int", I: int64(x)}, nil
		case int8:
			return c07V{T: "int", I: int64(x)}, nil
		case uint8:
			return c07V{T: "int", I: int64(x)}, nil
		case int16:
			return c07V{T: "int", I: int64(x)}, nil
		case int32:
			return c07V{T: "int", I: int64(x)}, nil
		case uint:
			return c07V{T: "int", I: int64(x)}, nil
		case uint16:
			return c07V{T: "int", I: int64(x)}, nil
		case uint32:
			return c07V{T: "int", I: int64(x)}, nil
		case uint64:
			if c07Vars[e.Name].T == "ubig" {
				return c07V{T: "str", S: strconv.FormatUint(x, 10)}, nil // (its decimal text is all that is used)
			}
			return c07V{T: "int", I: int64(x)}, nil
		case int64:
			return c07V{T: "int", I: x}, nil
		case float64:
			return c07V{T: "float", F: x}, nil
		case float32:
			return c07V{T: "float", F: float64(x)}, nil
		case string:
			return c07V{T: "str", S: x}, nil
		case bool:
			return c07V{T: "bool", B: x}, nil
		case []int:
			return c07V{T: "list", N: len(x)}, nil
		case []any:
			return c07V{T: "list", N: len(x)}, nil
		case []string:
			return c07V{T: "list", N: len(x)}, nil
		case map[string]int:
			return c07V{T: "list", N: len(x)}, nil
		case map[int]string:
			return c07V{T: "list", N: len(x)}, nil
		}
		panic("bad var " + e.Name)
	case "arr":
		// the items are evaluated in order; the first failure is the literal's
		v := c07V{T: "list", N: len(e.Items)}
		for _, it := range e.Items {
			x, err := c07Eval(it)
			if err != nil {
				return x, err
			}
			v.L = append(v.L, x)
		}
		return v, nil
	case "neg":
		x, err := c07Eval(e.L)
		if err != nil {
			return x, err
		}
		if x.T == "int" {
			return c07V{T: "int", I: -1 * x.I}, nil
		}
		return c07V{T: "float", F: -1 * x.F}, nil
	case "not":
		x, err := c07Eval(e.L)
		if err != nil {
			return x, err
		}
		return c07V{T: "bool", B: !x.truth()}, nil
	}
	// binary, with short-circuit for and/or
	l, err := c07Eval(e.L)
	if err != nil {
		return l, err
	}
	if e.Bin == "and" {
		if !l.truth() {
			return c07V{T: "bool", B: false}, nil
		}
		r, err := c07Eval(e.R)
		if err != nil {
			return r, err
		}
		return c07V{T: "bool", B: r.truth()}, nil
	}
	if e.Bin == "or" {
		if l.truth() {
			return c07V{T: "bool", B: true}, nil
		}
		r, err := c07Eval(e.R)
		if err != nil {
			return r, err
		}
		return c07V{T: "bool", B: r.truth()}, nil
	}
	r, err := c07Eval(e.R)
	if err != nil {
		return r, err
	}
	bothInt := l.T == "int" && r.T == "int"
	b := func(x bool) (c07V, error) { return c07V{T: "bool", B: x}, nil }
	switch e.Bin {
	case "^":
		return c07V{T: "float", F: math.Pow(l.flt(), r.flt())}, nil
	case "*":
		if bothInt {
			return c07V{T: "int", I: l.I * r.I}, nil
		}
		return c07V{T: "float", F: l.flt() * r.flt()}, nil
	case "/":
		if bothInt {
			if r.I == 0 {
				return c07V{}, errDivZero
			}
			return c07V{T: "int", I: l.I / r.I}, nil
		}
		if r.flt() == 0 {
			return c07V{}, errDivZero
		}
		return c07V{T: "float", F: l.flt() / r.flt()}, nil
	case "%":
		if r.I == 0 {
			return c07V{}, errDivZero
		}
		return c07V{T: "int", I: l.I % r.I}, nil
	case "+":
		if l.T == "str" || r.T == "str" {
			return c07V{T: "str", S: l.str() + r.str()}, nil
		}
		if bothInt {
			return c07V{T: "int", I: l.I + r.I}, nil
		}
		return c07V{T: "float", F: l.flt() + r.flt()}, nil
	case "-":
		if bothInt {
			return c07V{T: "int", I: l.I - r.I}, nil
		}
		return c07V{T: "float", F: l.flt() - r.flt()}, nil
	case "==", "!=":
		var eq bool
		switch l.T {
		case "int":
			eq = l.I == r.I
		case "float":
			eq = l.F == r.F
		case "str":
			eq = l.S == r.S
		case "bool":
			eq = l.B == r.B
		}
		return b(eq == (e.Bin == "=="))
	case "<":
		if bothInt {
			return b(l.I < r.I)
		}
		return b(l.flt() < r.flt())
	case "<=":
		if bothInt {
			return b(l.I <= r.I)
		}
		return b(l.flt() <= r.flt())
	case ">":
		if bothInt {
			return b(l.I > r.I)
		}
		return b(l.flt() > r.flt())
	case ">=":
		if bothInt {
			return b(l.I >= r.I)
		}
		return b(l.flt() >= r.flt())
	case "in":
		if e.R.T == "str" {
			return b(strings.Contains(r.S, l.S))
		}
		if e.R.Op == "arr" {
			for _, x := range r.L {
				if x.T == l.T && (l.T == "int" && x.I == l.I || l.T == "str" && x.S == l.S) {
					return b(true)
				}
			}
			return b(false)
		}
		switch xs := c07Vars[e.R.Name].V.(type) {
		case []any:
			for _, x := range xs {
				rv := reflect.ValueOf(x)
				if rv.CanInt() && rv.Int() == l.I || rv.CanUint() && int64(rv.Uint()) == l.I {
					return b(true)
				}
			}
		case []int:
			for _, x := range xs {
				if int64(x) == l.I {
					return b(true)
				}
			}
		case []string:
			for _, x := range xs {
				if x == l.S {
					return b(true)
				}
			}
		case map[string]int:
			_, has := xs[l.S]
			return b(has)
		case map[int]string:
			_, has := xs[int(l.I)]
			return b(has && int64(int(l.I)) == l.I)
		}
		return b(false)
	}
	panic("bad op " + e.Bin)
}

// ---- printer with minimal parentheses ---------------------------------------------

// grammar levels: 0 and/or, 1 comparison/in, 2 additive (may start with unary), 3 multiplicative, 4 power, 5 atom
func exLevel(e *Ex) int {
	switch e.Op {
	case "lit", "var", "arr":
		return 5
	case "neg", "not":
		return 2
	}
	switch e.Bin {
	case "and", "or":
		return 0
	case "==", "!=", "<", "<=", ">", ">=", "in":
		return 1
	case "+", "-":
		return 2
	case "*", "/", "%":
		return 3
	}
	return 4
}

type c07Printer struct {
	sb      strings.Builder
	spaces  []int
	si      int
	omitted int // number of child operators printed without parentheses
}

func (p *c07Printer) gap(min int) {
	n := min
	if p.si < len(p.spaces) {
		n += p.spaces[p.si]
		p.si++
	}
	for i := 0; i < n; i++ {
		p.sb.WriteByte(' ')
	}
}

// print e where the grammar expects something of at least level min.
// unaryOK: a leading sign/not is allowed here (start of an additive expression).
func (p *c07Printer) print(e *Ex, min int, unaryOK bool, forceParen bool) {
	lvl := exLevel(e)
	needParen := forceParen || e.Paren || lvl < min || ((e.Op == "neg" || e.Op == "not") && !unaryOK)
	if needParen {
		p.sb.WriteByte('(')
		p.gap(0)
		p.print1(e)
		p.gap(0)
		p.sb.WriteByte(')')
		return
	}
	if e.Op == "bin" || e.Op == "neg" || e.Op == "not" {
		p.omitted++
	}
	p.print1(e)
}

func (p *c07Printer) print1(e *Ex) {
	switch e.Op {
	case "lit":
		p.sb.WriteString(e.Lit)
	case "var":
		p.sb.WriteString(e.Name)
	case "arr":
		p.sb.WriteByte('[')
		for i, it := range e.Items {
			if i > 0 {
				p.sb.WriteByte(',')
			}
			p.gap(0)
			p.print(it, 0, true, false)
			p.gap(0)
		}
		p.sb.WriteByte(']')
	case "neg":
		p.sb.WriteByte('-')
		p.gap(0)
		// the sign applies to the following term; both readings agree numerically
		p.print(e.L, 3, false, false)
	case "not":
		if e.Spell == "!" {
			p.sb.WriteByte('!')
			p.gap(0)
		} else {
			p.sb.WriteString("not")
			p.gap(1)
		}
		// only a power-level operand directly: "not a * b" is ambiguous between grammars
		p.print(e.L, 4, false, false)
	case "bin":
		word := e.Bin == "and" || e.Bin == "or" || e.Bin == "in"
		sym := e.Spell
		if sym == "" {
			sym = e.Bin
		}
		wordy := sym == "and" || sym == "or" || sym == "in"
		_ = word
		var lmin, rmin int
		lun, run := false, false
		forceR := false
		switch exLevel(e) {
		case 0:
			lmin, rmin = 1, 0
			lun, run = true, true
			// no mixing of and/or without parentheses
			if e.R.Op == "bin" && (e.R.Bin == "and" || e.R.Bin == "or") && e.R.Bin != e.Bin {
				forceR = true
			}
		case 1:
			lmin, rmin = 2, 2
			lun, run = true, true
		case 2:
			lmin, rmin = 2, 3
			lun = true
		case 3:
			lmin, rmin = 3, 4
		case 4:
			lmin, rmin = 5, 4
		}
		// a unary on the left of an additive chain is only the chain's start if it is leftmost
		p.print(e.L, lmin, lun, false)
		if wordy {
			p.gap(1)
		} else {
			p.gap(0)
		}
		p.sb.WriteString(sym)
		if wordy {
			p.gap(1)
		} else {
			p.gap(0)
		}
		p.print(e.R, rmin, run, forceR)
	}
}

func c07Print(e *Ex, spaces []int) (string, int) {
	p := &c07Printer{spaces: spaces}
	p.print(e, 0, true, false)
	return p.sb.String(), p.omitted
}

// a unary node directly on the left of +,- is the start of that chain only if
// nothing is printed before it inside the chain: "a + -b" is a syntax error,
// "-a + b" is fine. Left-nested chains print the leftmost operand first, so
// lun=true is right for the left spine; but "(x - y)" as LEFT operand of "-"
// whose own left is unary is still leftmost. OK by construction.

// ---- complexity / non-trivial rule ---------------------------------------------------

func exOps(e *Ex, levels map[int]int) {
	if e == nil {
		return
	}
	if e.Op == "bin" || e.Op == "neg" || e.Op == "not" {
		levels[exLevel(e)*10+btoi(e.Op != "bin")]++
	}
	exOps(e.L, levels)
	exOps(e.R, levels)
	for _, it := range e.Items {
		exOps(it, levels)
	}
}

func btoi(b bool) int {
	if b {
		return 1
	}
	return 0
}

func chainLen(e *Ex) int {
	// longest same-level operand chain
	best := 0
	var walk func(x *Ex)
	walk = func(x *Ex) {
		if x == nil {
			return
		}
		if x.Op == "bin" {
			n := 2
			l := x.L
			for l != nil && l.Op == "bin" && exLevel(l) == exLevel(x) && !l.Paren {
				n++
				l = l.L
			}
			if n > best {
				best = n
			}
		}
		walk(x.L)
		walk(x.R)
	}
	walk(e)
	return best
}

// ---- check ---------------------------------------------------------------------------

var c07Set = pongo2.NewSet("c07", &memLoader{})

func checkC07(c any, r *Rec) error {
	cs := c.(*c07Case)
	src, omitted := c07Print(cs.E, cs.Spaces)
	cs.Src = src
	want, werr := c07Eval(cs.E)
	ctx := c07Context()

	// form 1: {% if e %}T{% else %}F{% endif %}
	ifSrc := "{% if " + src + " %}T{% else %}F{% endif %}"
	tpl, err := c07Set.FromString(ifSrc)
	if err != nil {
		return fmt.Errorf("expression %q (tree %s) does not compile: %v", src, exString(cs.E), err)
	}
	out, xerr := tpl.Execute(ctx)
	if werr != nil {
		if xerr == nil {
			return fmt.Errorf("{%% if %s %%}: division/modulo by zero must be an execution error, rendered %q (tree %s)", src, out, exString(cs.E))
		}
	} else {
		if xerr != nil {
			return fmt.Errorf("{%% if %s %%}: unexpected error %v (tree %s, reference value %s)", src, xerr, exString(cs.E), want.str())
		}
		exp := "F"
		if want.truth() {
			exp = "T"
		}
		if out != exp {
			return fmt.Errorf("{%% if %s %%} rendered %q, fully parenthesised reading %s is %s", src, out, exString(cs.E), exp)
		}
	}
	// form 2: printed value
	if cs.E.T != "truth" && cs.E.T != "ilist" && cs.E.T != "slist" {
		pSrc := "{% autoescape off %}{{ " + src + " }}{% endautoescape %}"
		tpl, err := c07Set.FromString(pSrc)
		if err != nil {
			return fmt.Errorf("{{ %s }} does not compile: %v", src, err)
		}
		out, xerr := tpl.Execute(ctx)
		if werr != nil {
			if xerr == nil {
				return fmt.Errorf("{{ %s }}: division/modulo by zero must be an execution error, rendered %q", src, out)
			}
		} else {
			if xerr != nil {
				return fmt.Errorf("{{ %s }}: unexpected error %v", src, xerr)
			}
			if out != want.str() {
				return fmt.Errorf("{{ %s }} rendered %q, fully parenthesised reading %s gives %q", src, out, exString(cs.E), want.str())
			}
		}
	}
	levels := map[int]int{}
	exOps(cs.E, levels)
	if werr != nil {
		r.Class("division-by-zero-error")
	}
	r.Class("root:" + cs.E.T)
	if omitted > 0 && (len(levels) >= 2 || chainLen(cs.E) >= 3) {
		r.NonTrivial(src)
	}
	return nil
}

func exString(e *Ex) string {
	switch e.Op {
	case "lit":
		return e.Lit
	case "var":
		return e.Name
	case "arr":
		parts := make([]string, len(e.Items))
		for i, it := range e.Items {
			parts[i] = exString(it)
		}
		return "[" + strings.Join(parts, ", ") + "]"
	case "neg":
		return "(-" + exString(e.L) + ")"
	case "not":
		return "(not " + exString(e.L) + ")"
	}
	return "(" + exString(e.L) + " " + e.Bin + " " + exString(e.R) + ")"
}

// ---- random generator ------------------------------------------------------------------

var c07Spellings = map[string][]string{"and": {"and", "&&"}, "or": {"or", "||"}, "!=": {"!=", "<>"}}

func genLeaf(t *rapid.T, want string) *Ex {
	switch want {
	case "int":
		if drawBool(t, "lit") {
			lit := strconv.Itoa(drawInt(t, 0, 20, "n"))
			if drawInt(t, 0, 7, "lead0") == 0 {
				lit = pick(t, "zeros", []string{"0", "00"}) + lit // integer literals are decimal, leading zeros or not
			}
			return &Ex{Op: "lit", T: "int", Lit: lit}
		}
		return &Ex{Op: "var", T: "int", Name: pick(t, "iv", c07IntVars)}
	case "float":
		if drawBool(t, "lit") {
			return &Ex{Op: "lit", T: "float", Lit: strconv.Itoa(drawInt(t, 0, 9, "ip")) + "." + pick(t, "fp", []string{"0", "5", "25", "75", "125"})}
		}
		return &Ex{Op: "var", T: "float", Name: pick(t, "fv", []string{"f", "fz", "f", "fz", "tiny", "ntiny"})}
	case "fnoeq":
		return &Ex{Op: "var", T: "fnoeq", Name: "f32"}
	case "ubig":
		return &Ex{Op: "var", T: "ubig", Name: "ubig"}
	case "str":
		if drawBool(t, "lit") {
			// (a string literal is an operand whatever it spells: signs, operators, keywords)
			body := pick(t, "sb", []string{"", "a", "ab", "b", "a b", "1", "x<y", `q\"q`, `b\\s`, "é", "-", "+", "not", "in", "-1", "!"})
			q := `"`
			if !strings.Contains(body, `\`) && !strings.Contains(body, `"`) && drawBool(t, "single") {
				q = "'"
			}
			return &Ex{Op: "lit", T: "str", Lit: q + body + q}
		}
		return &Ex{Op: "var", T: "str", Name: pick(t, "sv", []string{"s", "e"})}
	case "bool":
		if drawBool(t, "lit") {
			return &Ex{Op: "lit", T: "bool", Lit: pick(t, "bl", []string{"true", "false"})}
		}
		return &Ex{Op: "var", T: "bool", Name: pick(t, "bv", []string{"t", "fl"})}
	case "ilist":
		if drawInt(t, 0, 2, "arrlit") == 0 {
			return genArr(t, "ilist", "int")
		}
		return &Ex{Op: "var", T: "ilist", Name: pick(t, "lv", []string{"il", "el", "al", "al"})}
	case "slist":
		if drawInt(t, 0, 2, "arrlit") == 0 {
			return genArr(t, "slist", "str")
		}
		return &Ex{Op: "var", T: "slist", Name: "sl"}
	}
	panic("leaf " + want)
}

// genArr builds an in-template array literal of 0..3 items, each an expression of its own
func genArr(t *rapid.T, typ, item string) *Ex {
	e := &Ex{Op: "arr", T: typ}
	n := drawInt(t, 0, 3, "arrn")
	for i := 0; i < n; i++ {
		e.Items = append(e.Items, genEx(t, item, drawInt(t, 0, 1, "arrd")))
	}
	return e
}

// genEx builds a well-typed tree of the requested static type.
func genEx(t *rapid.T, want string, depth int) *Ex {
	if want == "any" { // operand of and/or/not/if
		want = pick(t, "anyT", []string{"int", "float", "str", "bool", "bool", "truth", "ilist", "fnoeq"})
	}
	if want == "num" {
		want = pick(t, "numT", []string{"int", "int", "float", "fnoeq"})
	}
	leafOK := want != "truth"
	if leafOK && (depth <= 0 || drawInt(t, 0, 3, "leaf") == 0) || want == "ilist" || want == "slist" || want == "fnoeq" || want == "ubig" {
		return genLeaf(t, want)
	}
	var e *Ex
	mk := func(op string, l, r *Ex) *Ex {
		x := &Ex{Op: "bin", Bin: op, L: l, R: r, T: binType(op, l, r)}
		if sp, ok := c07Spellings[op]; ok {
			x.Spell = pick(t, "spell", sp)
		}
		return x
	}
	d := depth - 1
	switch want {
	case "int":
		switch drawInt(t, 0, 6, "iop") {
		case 0:
			e = mk("+", genEx(t, "int", d), genEx(t, "int", d))
		case 1:
			e = mk("-", genEx(t, "int", d), genEx(t, "int", d))
		case 2:
			e = mk("*", genEx(t, "int", d), genEx(t, "int", d))
		case 3:
			e = mk("/", genEx(t, "int", d), genEx(t, "int", d))
		case 4:
			e = mk("%", genEx(t, "int", d), genEx(t, "int", d))
		default:
			x := genEx(t, "int", d)
			e = &Ex{Op: "neg", L: x, T: "int"}
		}
	case "float":
		op := pick(t, "fop", []string{"+", "-", "*", "/", "^", "^", "neg"})
		if op == "neg" {
			e = &Ex{Op: "neg", L: genEx(t, pick(t, "nt", []string{"float", "fnoeq"}), d), T: "float"}
			break
		}
		l, r := genEx(t, "num", d), genEx(t, "num", d)
		if op != "^" && l.T == "int" && r.T == "int" {
			r = genEx(t, "float", d)
		}
		if op == "^" {
			// keep powers small: exponent is a small literal
			r = &Ex{Op: "lit", T: "int", Lit: strconv.Itoa(drawInt(t, 0, 3, "exp"))}
			switch drawInt(t, 0, 7, "chain") {
			case 0, 1:
				r = mk("^", &Ex{Op: "lit", T: "int", Lit: strconv.Itoa(drawInt(t, 0, 3, "e1"))}, &Ex{Op: "lit", T: "int", Lit: strconv.Itoa(drawInt(t, 0, 2, "e2"))})
			case 2:
				// a negative or fractional exponent: in parentheses, in a variable, as a float
				r = &Ex{Op: "neg", L: &Ex{Op: "lit", T: "int", Lit: strconv.Itoa(drawInt(t, 1, 3, "nexp"))}, T: "int"}
			case 3:
				r = &Ex{Op: "var", T: "int", Name: "i8"} // -5
			case 4:
				r = &Ex{Op: "lit", T: "float", Lit: pick(t, "fexp", []string{"0.5", "1.5", "2.0"})}
			}
		}
		e = mk(op, l, r)
	case "str":
		l, r := genEx(t, "str", d), genEx(t, pick(t, "cat", []string{"str", "int", "float", "fnoeq", "ubig"}), d)
		if drawBool(t, "swap") && r.T != "str" {
			l, r = r, l
		}
		e = mk("+", l, r)
	case "bool":
		switch drawInt(t, 0, 6, "bop") {
		case 0:
			tt := pick(t, "eqT", []string{"int", "float", "str", "bool"})
			e = mk(pick(t, "eq", []string{"==", "!="}), genEx(t, tt, d), genEx(t, tt, d))
			if tt == "int" && drawInt(t, 0, 4, "hugepair") == 0 {
				// neighbouring integers that only exact integer comparison tells apart
				huge := func(l string) *Ex {
					v := &Ex{Op: "var", T: "int", Name: pick(t, l, []string{"h0", "h1", "imax", "imin", "h1", "h0"})}
					if drawInt(t, 0, 2, l+"adj") == 0 {
						return mk(pick(t, l+"op", []string{"+", "-"}), v, &Ex{Op: "lit", T: "int", Lit: "1"})
					}
					return v
				}
				e = mk(pick(t, "eq2", []string{"==", "!="}), huge("hl"), huge("hr"))
			}
		case 1:
			e = mk(pick(t, "cmp", []string{"<", "<=", ">", ">="}), genEx(t, "num", d), genEx(t, "num", d))
		case 2:
			switch drawInt(t, 0, 4, "ink") {
			case 3:
				e = mk("in", genEx(t, "str", d), &Ex{Op: "var", T: "smap", Name: pick(t, "smv", []string{"sm", "sm", "em"})})
			case 4:
				l := genEx(t, "int", d)
				if l.Op == "var" && l.Name != "i3" && l.Name != "z" {
					l = &Ex{Op: "lit", T: "int", Lit: strconv.Itoa(drawInt(t, 0, 4, "imk"))}
				}
				e = mk("in", l, &Ex{Op: "var", T: "imap", Name: "im"})
			case 0:
				e = mk("in", genEx(t, "str", d), genEx(t, "str", d))
			case 1:
				e = mk("in", genEx(t, "int", d), genLeaf(t, "ilist"))
			default:
				e = mk("in", genEx(t, "str", d), genLeaf(t, "slist"))
			}
		case 3, 4:
			e = mk(pick(t, "lg", []string{"and", "or"}), genEx(t, "any", d), genEx(t, "any", d))
		default:
			e = &Ex{Op: "not", L: genEx(t, "bool", d), T: "bool", Spell: pick(t, "ns", []string{"not", "!"})}
		}
	case "truth":
		e = &Ex{Op: "not", L: genEx(t, pick(t, "tt", []string{"int", "float", "str", "truth", "ilist", "fnoeq"}), d), T: "truth", Spell: pick(t, "ns", []string{"not", "!"})}
	}
	if e.T == "" {
		panic("ill-typed tree generated: " + exString(e))
	}
	if drawInt(t, 0, 9, "paren") == 0 {
		e.Paren = true
	}
	return e
}

var _ = register(&propSpec{
	ID:   "C07.expr",
	Rule: "well-typed expression trees (int/float/string/bool, context variables of every Go int/uint width and float32, integer literals with and without leading zeros (decimal either way), string literals that spell signs, operators and keywords, list membership (typed lists, a list of integers of mixed Go kinds, in-template array literals whose items are expressions of their own), key membership in string- and int-keyed maps) of depth <= 7, printed with minimal parentheses per the stated precedence/associativity, random operator spellings (and/&&, or/||, !=/<>, not/!) and spacing, rendered as {{ e }} and {% if e %}; compared with an independent evaluator of the tree (wrap-around int64, truncated division, float64 when a float is involved, concatenation, short-circuit, division/modulo by zero = execution error). Non-trivial: operators from >= 2 precedence levels or a same-level chain of >= 3 operands AND at least one operator printed without parentheses; distinct by printed source.",
	Gen: func(t *rapid.T) any {
		root := pick(t, "rootT", []string{"int", "float", "str", "bool", "bool", "truth", "str", "ubig"})
		e := genEx(t, root, drawInt(t, 1, 7, "depth"))
		n := drawInt(t, 0, 12, "nsp")
		sp := make([]int, n)
		for i := range sp {
			sp[i] = drawInt(t, 0, 2, "sp")
		}
		cs := &c07Case{E: e, Spaces: sp}
		cs.Src, _ = c07Print(e, sp)
		return cs
	},
	New:   func() any { return &c07Case{} },
	Check: checkC07,
})

func TestC07Expr(t *testing.T) { runProp(t, "C07.expr") }

// ---- exhaustive enumeration of small trees ------------------------------------------------

var c07BinOps = []string{"^", "*", "/", "%", "+", "-", "==", "!=", "<", "<=", ">", ">=", "in", "and", "or"}

func c07EnumLeaves(small bool) []*Ex {
	ls := []*Ex{
		{Op: "lit", T: "int", Lit: "2"},
		{Op: "var", T: "int", Name: "z"},
		{Op: "lit", T: "float", Lit: "1.5"},
		{Op: "lit", T: "str", Lit: `"a"`},
	}
	if !small {
		ls = append(ls,
			&Ex{Op: "lit", T: "int", Lit: "3"},
			&Ex{Op: "lit", T: "bool", Lit: "true"},
			&Ex{Op: "var", T: "int", Name: "i8"},
			&Ex{Op: "var", T: "str", Name: "e"},
			&Ex{Op: "var", T: "ilist", Name: "il"},
		)
	}
	return ls
}

func c07Unaries(xs []*Ex) []*Ex {
	var out []*Ex
	for _, x := range xs {
		if t := unType("neg", x); t != "" {
			out = append(out, &Ex{Op: "neg", L: x, T: t})
		}
		out = append(out, &Ex{Op: "not", L: x, T: unType("not", x), Spell: "not"})
	}
	return out
}

func c07Combine(ls, rs []*Ex, yield func(*Ex) bool) bool {
	for _, op := range c07BinOps {
		for _, l := range ls {
			for _, r := range rs {
				if t := binType(op, l, r); t != "" {
					if !yield(&Ex{Op: "bin", Bin: op, L: l, R: r, T: t}) {
						return false
					}
				}
			}
		}
	}
	return true
}

func TestC07Enum(t *testing.T) {
	deep := envInt("VERIF_C07_ENUM_BIN", 2) // number of binary operators in the largest trees
	enumerate(t, "C07.expr", "enum", func(yield func(any) bool) {
		emit := func(e *Ex) bool { return yield(&c07Case{E: e}) }
		// k = 0, 1, 2 over the full leaf alphabet with unary operators at any node
		l0 := c07EnumLeaves(false)
		t0 := append(append([]*Ex{}, l0...), c07Unaries(l0)...)
		for _, e := range t0 {
			if !emit(e) {
				return
			}
		}
		var t1 []*Ex
		c07Combine(t0, t0, func(e *Ex) bool { t1 = append(t1, e); return true })
		t1u := append(append([]*Ex{}, t1...), c07Unaries(t1)...)
		for _, e := range t1u {
			if !emit(e) {
				return
			}
		}
		ok := c07Combine(t1u, t0, emit) && c07Combine(t0, t1u, emit)
		if !ok || deep < 3 {
			return
		}
		// k = 3 over the small alphabet, binary operators only
		s0 := c07EnumLeaves(true)
		var s1, s2 []*Ex
		c07Combine(s0, s0, func(e *Ex) bool { s1 = append(s1, e); return true })
		c07Combine(s1, s0, func(e *Ex) bool { s2 = append(s2, e); return true })
		c07Combine(s0, s1, func(e *Ex) bool { s2 = append(s2, e); return true })
		_ = c07Combine(s2, s0, emit) && c07Combine(s0, s2, emit) && c07Combine(s1, s1, emit)
	})
}
