package props

// C15.sides: a '-' works on its own side only. Which characters count as whitespace beyond
// space/tab/CR/LF is left to the engine (Jinja's strip() also takes \v, \f, NBSP ...), but the
// answer must not depend on whether the OTHER side of the text is trimmed as well, the four ASCII
// ones are removed in any case, and nothing that is not whitespace under any definition is removed.

import (
	"fmt"
	"strings"
	"testing"
	"unicode"
	"unicode/utf8"

	"github.com/flosch/pongo2/v6"
	"pgregory.net/rapid"
)

type c15Sides struct {
	Text  string `json:"text"`
	Left  int    `json:"left"`  // construct in front of the text
	Right int    `json:"right"` // construct behind the text
}

// %s takes the '-' (or nothing)
var c15LeftForms = []string{"{{ 1 %s}}", "{%% set q=1 %s%%}", "{%% if 1 %%}a{%% endif %s%%}", "{%% with w=1 %s%%}", "{{1%s}}", "{{ 7|add:1%s}}"}
var c15RightForms = []string{"{{%s 2 }}", "{%%%s set r=2 %%}", "{%%%s if 1 %%}b{%% endif %%}", "{%%%s endwith %%}", "{{%s2}}", "{{%s2|add:1 }}"}

var c15SideRunes = []string{" ", " ", "\t", "\n", "\r", "\r\n", "\v", "\f", " ", " ", "\u0085", "​", "x", "é", "-", "}", "%", "\x00", "\xff"}

func c15SidesRender(left, text, right string) (string, error) {
	tpl, err := pongo2.NewSet("c15sides", &memLoader{}).FromString(left + text + right)
	if err != nil {
		return "", err
	}
	return tpl.Execute(nil)
}

func checkC15Sides(c any, r *Rec) error {
	cs := c.(*c15Sides)
	li, ri := cs.Left%len(c15LeftForms), cs.Right%len(c15RightForms)
	if (li == 3) != (ri == 3) {
		if li == 3 {
			li = 0
		} else {
			ri = 0
		} // with ... endwith only as a pair
	}
	lf, rf := c15LeftForms[li], c15RightForms[ri]
	render := func(l, rr bool) (string, error) {
		lm, rm := "", ""
		if l {
			lm = "-"
		}
		if rr {
			rm = "-"
		}
		return c15SidesRender(fmt.Sprintf(lf, lm), cs.Text, fmt.Sprintf(rf, rm))
	}
	plain, err := render(false, false)
	if err != nil {
		return fmt.Errorf("%q between %q and %q: %v", cs.Text, lf, rf, err)
	}
	// where the text sits in the untrimmed rendering
	at := strings.Index(plain, cs.Text)
	if at < 0 || strings.Count(plain, cs.Text) != 1 && cs.Text != "" {
		if at < 0 {
			return fmt.Errorf("untrimmed rendering %q does not contain the literal text %q", plain, cs.Text)
		}
		return skipf("text occurs twice in the rendering")
	}
	pre, post := plain[:at], plain[at+len(cs.Text):]
	cut := func(out string) (string, error) {
		if !strings.HasPrefix(out, pre) || !strings.HasSuffix(out, post) || len(out) < len(pre)+len(post) {
			return "", fmt.Errorf("bytes outside the literal text changed: %q vs untrimmed %q", out, plain)
		}
		return out[len(pre) : len(out)-len(post)], nil
	}
	outL, err := render(true, false)
	if err != nil {
		return err
	}
	outR, err := render(false, true)
	if err != nil {
		return err
	}
	outB, err := render(true, true)
	if err != nil {
		return err
	}
	tl, e1 := cut(outL)
	tr, e2 := cut(outR)
	tb, e3 := cut(outB)
	for _, e := range []error{e1, e2, e3} {
		if e != nil {
			return fmt.Errorf("%q between %q and %q: %v", cs.Text, lf, rf, e)
		}
	}
	desc := fmt.Sprintf("text %q between %s and %s", cs.Text, lf, rf)
	// left trim: a suffix of the text; what went is whitespace; no ASCII whitespace is left in front
	if !strings.HasSuffix(cs.Text, tl) {
		return fmt.Errorf("%s: '-' on the left turned the text into %q, which is not the text minus a prefix", desc, tl)
	}
	if !strings.HasPrefix(cs.Text, tr) {
		return fmt.Errorf("%s: '-' on the right turned the text into %q, which is not the text minus a suffix", desc, tr)
	}
	goneL, goneR := cs.Text[:len(cs.Text)-len(tl)], cs.Text[len(tr):]
	for _, g := range []string{goneL, goneR} {
		for _, ru := range g {
			if !unicode.IsSpace(ru) || ru == utf8.RuneError {
				return fmt.Errorf("%s: a '-' removed %q, which is not whitespace", desc, g)
			}
		}
	}
	if tl != "" && strings.ContainsRune(" \t\r\n", rune(tl[0])) {
		return fmt.Errorf("%s: '-' on the left left whitespace in front: %q", desc, tl)
	}
	if tr != "" && strings.ContainsRune(" \t\r\n", rune(tr[len(tr)-1])) {
		return fmt.Errorf("%s: '-' on the right left whitespace at the end: %q", desc, tr)
	}
	// both: each side does what it does alone
	want := ""
	if len(goneL)+len(goneR) <= len(cs.Text) {
		want = cs.Text[len(goneL) : len(cs.Text)-len(goneR)]
	}
	if tb != want {
		return fmt.Errorf("%s: trimmed on both sides it renders as %q; the left '-' alone removes %q and the right '-' alone removes %q, together that leaves %q", desc, tb, goneL, goneR, want)
	}
	r.Class(fmt.Sprintf("forms:%d/%d", li, ri))
	if len(goneL)+len(goneR) > 0 && want != "" {
		r.NonTrivial(cs.Text + lf + rf)
	}
	return nil
}

var _ = register(&propSpec{
	ID:   "C15.sides",
	Rule: "one literal text (0-8 pieces from: space, tab, CR, LF, CRLF, VT, FF, NBSP, EM SPACE, NEL, ZWSP, letters, '-', '}', '%', NUL, 0xFF) between two constructs ({{ }} with and without blanks inside, i.e. also '{{-2}}', set, if/endif, with/endwith), rendered untrimmed, with '-' on the left only, on the right only and on both. Oracle: each '-' removes a prefix / suffix consisting of whitespace only, leaves no space/tab/CR/LF at its edge, changes no byte outside the text, and both together remove exactly what each removes alone. Non-trivial: something was removed and something of the text survived.",
	Gen: func(t *rapid.T) any {
		var sb strings.Builder
		n := drawInt(t, 0, 8, "n")
		for i := 0; i < n; i++ {
			sb.WriteString(pick(t, "piece", c15SideRunes))
		}
		return &c15Sides{Text: sb.String(), Left: drawInt(t, 0, len(c15LeftForms)-1, "left"), Right: drawInt(t, 0, len(c15RightForms)-1, "right")}
	},
	New:   func() any { return &c15Sides{} },
	Check: checkC15Sides,
})

func TestC15Sides(t *testing.T) { runProp(t, "C15.sides") }
