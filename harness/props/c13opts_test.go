package props

// C13.options: "an exported macro imported into another template behaves exactly like the same macro
// defined locally" - also in a set that has TrimBlocks / LStripBlocks switched on: the macro's body
// is text of a template of that set like any other.

import (
	"fmt"
	"strings"
	"testing"

	"github.com/flosch/pongo2/v6"
	"pgregory.net/rapid"
)

type c13Opts struct {
	Body   string `json:"body"`
	Trim   bool   `json:"trim"`
	LStrip bool   `json:"lstrip"`
}

func checkC13Opts(c any, r *Rec) error {
	cs := c.(*c13Opts)
	def := "{% macro mac(a) export %}" + cs.Body + "{% endmacro %}"
	forms := map[string]string{
		"local":    def + `<{{ mac("v") }}>`,
		"imported": `{% import "/lib/m.tpl" mac %}<{{ mac("v") }}>`,
		"aliased":  `{% import "/lib/m.tpl" mac as al %}<{{ al("v") }}>`,
	}
	outs := map[string]string{}
	for _, form := range []string{"local", "imported", "aliased"} {
		set := pongo2.NewSet("c13opts", newMemLoader(map[string]string{"/lib/m.tpl": def, "/root.tpl": forms[form]}))
		set.Options.TrimBlocks = cs.Trim
		set.Options.LStripBlocks = cs.LStrip
		tpl, err := set.FromFile("/root.tpl")
		if err != nil {
			return fmt.Errorf("form %s does not compile: %v\n body=%q", form, err, cs.Body)
		}
		for round := 0; round < 2; round++ {
			out, xerr := tpl.Execute(pongo2.Context{"flag": true, "l": []string{"p", "q"}})
			if xerr != nil {
				return fmt.Errorf("form %s: %v\n body=%q", form, xerr, cs.Body)
			}
			if prev, ok := outs[form]; ok && prev != out {
				return fmt.Errorf("form %s renders %q and then %q\n body=%q", form, prev, out, cs.Body)
			}
			outs[form] = out
		}
	}
	if outs["imported"] != outs["local"] || outs["aliased"] != outs["local"] {
		return fmt.Errorf("TrimBlocks=%v LStripBlocks=%v: the macro defined locally renders %q, imported %q, imported under an alias %q\n body=%q", cs.Trim, cs.LStrip, outs["local"], outs["imported"], outs["aliased"], cs.Body)
	}
	if cs.Trim || cs.LStrip {
		// did the options have anything to do?
		if strings.Contains(cs.Body, "%}\n") || strings.Contains(cs.Body, " {%") || strings.Contains(cs.Body, "\t{%") {
			r.NonTrivial(fmt.Sprint(*cs))
		}
	}
	return nil
}

var _ = register(&propSpec{
	ID:   "C13.options",
	Rule: "one exported macro whose body mixes text, whitespace runs (spaces, tabs, newlines), outputs and block tags (if / for / with, nested), in a set with every combination of TrimBlocks / LStripBlocks: defined locally, imported and imported under an alias it must render the same bytes (rendered twice each). Non-trivial: an option is on and the body has a newline directly after a block tag or blanks directly before one.",
	Gen: func(t *rapid.T) any {
		var sb strings.Builder
		var gen func(depth int)
		ws := func() string { return pick(t, "ws", []string{"", " ", "\n", "  ", "\t", "\n  ", " \n", "\n\n"}) }
		gen = func(depth int) {
			for n := drawInt(t, 1, 4, "n"); n > 0; n-- {
				sb.WriteString(ws())
				switch k := drawInt(t, 0, 5, "k"); {
				case k == 0:
					sb.WriteString("x")
				case k == 1:
					sb.WriteString("{{ a }}")
				case depth > 0 && k == 2:
					sb.WriteString("{% if flag %}")
					gen(depth - 1)
					sb.WriteString(ws() + "{% endif %}")
				case depth > 0 && k == 3:
					sb.WriteString("{% for i in l %}")
					gen(depth - 1)
					sb.WriteString(ws() + "{% endfor %}")
				case depth > 0 && k == 4:
					sb.WriteString("{% with w=a %}")
					gen(depth - 1)
					sb.WriteString(ws() + "{% endwith %}")
				default:
					sb.WriteString("y")
				}
				sb.WriteString(ws())
			}
		}
		gen(2)
		return &c13Opts{Body: sb.String(), Trim: drawBool(t, "trim"), LStrip: drawBool(t, "lstrip")}
	},
	New:   func() any { return &c13Opts{} },
	Check: checkC13Opts,
})

func TestC13Options(t *testing.T) { runProp(t, "C13.options") }
