package props

// C12: bindings stay in their construct; caller data is never modified.

import (
	"fmt"
	"reflect"
	"strings"
	"testing"

	"github.com/flosch/pongo2/v6"
	"pgregory.net/rapid"
)

type c12Case struct {
	Root    []MNode            `json:"root"`
	Files   map[string][]MNode `json:"files,omitempty"`
	Globals Val                `json:"globals"`
	Ctx     Val                `json:"ctx"`
}

var c12Names = []string{"a", "b", "c", "d"}

type c12Gen struct {
	t       *rapid.T
	macros  int
	files   map[string][]MNode
	nfile   int
	rebind  int // number of names bound at >= 2 nested levels and probed afterwards (approximation for the NT rule)
	inEmpty int
}

func (g *c12Gen) expr() ME {
	switch drawInt(g.t, 0, 5, "ek") {
	case 0:
		return ME{K: "int", I: drawInt(g.t, 0, 9, "il")}
	case 1:
		return ME{K: "str", S: pick(g.t, "sl", []string{"", "x", "yz", "<q>"})}
	default:
		return ME{K: "name", N: pick(g.t, "nm", []string{"a", "b", "c", "d", "g", "cx", "undef", "n1"})}
	}
}

func (g *c12Gen) probe() MNode {
	e := ME{K: "name", N: pick(g.t, "pn", []string{"a", "b", "c", "d", "g", "cx"})}
	return MNode{K: "probe", E: &e}
}

func (g *c12Gen) nodes(depth int, inMacro int) []MNode {
	n := drawInt(g.t, 1, 4, "n")
	var out []MNode
	for i := 0; i < n; i++ {
		kinds := []string{"text", "probe", "probe", "probe", "with", "for", "set", "if", "macro", "call", "include", "plainregion"}
		k := pick(g.t, "k", kinds)
		if depth <= 0 && (k == "with" || k == "for" || k == "if" || k == "macro" || k == "include" || k == "plainregion") {
			k = "probe"
		}
		switch k {
		case "plainregion":
			// a set / macro definition inside is still there behind the region
			e := g.expr()
			body := append(g.nodes(depth-1, inMacro), MNode{K: "set", Name: pick(g.t, "rsn", c12Names), E: &e})
			out = append(out, MNode{K: "plainregion", Name: pick(g.t, "region", []string{"autoescape", "spaceless"}), Body: body}, g.probe())
		case "text":
			out = append(out, MNode{K: "text", Text: pick(g.t, "tx", []string{"-", ".", "t", "|"})})
		case "probe":
			out = append(out, g.probe())
		case "with":
			nd := MNode{K: "with", Old: drawInt(g.t, 0, 3, "old") == 0}
			used := map[string]bool{}
			for j := drawInt(g.t, 1, 3, "np"); j > 0; j-- {
				nm := pick(g.t, "wn", c12Names)
				if used[nm] {
					continue
				}
				used[nm] = true
				nd.Pairs = append(nd.Pairs, MPair{Name: nm, E: g.expr()})
			}
			nd.Body = append(g.nodes(depth-1, inMacro), g.probe())
			out = append(out, nd, g.probe())
		case "for":
			e := ME{K: "name", N: pick(g.t, "fl", []string{"l0", "l1", "l3", "a", "undef", "str", "sl", "mp"})}
			nd := MNode{K: "for", Name: pick(g.t, "fv", c12Names), E: &e, Rev: drawInt(g.t, 0, 3, "rev") == 0}
			if e.N == "mp" {
				// over a map: key and value, or (one loop variable) the keys alone
				if drawBool(g.t, "kv") {
					nd.Name2 = pick(g.t, "fv2", []string{"b", "d"})
					if nd.Name2 == nd.Name {
						nd.Name2 = "c2"
					}
				}
				nd.Sorted = true
			}
			fields := []string{"Counter", "Counter0", "Revcounter", "Revcounter0", "First", "Last"}
			if g.inEmpty == 0 {
				fields = append(fields, "Parentloop.Counter", "Parentloop.Parentloop.Counter0")
			}
			nd.Body = append(g.nodes(depth-1, inMacro), MNode{K: "loopprobe", Field: pick(g.t, "lf", fields)})
			if drawBool(g.t, "he") {
				// inside an empty branch the property does not say what forloop is (Django: the outer
				// loop's, pongo2: a zeroed one): loops below it do not look at their parents
				nd.HasAlt = true
				g.inEmpty++
				nd.Alt = g.nodes(depth-1, inMacro)
				g.inEmpty--
			}
			out = append(out, nd, g.probe())
			if g.inEmpty == 0 {
				out = append(out, MNode{K: "loopprobe", Field: "Counter"})
			}
		case "set":
			e := g.expr()
			out = append(out, MNode{K: "set", Name: pick(g.t, "sn", c12Names), E: &e})
		case "if":
			e := g.expr()
			nd := MNode{K: "if", E: &e, Body: g.nodes(depth-1, inMacro)}
			if drawBool(g.t, "hel") {
				nd.HasAlt = true
				nd.Alt = g.nodes(depth-1, inMacro)
			}
			out = append(out, nd, g.probe())
		case "macro":
			if inMacro >= 0 || g.macros >= 3 {
				out = append(out, MNode{K: "text", Text: "~"})
				continue
			}
			idx := g.macros
			g.macros++
			nd := MNode{K: "macro", Name: fmt.Sprintf("m%d", idx)}
			used := map[string]bool{}
			for j := drawInt(g.t, 0, 3, "mp"); j > 0; j-- {
				nm := pick(g.t, "mpn", c12Names)
				if used[nm] {
					continue
				}
				used[nm] = true
				p := MParam{Name: nm}
				if drawBool(g.t, "hd") {
					d := g.expr()
					p.Def = &d
				}
				nd.Params = append(nd.Params, p)
			}
			// a default that names a parameter of the same macro means the outer binding in pongo2 and
			// the parameter in Jinja2; the statement does not say, so such defaults are not generated
			for k := range nd.Params {
				if meMentions(nd.Params[k].Def, used) {
					nd.Params[k].Def = &ME{K: "int", I: 7}
				}
			}
			nd.Body = g.nodes(depth-1, idx)
			if drawBool(g.t, "setinbody") {
				// a binding made directly in the macro body must stay in the macro
				e := g.expr()
				nd.Body = append(nd.Body, MNode{K: "set", Name: pick(g.t, "msn", c12Names), E: &e})
			}
			nd.Body = append(nd.Body, g.probe())
			// now and then the macro is used right away: called without arguments, one of the names
			// its defaults read is bound anew, called again
			var useNow []MNode
			if drawInt(g.t, 0, 2, "usenow") == 0 {
				target := pick(g.t, "usn", c12Names)
				for _, p := range nd.Params {
					if p.Def != nil && p.Def.K == "name" && !used[p.Def.N] && drawBool(g.t, "usedef") {
						target = p.Def.N
					}
				}
				isName := false
				for _, nm := range c12Names {
					if nm == target {
						isName = true
					}
				}
				if isName {
					e := g.expr()
					useNow = []MNode{{K: "call", Name: nd.Name}, {K: "set", Name: target, E: &e}, {K: "call", Name: nd.Name}, g.probe()}
				}
			}
			if drawInt(g.t, 0, 2, "tolib") == 0 {
				// the same macro, kept in a library file and imported: it runs in the scope it is
				// called in just like a local one
				nd.Export = true
				file := fmt.Sprintf("/libm%d.tpl", idx)
				g.files[file] = []MNode{nd}
				out = append(out, MNode{K: "import", Name: file, Imps: []MPair{{Name: nd.Name}}})
				out = append(out, useNow...)
				continue
			}
			out = append(out, nd)
			out = append(out, useNow...)
		case "call":
			max := 2
			if inMacro >= 0 {
				max = inMacro - 1
			}
			if max < 0 {
				out = append(out, MNode{K: "text", Text: "^"})
				continue
			}
			nd := MNode{K: "call", Name: fmt.Sprintf("m%d", drawInt(g.t, 0, max, "ci"))}
			for j := drawInt(g.t, 0, 4, "na"); j > 0; j-- {
				nd.Es = append(nd.Es, g.expr())
			}
			out = append(out, nd, g.probe())
			if drawInt(g.t, 0, 2, "callagain") == 0 {
				// the same call once more after one of the names was bound anew: defaults and the
				// body's free names are read at the time of each call
				e := g.expr()
				again := nd
				again.Es = append([]ME(nil), nd.Es...)
				out = append(out, MNode{K: "set", Name: pick(g.t, "csn", c12Names), E: &e}, again, g.probe())
			}
			if drawBool(g.t, "probeall") {
				for _, nm := range c12Names {
					e := ME{K: "name", N: nm}
					out = append(out, MNode{K: "probe", E: &e})
				}
			}
		case "include":
			g.nfile++
			name := fmt.Sprintf("/inc%d.tpl", g.nfile)
			nd := MNode{K: "include", Name: name}
			for j := drawInt(g.t, 0, 2, "ip"); j > 0; j-- {
				nd.Pairs = append(nd.Pairs, MPair{Name: pick(g.t, "in", c12Names), E: g.expr()})
			}
			if len(nd.Pairs) > 0 {
				nd.Only = drawBool(g.t, "only")
			}
			// the included file probes and rebinds the same names; it may not define macros (kept simple)
			body := []MNode{g.probe(), g.probe()}
			if depth > 1 {
				body = append(body, g.nodes(1, 99)...)
			}
			if g.inEmpty == 0 {
				body = append(body, MNode{K: "loopprobe", Field: "Counter"})
			}
			body = append(body, g.probe())
			g.files[name] = body
			out = append(out, nd, g.probe())
		}
	}
	return out
}

// canonical deep dump for the "caller data untouched" check
func deepDump(v any) string { return fmt.Sprintf("%#v", v) }

func checkC12(c any, r *Rec) error {
	cs := c.(*c12Case)
	want, werr := mmReference(cs.Root, cs.Files, cs.Globals, cs.Ctx)
	if werr != nil && strings.HasPrefix(werr.msg, "opaque:") {
		return skipf("%s", werr.msg)
	}
	got, gerr, ctx, set := mmEngine(cs.Root, cs.Files, cs.Globals, cs.Ctx)
	src := mmSrc(cs.Root)
	desc := fmt.Sprintf("root=%q files=%v globals=%s ctx=%s", src, c12FilesSrc(cs.Files), descVal(cs.Globals), descVal(cs.Ctx))
	if gerr != nil && strings.HasPrefix(gerr.Error(), "compile:") {
		return fmt.Errorf("generated program does not compile: %v\n %s", gerr, desc)
	}
	if werr != nil {
		if gerr == nil {
			return fmt.Errorf("expected an execution error (%s) but rendered %q\n %s", werr.msg, got, desc)
		}
		r.Class("expected-error")
	} else {
		if gerr != nil {
			return fmt.Errorf("unexpected execution error %v\n reference output %q\n %s", gerr, want, desc)
		}
		if got != want {
			return fmt.Errorf("scoping differs from the reference environment model\n got  %q\n want %q\n %s", got, want, desc)
		}
	}
	// the caller's Context and the set's Globals must be exactly as before
	if !reflect.DeepEqual(map[string]any(ctx), map[string]any(BuildContext(cs.Ctx))) {
		return fmt.Errorf("execution modified the caller's Context: now %s\n %s", deepDump(ctx), desc)
	}
	if !reflect.DeepEqual(map[string]any(set.Globals), map[string]any(BuildContext(cs.Globals))) {
		return fmt.Errorf("execution modified the set's Globals: now %s\n %s", deepDump(set.Globals), desc)
	}
	// a binding must not survive the execution either: the same compiled template rendered twice
	// more gives the same text (a set / with / loop variable left behind would show in the probes)
	if werr == nil {
		// ... nor may anything of one execution's context show up in the next: in between, the same
		// template is rendered with other values under the same names
		ctx2 := cs.Ctx
		ctx2.E = append([]Val(nil), cs.Ctx.E...)
		for i, v := range ctx2.E {
			switch v.K {
			case "str":
				ctx2.E[i] = vStr(v.Str() + "2")
			case "int":
				ctx2.E[i] = vInt(int(v.I) + 10)
			}
		}
		wants := []string{want, "", want}
		var w2err *mErr
		wants[1], w2err = mmReference(cs.Root, cs.Files, cs.Globals, ctx2)
		seq := []Val{cs.Ctx, ctx2, cs.Ctx}
		if w2err != nil {
			seq, wants = []Val{cs.Ctx, cs.Ctx}, []string{want, want}
		}
		outs, errs, cerr := mmEngineSeq(cs.Root, cs.Files, cs.Globals, seq)
		if cerr == nil {
			for i := range outs {
				if errs[i] != nil || outs[i] != wants[i] {
					return fmt.Errorf("rendering %d of %d of one compiled template (the second one with other values under the same names): got %q (err %v), want %q\n %s", i+1, len(outs), outs[i], errs[i], wants[i], desc)
				}
			}
		}
	}
	if strings.Contains(src, "{% include") {
		r.Class("with-include")
	}
	if strings.Contains(src, "{% macro") {
		r.Class("with-macro")
	}
	// non-trivial: some name is bound by at least two nested constructs
	if c12NestedRebind(cs.Root, map[string]int{}) {
		r.NonTrivial(desc)
	}
	return nil
}

func c12FilesSrc(files map[string][]MNode) map[string]string {
	out := map[string]string{}
	for k, v := range files {
		out[k] = mmSrc(v)
	}
	return out
}

func c12NestedRebind(ns []MNode, bound map[string]int) bool {
	for i := range ns {
		n := &ns[i]
		var names []string
		switch n.K {
		case "with":
			for _, p := range n.Pairs {
				names = append(names, p.Name)
			}
		case "for":
			names = append(names, n.Name)
		case "macro":
			for _, p := range n.Params {
				names = append(names, p.Name)
			}
		case "set":
			if bound[n.Name] > 0 {
				return true
			}
			continue
		default:
			if c12NestedRebind(n.Body, bound) || c12NestedRebind(n.Alt, bound) {
				return true
			}
			continue
		}
		for _, nm := range names {
			if bound[nm] > 0 {
				return true
			}
			bound[nm]++
		}
		hit := c12NestedRebind(n.Body, bound) || c12NestedRebind(n.Alt, bound)
		for _, nm := range names {
			bound[nm]--
		}
		if hit {
			return true
		}
	}
	return false
}

func genC12Ctx(t *rapid.T) (Val, Val) {
	globals := ctxVal("g", vStr("G"), "cx", vStr("Gcx"), "n1", vInt(4))
	ctx := ctxVal("cx", vStr("C"), "l0", vInts(), "l1", vInts(7), "l3", vInts(3, 1, 2), "str", vStr("pq"), "sl", vStrs("s1", "s0"),
		"mp", Val{K: "mapSI", Ks: []Val{vStr("k2"), vStr("k1")}, E: []Val{vInt(2), vInt(1)}},
		"nested", Val{K: "mapSA", Ks: []Val{vStr("list"), vStr("m")}, E: []Val{vInts(9, 8), Val{K: "mapSI", Ks: []Val{vStr("z")}, E: []Val{vInt(0)}}}})
	for _, nm := range []string{"a", "b", "d"} {
		if drawBool(t, "ctx_"+nm) {
			ctx.Ks = append(ctx.Ks, vStr(nm))
			ctx.E = append(ctx.E, vStr("c"+nm))
		}
	}
	if drawBool(t, "glob_a") {
		globals.Ks = append(globals.Ks, vStr("a"))
		globals.E = append(globals.E, vStr("ga"))
	}
	return globals, ctx
}

var _ = register(&propSpec{
	ID:   "C12.scope",
	Rule: "nestings (depth <= 4) of with (both syntaxes, several pairs), for (lists, strings, maps k,v sorted, reversed, empty), macro definition/call (defaults, too many arguments), set, if, include (with pairs / only; included file rebinding and probing the same names) (also inside autoescape / spaceless regions, which are no scopes) over 4 deliberately colliding names (a third of the macros live in a library file and are imported); a probe {{ name }} after every construct and inside every body; the same names also in Context and Globals with different values. Oracle: reference environment model (child scope = copy; with-pairs evaluated outside; one scope per for; macro body in a child of the defining scope taken at call time; include = fresh public context) predicts every probe; the caller's Context and the set's Globals must be deeply equal to freshly built copies afterwards; the compiled template is then rendered three more times - with the same context, with other values under the same names, with the first context again - and every rendering must match the reference for its context. Non-trivial: a name bound again inside a construct that already binds it.",
	Gen: func(t *rapid.T) any {
		g := &c12Gen{t: t, files: map[string][]MNode{}}
		root := g.nodes(3, -1)
		globals, ctx := genC12Ctx(t)
		return &c12Case{Root: root, Files: g.files, Globals: globals, Ctx: ctx}
	},
	New:   func() any { return &c12Case{} },
	Check: checkC12,
})

func TestC12Scope(t *testing.T) { runProp(t, "C12.scope") }

// ---- invalid / clashing context keys ----------------------------------------------

type c12Keys struct {
	Key    string `json:"key"`
	Where  string `json:"where"` // ctx | globals
	Macro  bool   `json:"macro"` // key clashes with an exported macro instead of being malformed
	Nested bool   `json:"nested"`
	Shape  string `json:"shape,omitempty"`
	// Reuse: the caller keeps ONE Context map (and the set's Globals) around: valid at first and
	// executed, then the key is added to the very same map, later removed again
	Reuse bool `json:"reuse,omitempty"`
}

// (c12Keys.Shape: "" | child | grandchild - the template that is executed stands alone or extends)
func checkC12Keys(c any, r *Rec) error {
	cs := c.(*c12Keys)
	src := "before{{ x }}after"
	key := cs.Key
	if cs.Macro {
		src = "{% macro clash() export %}m{% endmacro %}before{{ x }}after"
		key = "clash"
	}
	set := pongo2.NewSet("c12k", newMemLoader(map[string]string{"/kbase.tpl": "B{% block kb %}b{% endblock %}E", "/kbase2.tpl": `{% extends "/kbase.tpl" %}`}))
	switch cs.Shape {
	case "child":
		// the executed template extends another one; the macro is its own
		src = `{% extends "/kbase.tpl" %}{% block kb %}` + src + `{% endblock %}`
	case "grandchild":
		src = `{% extends "/kbase2.tpl" %}{% block kb %}` + src + `{% endblock %}`
	}
	ctx := pongo2.Context{"x": "X"}
	tpl, err := set.FromString(src)
	if err != nil {
		return err
	}
	okRun := func(when string) error {
		for i := 0; i < 2; i++ {
			out, xerr := tpl.Execute(ctx)
			if xerr != nil || !strings.Contains(out, "beforeXafter") {
				return fmt.Errorf("%s the key %q is in the map, the very same Context map renders %q, err %v", when, key, out, xerr)
			}
		}
		return nil
	}
	if cs.Reuse {
		if err := okRun("before"); err != nil {
			return err
		}
	}
	if cs.Where == "globals" && !cs.Macro {
		set.Globals[key] = 1
	} else {
		ctx[key] = 1
	}
	for _, entry := range []string{"Execute", "ExecuteWriter", "ExecuteWriterUnbuffered"} {
		w := &plainWriter{}
		var out string
		var xerr error
		switch entry {
		case "Execute":
			out, xerr = tpl.Execute(ctx)
		case "ExecuteWriter":
			xerr = tpl.ExecuteWriter(ctx, w)
			out = string(w.buf)
		default:
			xerr = tpl.ExecuteWriterUnbuffered(ctx, w)
			out = string(w.buf)
		}
		if xerr == nil {
			return fmt.Errorf("%s accepted the context key %q (%s, macro clash: %v) and rendered %q", entry, key, cs.Where, cs.Macro, out)
		}
		if out != "" {
			return fmt.Errorf("%s rejected the context key %q but rendered %q first", entry, key, out)
		}
	}
	if cs.Reuse {
		delete(set.Globals, key)
		delete(ctx, key)
		if err := okRun("after"); err != nil {
			return err
		}
	}
	r.NonTrivial(fmt.Sprint(*cs))
	return nil
}

var _ = register(&propSpec{
	ID:   "C12.keys",
	Rule: "context / globals keys that are not identifiers (empty, space, punctuation, non-ASCII, leading dash, dot, newline) or that clash with a macro exported by the executed template (which stands alone or extends another one): every entry point must return an error and render nothing - also when the key is added to a Context map / Globals that were valid and executed before (the same map object), and removing it makes the map valid again. Every case is non-trivial.",
	Gen: func(t *rapid.T) any {
		return &c12Keys{Key: pick(t, "key", []string{"", " ", "a b", "a-b", "é", "a.b", "x\n", "-x", "a[0]", "{{", "日本", "a,b", "a+"}), Where: pick(t, "where", []string{"ctx", "globals"}), Macro: drawInt(t, 0, 3, "macro") == 0, Shape: pick(t, "shape", []string{"", "", "child", "grandchild"}), Reuse: drawBool(t, "reuse")}
	},
	New:   func() any { return &c12Keys{} },
	Check: checkC12Keys,
})

func TestC12Keys(t *testing.T) { runProp(t, "C12.keys") }
