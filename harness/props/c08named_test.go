package props

// C08, two further families:
//  - C08.named: a.Method / a.key / a.N on values of named non-struct types (named slices, maps,
//    integers, strings and pointers to them) - a method is a method whatever kind of value has it
//  - C08.blockname: the name "block" bound by the block tag shadows context entries and globals
//    for the whole body of the block

import (
	"fmt"
	"strconv"
	"strings"
	"testing"

	"github.com/flosch/pongo2/v6"
	"pgregory.net/rapid"
)

type ZNTags []string

func (t ZNTags) Joined(sep string) string { return strings.Join(t, sep) }
func (t ZNTags) Count() int               { return len(t) }

type ZNCount map[string]int

func (c ZNCount) Total() int {
	n := 0
	for _, v := range c {
		n += v
	}
	return n
}
func (c ZNCount) Has(k string) bool { _, ok := c[k]; return ok }

type ZNDur int64

func (d ZNDur) Twice() int64   { return int64(d) * 2 }
func (d ZNDur) Plus(n int) int { return int(d) + n }

type ZNName string

func (n ZNName) Shout() string           { return strings.ToUpper(string(n)) + "!" }
func (n ZNName) Rep(k int, s string) int { return k * len(s) * len(n) }

type ZNRatio float64

func (r ZNRatio) Percent() string { return strconv.Itoa(int(float64(r)*100)) + "%" }

type ZNHolder struct {
	Tags  ZNTags
	Count ZNCount
	D     ZNDur
	N     ZNName
	R     ZNRatio
	PT    *ZNTags
	U     uint64
}

var znTags = ZNTags{"a", "b", "c"}

func c08NamedContext() pongo2.Context {
	tags := ZNTags{"a", "b", "c"}
	cnt := ZNCount{"x": 2, "y": 40}
	d := ZNDur(90)
	n := ZNName("bob")
	ra := ZNRatio(0.25)
	u := uint64(1)<<63 + 5 // beyond the range of every signed integer type
	h := ZNHolder{Tags: tags, Count: cnt, D: d, N: n, R: ra, PT: &tags, U: u}
	return pongo2.Context{
		"tags": tags, "count": cnt, "d": d, "n": n, "r": ra, "u": u,
		"ptags": &tags, "pcount": &cnt, "pd": &d, "pn": &n, "pr": &ra, "pu": &u,
		"h": h, "ph": &h,
		"m":  map[string]any{"tags": tags, "count": cnt, "d": d, "n": n, "r": ra, "ptags": &tags, "u": u},
		"l":  []any{tags, cnt, d, n, ra, u, &tags},
		"sa": "-", "i2": 2,
	}
}

type c08Named struct {
	Reach string `json:"reach"` // top | ptr | holder | pholder | map | list | holderptr
	Typ   string `json:"typ"`   // tags count d n r
	Op    string `json:"op"`    // a method name, or index / key / print / length
	Args  []c08A `json:"args,omitempty"`
	Paren bool   `json:"paren,omitempty"` // a method without arguments written with ()
	Idx   int    `json:"idx,omitempty"`
	Key   string `json:"key,omitempty"`
	Sub   bool   `json:"sub,omitempty"` // index / key written as a subscript
}

func (cs *c08Named) base() (string, bool) {
	field := map[string]string{"tags": "Tags", "count": "Count", "d": "D", "n": "N", "r": "R", "u": "U"}[cs.Typ]
	pos := map[string]int{"tags": 0, "count": 1, "d": 2, "n": 3, "r": 4, "u": 5}[cs.Typ]
	switch cs.Reach {
	case "top":
		return cs.Typ, true
	case "ptr":
		return "p" + cs.Typ, true
	case "holder":
		return "h." + field, true
	case "pholder":
		return "ph." + field, true
	case "map":
		return "m." + cs.Typ, true
	case "list":
		return "l." + strconv.Itoa(pos), true
	case "holderptr":
		return "h.PT", cs.Typ == "tags"
	}
	return "", false
}

func (cs *c08Named) source() (string, bool) {
	b, ok := cs.base()
	if !ok {
		return "", false
	}
	switch cs.Op {
	case "print":
		return "{{ " + b + " }}", true
	case "concat":
		return `{{ "=" + ` + b + ` }}`, true
	case "length":
		return "{{ " + b + "|length }}", true
	case "index":
		if cs.Sub {
			return "{{ " + b + "[" + strconv.Itoa(cs.Idx) + "] }}", true
		}
		return "{{ " + b + "." + strconv.Itoa(cs.Idx) + " }}", true
	case "key":
		if cs.Sub {
			return `{{ ` + b + `["` + cs.Key + `"] }}`, true
		}
		return "{{ " + b + "." + cs.Key + " }}", true
	}
	s := b + "." + cs.Op
	if len(cs.Args) > 0 || cs.Paren {
		parts := make([]string, len(cs.Args))
		for i, a := range cs.Args {
			parts[i] = a.src()
		}
		s += "(" + strings.Join(parts, ", ") + ")"
	}
	return "{{ " + s + " }}", true
}

// the signature table of the methods: parameter kinds
var c08NamedMethods = map[string]map[string][]string{
	"tags":  {"Joined": {"str"}, "Count": {}},
	"count": {"Total": {}, "Has": {"str"}},
	"d":     {"Twice": {}, "Plus": {"int"}},
	"n":     {"Shout": {}, "Rep": {"int", "str"}},
	"r":     {"Percent": {}},
}

// reference: (rendering, is an execution error expected, comparable)
func (cs *c08Named) want() (string, bool, bool) {
	argv := func(a c08A) (string, any) {
		switch a.K {
		case "int":
			return "int", a.I
		case "str":
			return "str", a.S
		}
		switch a.S {
		case "sa":
			return "str", "-"
		case "i2":
			return "int", 2
		}
		return "nil", nil
	}
	switch cs.Op {
	case "print":
		switch cs.Typ {
		case "d":
			return "90", false, true
		case "n":
			return "bob", false, true
		case "r":
			return "0.250000", false, true
		case "u":
			return "9223372036854775813", false, true
		}
		return "", false, false // the printed form of lists and maps is not the subject
	case "concat":
		switch cs.Typ {
		case "u":
			return "=9223372036854775813", false, true
		case "d":
			return "=90", false, true
		case "n":
			return "=bob", false, true
		}
		return "", false, false
	case "length":
		switch cs.Typ {
		case "tags":
			return "3", false, true
		case "count":
			return "2", false, true
		case "n":
			return "3", false, true
		}
		return "", false, false
	case "index":
		if cs.Typ != "tags" {
			return "", false, false
		}
		if cs.Idx >= 0 && cs.Idx < len(znTags) {
			return znTags[cs.Idx], false, true
		}
		return "", false, true
	case "key":
		if cs.Typ != "count" {
			return "", false, false
		}
		switch cs.Key {
		case "x":
			return "2", false, true
		case "y":
			return "40", false, true
		}
		return "", false, true // a missing key is empty
	}
	sig, ok := c08NamedMethods[cs.Typ][cs.Op]
	if !ok {
		return "", false, false
	}
	if len(cs.Args) != len(sig) {
		return "", true, true
	}
	vals := make([]any, len(sig))
	for i, a := range cs.Args {
		k, v := argv(a)
		if k != sig[i] {
			return "", true, true
		}
		vals[i] = v
	}
	switch cs.Typ + "." + cs.Op {
	case "tags.Joined":
		return strings.Join(znTags, vals[0].(string)), false, true
	case "tags.Count":
		return "3", false, true
	case "count.Total":
		return "42", false, true
	case "count.Has":
		k := vals[0].(string)
		return map[bool]string{true: "True", false: "False"}[k == "x" || k == "y"], false, true
	case "d.Twice":
		return "180", false, true
	case "d.Plus":
		return strconv.Itoa(90 + vals[0].(int)), false, true
	case "n.Shout":
		return "BOB!", false, true
	case "n.Rep":
		return strconv.Itoa(vals[0].(int) * len(vals[1].(string)) * 3), false, true
	case "r.Percent":
		return "25%", false, true
	}
	return "", false, false
}

func checkC08Named(c any, r *Rec) error {
	cs := c.(*c08Named)
	src, ok := cs.source()
	if !ok {
		return skipf("no such placement")
	}
	want, wantErr, comparable := cs.want()
	if !comparable {
		return skipf("not fixed by the property")
	}
	tpl, err := pongo2.NewSet("c08named", &memLoader{}).FromString("{% autoescape off %}" + src + "{% endautoescape %}")
	if err != nil {
		return fmt.Errorf("%q does not compile: %v", src, err)
	}
	for round := 0; round < 2; round++ {
		got, xerr := tpl.Execute(c08NamedContext())
		if wantErr {
			if xerr == nil {
				return fmt.Errorf("%s: calling a method with the wrong number or type of arguments must be an execution error, rendered %q", src, got)
			}
			continue
		}
		if xerr != nil {
			return fmt.Errorf("%s: unexpected error %v, want %q", src, xerr, want)
		}
		if got != want {
			return fmt.Errorf("%s rendered %q, following the steps through the context gives %q", src, got, want)
		}
	}
	r.Class("reach:" + cs.Reach)
	r.Class("typ:" + cs.Typ)
	if wantErr {
		r.Class("call-error")
	}
	if _, isMethod := c08NamedMethods[cs.Typ][cs.Op]; isMethod {
		r.NonTrivial(src)
	}
	return nil
}

var _ = register(&propSpec{
	ID:   "C08.named",
	Rule: "values of named non-struct types (a named []string, map[string]int, int64, string and float64, each with value-receiver methods; also a plain uint64 beyond the range of the signed types, printed and concatenated) placed in the context directly, behind a pointer, in an exported struct field (struct by value and by pointer; also a pointer field), in a map[string]any and in a []any; accessed by method name (without arguments, with () and with literal / context-name arguments of the right and of the wrong number or type), by index / key (dot and subscript, present and missing), printed and measured with |length. Reference: a table of the methods' signatures and results; wrong calls must be execution errors, missing keys / indexes empty. Rendered twice. Non-trivial: a method access; distinct by source.",
	Gen: func(t *rapid.T) any {
		cs := &c08Named{Reach: pick(t, "reach", []string{"top", "ptr", "holder", "pholder", "map", "list", "holderptr"}), Typ: pick(t, "typ", []string{"tags", "count", "d", "n", "r", "u"})}
		if cs.Reach == "holderptr" {
			cs.Typ = "tags"
		}
		var ms []string
		for _, name := range []string{"Joined", "Count", "Total", "Has", "Twice", "Plus", "Shout", "Rep", "Percent"} {
			if _, ok := c08NamedMethods[cs.Typ][name]; ok {
				ms = append(ms, name)
			}
		}
		switch drawInt(t, 0, 5, "opk") {
		case 0:
			cs.Op = pick(t, "plain", []string{"print", "length", "concat"})
		case 1:
			cs.Op, cs.Idx, cs.Sub = "index", drawInt(t, 0, 4, "idx"), drawBool(t, "sub")
		case 2:
			cs.Op, cs.Key, cs.Sub = "key", pick(t, "key", []string{"x", "y", "zz", "Totals"}), drawBool(t, "sub")
		default:
			if len(ms) == 0 {
				cs.Op = pick(t, "plain2", []string{"print", "concat"})
				break
			}
			cs.Op = pick(t, "method", ms)
			sig := c08NamedMethods[cs.Typ][cs.Op]
			n := len(sig)
			if drawInt(t, 0, 3, "wrongn") == 0 {
				n = drawInt(t, 0, 3, "n")
			}
			for i := 0; i < n; i++ {
				k := "int"
				if i < len(sig) {
					k = sig[i]
				}
				if drawInt(t, 0, 4, "wrongk") == 0 {
					k = map[string]string{"int": "str", "str": "int"}[k]
				}
				a := c08A{K: k}
				if k == "int" {
					a.I = drawInt(t, 0, 5, "ai")
					if drawInt(t, 0, 3, "byname") == 0 {
						a = c08A{K: "name", S: "i2"}
					}
				} else {
					a.S = pick(t, "as", []string{"-", "", "x", "zz", ", "})
					if drawInt(t, 0, 3, "byname") == 0 {
						a = c08A{K: "name", S: "sa"}
					}
				}
				cs.Args = append(cs.Args, a)
			}
			cs.Paren = drawBool(t, "paren")
		}
		return cs
	},
	New:   func() any { return &c08Named{} },
	Check: checkC08Named,
})

func TestC08Named(t *testing.T) { runProp(t, "C08.named") }

// ---- C08.blockname ------------------------------------------------------------------------

type c08BlockName struct {
	Ctx    bool     `json:"ctx"`    // the caller's context has an entry "block"
	Global bool     `json:"global"` // the set's globals have one
	Items  []string `json:"items"`  // body of the child's override of block outer
	Mid    bool     `json:"mid"`    // an intermediate level that overrides outer as well
}

func (cs *c08BlockName) files() map[string]string {
	var sb strings.Builder
	for i, it := range cs.Items {
		switch it {
		case "read":
			sb.WriteString("[{{ block.Super }}]")
		case "fresh":
			sb.WriteString(fmt.Sprintf("{%% block f%d %%}<{{ block.Super }}>{%% endblock %%}", i))
		case "fresh-noread":
			sb.WriteString(fmt.Sprintf("{%% block f%d %%}in{%% endblock %%}", i))
		case "redefine":
			sb.WriteString("{% block n1 %}<{{ block.Super }}>{% endblock %}")
		case "with":
			sb.WriteString("{% with q=1 %}[{{ block.Super }}]{% endwith %}")
		case "for":
			sb.WriteString(`{% for i in "ab" %}[{{ block.Super }}]{% endfor %}`)
		case "if":
			sb.WriteString(`{% if block.Super %}Y{% else %}N{% endif %}`)
		}
	}
	files := map[string]string{
		"/base.tpl":  "{{ block.Super }}|{% block outer %}BO{% endblock %}|{% block n1 %}BN1{% endblock %}|{{ block.Super }}",
		"/mid.tpl":   `{% extends "/base.tpl" %}{% block outer %}M({{ block.Super }}){% endblock %}`,
		"/child.tpl": `{% extends "/base.tpl" %}{% block outer %}` + sb.String() + `{% endblock %}`,
	}
	if cs.Mid {
		files["/child.tpl"] = `{% extends "/mid.tpl" %}{% block outer %}` + sb.String() + `{% endblock %}`
	}
	return files
}

func checkC08BlockName(c any, r *Rec) error {
	cs := c.(*c08BlockName)
	files := cs.files()
	set := pongo2.NewSet("c08block", newMemLoader(files))
	if cs.Global {
		set.Globals["block"] = map[string]string{"Super": "GLB"}
	}
	outside := ""
	if cs.Global {
		outside = "GLB"
	}
	if cs.Ctx {
		outside = "CTX"
	}
	sup := "BO"
	if cs.Mid {
		sup = "M(BO)"
	}
	var body strings.Builder
	n1 := "BN1"
	redefs := 0
	for _, it := range cs.Items {
		switch it {
		case "read", "with":
			body.WriteString("[" + sup + "]")
		case "fresh":
			body.WriteString("<>")
		case "fresh-noread":
			body.WriteString("in")
		case "redefine":
			body.WriteString("<BN1>")
			n1 = "<BN1>"
			redefs++
		case "for":
			body.WriteString("[" + sup + "][" + sup + "]")
		case "if":
			body.WriteString("Y")
		}
	}
	if redefs > 1 {
		return skipf("one block defined twice in a template is a compile error")
	}
	want := outside + "|" + body.String() + "|" + n1 + "|" + outside
	tpl, err := set.FromFile("/child.tpl")
	if err != nil {
		return fmt.Errorf("%q does not compile: %v", files["/child.tpl"], err)
	}
	for round := 0; round < 2; round++ {
		ctx := pongo2.Context{}
		if cs.Ctx {
			ctx["block"] = map[string]string{"Super": "CTX"}
		}
		got, xerr := tpl.Execute(ctx)
		if xerr != nil {
			return fmt.Errorf("%q: unexpected error %v", files["/child.tpl"], xerr)
		}
		if got != want {
			return fmt.Errorf("the name block inside a block is the tag's (block.Super = the parent's rendering), outside it the context's / the globals': %q over %q (context entry %v, global %v) rendered %q, want %q (render %d)",
				files["/child.tpl"], files["/base.tpl"], cs.Ctx, cs.Global, got, want, round+1)
		}
	}
	reads := 0
	for i, it := range cs.Items {
		if (it == "read" || it == "with" || it == "for" || it == "if") && i > 0 {
			reads++
		}
	}
	if reads > 0 && (cs.Ctx || cs.Global) {
		r.NonTrivial(fmt.Sprintf("%v|%v|%v|%v", cs.Items, cs.Ctx, cs.Global, cs.Mid))
	}
	return nil
}

var _ = register(&propSpec{
	ID:   "C08.blockname",
	Rule: "the name block, bound by the block tag: a child's override of a block whose body mixes reads of block.Super (printed, inside with, inside for, tested by if) with nested blocks (fresh ones reading their own - empty - Super or not, and a re-definition of a block the base defines at top level), optionally over an intermediate level overriding the same block; the caller's context and / or the set's globals may hold an entry named block. Every read inside the block must show the parent's rendering wherever it stands in the body; the base's reads outside any block see the context entry, else the global, else nothing. Rendered twice. Non-trivial: a read that follows another item, with a context entry or global of that name.",
	Gen: func(t *rapid.T) any {
		cs := &c08BlockName{Ctx: drawBool(t, "ctx"), Global: drawBool(t, "global"), Mid: drawBool(t, "mid")}
		n := drawInt(t, 1, 5, "n")
		for i := 0; i < n; i++ {
			cs.Items = append(cs.Items, pick(t, "item", []string{"read", "read", "fresh", "fresh-noread", "redefine", "with", "for", "if"}))
		}
		return cs
	},
	New:   func() any { return &c08BlockName{} },
	Check: checkC08BlockName,
})

func TestC08BlockName(t *testing.T) { runProp(t, "C08.blockname") }
