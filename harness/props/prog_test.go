package props

// Random *valid* template programs over the whole deterministic tag/filter
// vocabulary, used by the differential properties (C04, C05, C14, C01 layer c).
// The generator emits source text directly; no reference semantics is needed
// because those properties compare the engine with itself along two routes.

import (
	"errors"
	"fmt"
	"strconv"
	"strings"
	"sync"

	"github.com/flosch/pongo2/v6"
	"pgregory.net/rapid"
)

type Program struct {
	Files map[string]string `json:"files"` // virtual files (helpers + entry when FromFile is used)
	Entry string            `json:"entry"` // name of the root file in Files
}

type progOpts struct {
	ticks      bool // sprinkle {{ tick() }} calls
	includes   bool // include / import / extends-free composition through helper files
	inherit    bool // root may extend a base with blocks
	maxDepth   int
	maxNodes   int
	errProne   bool // allow constructs that often fail at run time (1/zero, wrong calls)
	stateful   bool // cycle / ifchanged (subject to excludes)
	nondeterm  bool // now without fake, lorem random, random filter (C01 only)
	taint      bool // C02: no opt-outs of autoescaping, template text and literals free of < > & ' "
	allFilters bool // draw filter names from the registry (hook) instead of the curated lists
}

type progGen struct {
	t      *rapid.T
	o      progOpts
	nodes  int
	scope  []string // names bound by enclosing constructs
	macros []string // macros defined so far (name:arity)
	inLoop int
	files  map[string]string
	n      int
}

// context vocabulary (see progContext)
var progScalars = []string{"name", "n", "zero", "flag", "ratio", "title", "empty", "html", "obj.Name", "obj.Count", "m.a", "m.b", "items.0", "words.1", "nested.inner.x"}
var progLists = []string{"items", "words", "nums", "emptylist", "name", "pairs"}
var progMaps = []string{"m", "counts"}

var progFiltersNoArg = []string{"upper", "lower", "capfirst", "title", "length", "first", "last", "escape", "e", "safe", "striptags", "urlencode",
	"iriencode", "addslashes", "escapejs", "wordcount", "linebreaks", "linebreaksbr", "linenumbers", "make_list", "phone2numeric", "integer", "float",
	"floatformat", "pluralize", "yesno", "urlize", "default_if_none"}

var progFiltersArg = map[string][]string{
	"add": {"1", "n", `"x"`, "ratio"}, "cut": {`"a"`, `" "`}, "default": {`"d"`, "n"}, "default_if_none": {`"none"`},
	"divisibleby": {"2", "3"}, "get_digit": {"1", "2"}, "join": {`", "`, `""`}, "length_is": {"3", "0"}, "ljust": {"8", "n"},
	"rjust": {"8"}, "center": {"9"}, "slice": {`"1:3"`, `":2"`, `"-2:"`}, "split": {`" "`, `","`}, "stringformat": {`"%v"`, `"%5v"`},
	"truncatechars": {"5", "3"}, "truncatewords": {"2"}, "truncatechars_html": {"7"}, "truncatewords_html": {"2"}, "wordwrap": {"2"},
	"floatformat": {"2", "0", "n"}, "pluralize": {`"y,ies"`}, "yesno": {`"ja,nein"`}, "removetags": {`"b,i"`}, "urlizetrunc": {"12"},
	"date": {`"2006-01-02"`}, "time": {`"15:04"`},
}

func (g *progGen) drawInt(lo, hi int, l string) int { return drawInt(g.t, lo, hi, l) }
func (g *progGen) chance(n int, l string) bool      { return drawInt(g.t, 0, n-1, l) == 0 }

func (g *progGen) name() string {
	pool := append([]string{}, progScalars...)
	pool = append(pool, g.scope...)
	return pick(g.t, "name", pool)
}

// atomNoCall: a filter parameter (the grammar allows a variable or literal there)
func (g *progGen) atomNoCall() string {
	switch g.drawInt(0, 3, "pk") {
	case 0:
		return fmt.Sprint(g.drawInt(0, 12, "pint"))
	case 1:
		return pick(g.t, "pstr", []string{`"lit"`, `","`, `"1:2"`, `"a,b"`, `""`})
	}
	return g.name()
}

func (g *progGen) atom() string {
	switch g.drawInt(0, 9, "atom") {
	case 0:
		return fmt.Sprint(g.drawInt(0, 12, "int"))
	case 1:
		if g.o.taint {
			return pick(g.t, "strlit", []string{`"lit"`, `'s'`, `"a b"`, `""`})
		}
		return pick(g.t, "strlit", []string{`"lit"`, `'s'`, `"a b"`, `""`, `"<i>"`, `"q\"q"`})
	case 2:
		if g.chance(3, "arr") {
			return pick(g.t, "arrlit", []string{"[name, 1]", "[name]|first", "[title, name]|last", "[html]|join:\", \""})
		}
		return pick(g.t, "kw", []string{"true", "false", "1.5", "nothing", "forloop.Counter"})
	case 3:
		if g.o.ticks && g.chance(2, "tickatom") {
			return "tick()"
		}
		return pick(g.t, "call", []string{`greet("x")`, "obj.Greeting()", "obj.Greeting", "twice(n)", "obj.Hello(name)", `sum(1, 2, 3)`, "valfn(name)", `ctxjoin(name, "x", 3)`, `ctxsum(1, 2, 3, 4, n)`, `ctxsum(n)`, `ctxjoin(title, name, n)`})
	case 4:
		if g.o.errProne && g.chance(3, "bad") {
			return pick(g.t, "badcall", []string{"n / zero", "greet()", "obj.Nope.x", "fails(0)", "n.x", `greet(1)`, "name.0.0.0", "fails(1)"})
		}
		return g.name()
	default:
		return g.name()
	}
}

var progOptOutFilters = map[string]bool{"safe": true, "truncatechars_html": true, "truncatewords_html": true}

func (g *progGen) filtered(x string) string {
	n := g.drawInt(0, 2, "nfilters")
	for i := 0; i < n; i++ {
		if g.o.allFilters && g.chance(2, "regfilter") {
			f := pick(g.t, "anyfilter", pongo2.VerifRegisteredFilters())
			if g.o.taint && progOptOutFilters[f] || !g.o.nondeterm && f == "random" {
				continue
			}
			x += "|" + f
			if g.chance(2, "regparam") {
				x += ":" + g.atomNoCall()
			}
			continue
		}
		if g.chance(2, "argf") {
			names := sortedFilterArgNames
			f := pick(g.t, "farg", names)
			if (f == "date" || f == "time") && !g.chance(4, "datef") {
				continue
			}
			if g.o.taint && progOptOutFilters[f] {
				continue
			}
			x += "|" + f + ":" + pick(g.t, "fargv", progFiltersArg[f])
		} else {
			f := pick(g.t, "fnoarg", progFiltersNoArg)
			if g.o.nondeterm && g.chance(6, "rnd") {
				f = "random"
			}
			if g.o.taint && progOptOutFilters[f] {
				continue
			}
			x += "|" + f
		}
	}
	return x
}

var sortedFilterArgNames = func() []string {
	m := map[string]int{}
	for k := range progFiltersArg {
		m[k] = 1
	}
	return sortedKeysOf(m)
}()

func (g *progGen) expr(depth int) string {
	if depth <= 0 || g.chance(2, "simple") {
		return g.filtered(g.atom())
	}
	op := pick(g.t, "op", []string{"+", "-", "*", "==", "!=", "<", ">=", "and", "or", "in", "+", "%", "/"})
	l, r := g.expr(depth-1), g.expr(depth-1)
	if (op == "/" || op == "%") && !g.o.errProne {
		r = fmt.Sprint(g.drawInt(1, 5, "div"))
	}
	if op == "in" {
		r = pick(g.t, "inr", append([]string{`"abc"`, "[1, 2, n]"}, progLists...))
	}
	s := l + " " + op + " " + r
	if op == "in" {
		s = "(" + s + ")" // "a in b == c" is not in the grammar
	} else if g.chance(3, "paren") {
		s = "(" + s + ")"
	}
	if g.chance(8, "not") {
		s = "(not " + "(" + s + "))"
	}
	return s
}

func (g *progGen) text() string {
	if g.o.taint {
		return pick(g.t, "text", []string{"T", " ", "\n", "a b", "  x\n", "é", "[", "]", ".", "\n\n", "\t", "}", "-", "%"})
	}
	return pick(g.t, "text", []string{"T", " ", "\n", "a b", "<p>", "</p>", "  x\n", "é", "[", "]", ".", "\n\n", "\t", "<b> </b>", "}", "-", "%"})
}

func (g *progGen) body(depth int) string {
	n := g.drawInt(0, 3, "bodylen")
	var sb strings.Builder
	for i := 0; i < n && g.nodes < g.o.maxNodes; i++ {
		sb.WriteString(g.node(depth))
	}
	return sb.String()
}

func (g *progGen) withScope(names []string, f func() string) string {
	old := len(g.scope)
	g.scope = append(g.scope, names...)
	s := f()
	g.scope = g.scope[:old]
	return s
}

func (g *progGen) trim() (string, string) {
	// occasional '-' markers
	l, r := "{%", "%}"
	if g.chance(12, "trimL") {
		l = "{%-"
	}
	if g.chance(12, "trimR") {
		r = "-%}"
	}
	return l, r
}

func (g *progGen) node(depth int) string {
	g.nodes++
	kinds := []string{"text", "text", "var", "var", "var", "if", "for", "with", "set", "macro", "include", "cycle", "ifchanged", "ifequal", "firstof",
		"filter", "autoescape", "spaceless", "comment", "verbatim", "templatetag", "widthratio", "lorem", "now", "tick", "import", "ssi", "block", "masked", "recycle"}
	k := pick(g.t, "kind", kinds)
	if g.o.ticks && g.chance(4, "moretick") {
		k = "tick"
	}
	if depth <= 0 && k != "text" && k != "tick" {
		k = "var"
	}
	o, c := g.trim()
	switch k {
	case "text":
		return g.text()
	case "masked":
		// nondeterministic constructs whose output is masked by a deterministic observation,
		// so that deterministic programs still run that code
		return pick(g.t, "masked", []string{"{% filter wordcount %}{% lorem 4 w random %}{% endfilter %}", "{{ words|random|length_is:99 }}", "{{ nums|random|divisibleby:1 }}",
			"{% filter length_is:0 %}{% now \"2006\" %}{% endfilter %}", "{% if items|random %}r{% endif %}", "{% filter wordcount %}{% lorem 7 w random %}{% endfilter %}", "{% lorem 3 w %}", "{% lorem 2 b %}"})
	case "recycle":
		// advance a named cycle defined earlier
		for _, v := range g.scope {
			if strings.HasPrefix(v, "cy") && g.o.stateful && !excluded("tag:cycle") {
				return "{% cycle " + v + " %}"
			}
		}
		return g.text()
	case "tick":
		if g.o.ticks {
			return "{{ tick() }}"
		}
		return g.text()
	case "var":
		vo, vc := "{{", "}}"
		if g.chance(14, "vtl") {
			vo = "{{-"
		}
		if g.chance(14, "vtr") {
			vc = "-}}"
		}
		return vo + " " + g.expr(2) + " " + vc
	case "if":
		s := o + " if " + g.expr(2) + " " + c + g.body(depth-1)
		for i := g.drawInt(0, 2, "elifs"); i > 0; i-- {
			s += "{% elif " + g.expr(1) + " %}" + g.body(depth-1)
		}
		if g.chance(2, "else") {
			s += "{% else %}" + g.body(depth-1)
		}
		return s + "{% endif %}"
	case "for":
		g.n++
		v := fmt.Sprintf("it%d", g.n)
		src := pick(g.t, "forsrc", progLists)
		hdr := v + " in " + src
		bound := []string{v, "forloop.Counter", "forloop.Last", "forloop.Revcounter0"}
		if g.chance(4, "formap") {
			k2 := fmt.Sprintf("k%d", g.n)
			hdr = k2 + ", " + v + " in " + pick(g.t, "formapsrc", progMaps)
			if !g.o.nondeterm {
				hdr += " sorted"
			}
			bound = append(bound, k2)
		} else {
			if g.chance(3, "lit") {
				hdr = v + " in " + pick(g.t, "forlit", []string{"[1, 2, 3]", `["a", name]`, `"héllo"`, "[]", "nothing", "n"})
			}
			if g.chance(4, "rev") {
				hdr += " reversed"
			}
			if g.chance(5, "sorted") {
				hdr += " sorted"
			}
		}
		if g.inLoop > 0 {
			bound = append(bound, "forloop.Parentloop.Counter")
		}
		g.inLoop++
		s := o + " for " + hdr + " " + c + g.withScope(bound, func() string { return g.body(depth - 1) })
		g.inLoop--
		if g.chance(3, "empty") {
			s += "{% empty %}" + g.body(depth-1)
		}
		return s + "{% endfor %}"
	case "with":
		g.n++
		v := fmt.Sprintf("w%d", g.n)
		hdr := v + "=" + g.expr(1)
		if g.chance(3, "old") {
			hdr = g.expr(1) + " as " + v
		}
		return o + " with " + hdr + " " + c + g.withScope([]string{v}, func() string { return g.body(depth - 1) }) + "{% endwith %}"
	case "set":
		g.n++
		v := fmt.Sprintf("s%d", g.n)
		s := "{% set " + v + " = " + g.expr(1) + " %}"
		g.scope = append(g.scope, v) // visible to what follows at this level (approximation is fine: unknown names are empty)
		return s
	case "macro":
		g.n++
		m := fmt.Sprintf("mac%d", g.n)
		def := "{% macro " + m + "(a, b=" + g.atom() + ") %}" + g.withScope([]string{"a", "b"}, func() string { return g.body(depth - 1) }) + "{% endmacro %}"
		call := "{{ " + m + "(" + g.atom()
		if g.chance(2, "arg2") {
			call += ", " + g.atom()
		}
		call += ")"
		if g.chance(3, "callfilter") {
			// a macro result is markup; what a filter mixes into it is not
			call += "|" + pick(g.t, "cf", []string{"add:name", "add:html", "default:name", "cut:name", "center:20|add:title", "upper"})
		}
		call += " }}"
		if g.chance(3, "callplus") {
			// an operator that mixes markup of the template with caller data gives caller data
			call += "{{ " + m + "(" + g.atom() + ") + " + pick(g.t, "cp", []string{"name", "html", "title"}) + " }}{{ " + pick(g.t, "cp2", []string{"name", "html"}) + " + " + m + "(1) }}"
		}
		if g.chance(4, "setcall") {
			g.n++
			v := fmt.Sprintf("mr%d", g.n)
			call += "{% set " + v + " = " + m + "(" + g.atom() + ") %}{{ " + v + "|add:name }}{{ " + v + " }}"
		}
		return def + call
	case "include":
		if !g.o.includes {
			return g.text()
		}
		name := g.helper(depth - 1)
		switch g.drawInt(0, 4, "incl") {
		case 0:
			return `{% include "` + name + `" %}`
		case 1:
			return `{% include "` + name + `" with x=` + g.expr(1) + ` %}`
		case 2:
			return `{% include "` + name + `" with x=` + g.expr(1) + ` only %}`
		case 3:
			if g.chance(2, "maybe") {
				return `{% include maybeinc if_exists %}` // lazy; exists only in some contexts
			}
			return `{% include incname %}` // lazy; incname is a context value naming a helper file
		default:
			return `{% include "/missing.tpl" if_exists %}`
		}
	case "import":
		if !g.o.includes {
			return g.text()
		}
		return `{% import "/macros.tpl" imp_box, imp_row as row %}{{ imp_box(` + g.atom() + `) }}{{ row(` + g.atom() + `, 2) }}`
	case "ssi":
		if !g.o.includes {
			return g.text()
		}
		if g.chance(2, "parsed") {
			return `{% ssi "/part.tpl" parsed %}`
		}
		return `{% ssi "/plain.txt" %}`
	case "cycle":
		if !g.o.stateful || excluded("tag:cycle") {
			return g.text()
		}
		s := "{% cycle " + g.atom() + " " + g.atom()
		if g.chance(3, "third") {
			s += " " + g.atom()
		}
		if g.chance(4, "as") {
			g.n++
			v := fmt.Sprintf("cy%d", g.n)
			s += " as " + v
			if g.chance(2, "silent") {
				s += " silent"
			}
			g.scope = append(g.scope, v)
		}
		return s + " %}"
	case "ifchanged":
		if !g.o.stateful || excluded("tag:ifchanged") {
			return g.text()
		}
		if g.chance(4, "nestedifchanged") {
			// two argument-less ifchanged tags, one inside the other, each in a loop of its own (lists
			// with repeated elements): each compares with what IT rendered last time
			// (outer elements repeat and differ in length, the inner loop ends on the same text every time)
			return "{% for oa in " + pick(g.t, "icl1", []string{"items", "nums", "words", `["a", "a", "ccc", "ccc", "b"]`, `["bb", "bb", "c", "dddd", "dddd"]`, `["", "", "xyz"]`}) +
				" %}{% ifchanged %}({{ oa }}{% for ob in " + pick(g.t, "icl2", []string{"items", "nums", "words", `["x"]`, `["x", "y"]`, `"q"`}) +
				" %}{% ifchanged %}{{ ob }}{% endifchanged %}{% endfor %}){% endifchanged %}{% endfor %}"
		}
		s := "{% ifchanged"
		if g.chance(2, "watch") {
			s += " " + g.atom()
		}
		s += " %}" + g.body(depth-1)
		if g.chance(3, "icelse") && strings.Contains(s, "ifchanged ") {
			s += "{% else %}" + g.body(depth-1)
		}
		return s + "{% endifchanged %}"
	case "ifequal":
		tag := pick(g.t, "ieq", []string{"ifequal", "ifnotequal"})
		s := "{% " + tag + " " + g.atom() + " " + g.atom() + " %}" + g.body(depth-1)
		if g.chance(2, "ieelse") {
			s += "{% else %}" + g.body(depth-1)
		}
		return s + "{% end" + tag + " %}"
	case "firstof":
		return "{% firstof " + g.atom() + " " + g.atom() + " " + g.filtered(g.atom()) + " %}"
	case "filter":
		if g.o.taint {
			// only filters that neither create markup nor cut entities; body prints scalars only
			f := pick(g.t, "ftag", []string{"upper", "lower|capfirst", "title", "ljust:8", "upper|center:12", "linenumbers",
				// parameters that come from the context
				"add:name", "default:html", "upper|add:title", "add:st_struct", "yesno:name", "pluralize:name", "add:obj.Name"})
			body := g.text() + "{{ " + g.name() + " }}" + g.text()
			return "{% filter " + f + " %}" + body + "{% endfilter %}"
		}
		f := pick(g.t, "ftag", []string{"upper", "lower|capfirst", "truncatechars:9", "escape", "striptags|upper", "cut:\"a\"", "linebreaksbr", "safe", "title"})
		return "{% filter " + f + " %}" + g.body(depth-1) + "{% endfilter %}"
	case "autoescape":
		mode := pick(g.t, "ae", []string{"on", "off"})
		if g.o.taint {
			mode = "on"
		}
		return "{% autoescape " + mode + " %}" + g.body(depth-1) + "{% endautoescape %}"
	case "spaceless":
		if g.o.taint || g.chance(3, "plainbody") {
			return "{% spaceless %}" + g.body(depth-1) + "{% endspaceless %}"
		}
		// a body that gives the tag something to do: HTML tags, whitespace between them, and
		// nodes in between (which may fail half way through the body)
		var sb strings.Builder
		for i, n := 0, g.drawInt(2, 6, "slparts"); i < n && g.nodes < g.o.maxNodes; i++ {
			switch g.drawInt(0, 3, "slpart") {
			case 0, 1:
				sb.WriteString(pick(g.t, "sltag", []string{"<p>", "</p>", "<li>", "<b>", "</b>", "<br/>"}))
				sb.WriteString(pick(g.t, "slws", []string{" ", "\n", "  \t", "", " \n "}))
			default:
				sb.WriteString(g.node(depth - 1))
			}
		}
		return "{% spaceless %}" + sb.String() + "{% endspaceless %}"
	case "comment":
		if g.chance(2, "hash") {
			return "{# " + pick(g.t, "cm", []string{"note", "{{ x }}", "{% if %}"}) + " #}"
		}
		return "{% comment %}" + pick(g.t, "cm2", []string{"c", "{{ tick() }}", "{% nosuch %}"}) + "{% endcomment %}"
	case "verbatim":
		return "{% verbatim %}" + pick(g.t, "vb", []string{"{{ raw }}", "", "{% x %}", "v"}) + "{% endverbatim %}"
	case "templatetag":
		return "{% templatetag " + pick(g.t, "tt", c06TTNames) + " %}"
	case "widthratio":
		s := "{% widthratio " + g.atom() + " " + pick(g.t, "wrmax", []string{"10", "n", "3"}) + " 100"
		if g.chance(3, "wras") {
			g.n++
			v := fmt.Sprintf("wr%d", g.n)
			g.scope = append(g.scope, v)
			return s + " as " + v + " %}"
		}
		return s + " %}"
	case "lorem":
		methods := []string{"w", "p", "b"}
		if g.o.taint {
			methods = []string{"w", "b"} // "p" writes <p> tags of its own
		}
		s := "{% lorem " + fmt.Sprint(g.drawInt(0, 4, "lcount")) + " " + pick(g.t, "lm", methods)
		if g.o.nondeterm && g.chance(3, "lrand") {
			s += " random"
		}
		return s + " %}"
	case "now":
		if g.o.nondeterm && g.chance(2, "realnow") {
			return `{% now "2006" %}`
		}
		return `{% now "2006-01-02 15:04" fake %}`
	case "block":
		g.n++
		return fmt.Sprintf("{%% block blk%d %%}", g.n) + g.body(depth-1) + "{% endblock %}"
	}
	return g.text()
}

// helper creates (once per call) an included file with its own small body
func (g *progGen) helper(depth int) string {
	g.n++
	name := fmt.Sprintf("/inc/h%d.tpl", g.n)
	if g.chance(3, "reldir") {
		name = fmt.Sprintf("/inc/sub/h%d.tpl", g.n)
	}
	saved := g.scope
	g.scope = []string{"x"}
	if depth > 2 {
		depth = 2
	}
	g.files[name] = "[" + g.body(depth) + "{{ x }}]"
	g.scope = saved
	return name
}

func progFixedFiles() map[string]string {
	return map[string]string{
		"/macros.tpl": `{% macro imp_box(v) export %}[{{ v }}{{ name }}]{% endmacro %}{% macro imp_row(a, b=n) export %}({{ a }}:{{ b }}){% endmacro %}`,
		"/part.tpl":   `part[{{ name }}|{{ n }}{{ opt }}]`, // (opt: a context entry only some executions have)
		"/plain.txt":  `plain {{ not_evaluated }} text`,
		"/lazy.tpl":   `lazy[{{ name|upper }}{% for i in nums %}{{ i }}{% endfor %}{{ opt }}]`,
	}
}

func genProgram(t *rapid.T, o progOpts) *Program { return genProgramWith(t, o, nil) }

// genProgramWith: extraNames are additional context names the program may mention
func genProgramWith(t *rapid.T, o progOpts, extraNames []string) *Program {
	if o.maxDepth == 0 {
		o.maxDepth = 4
	}
	if o.maxNodes == 0 {
		o.maxNodes = 40
	}
	g := &progGen{t: t, o: o, files: progFixedFiles(), scope: append([]string{}, extraNames...)}
	n := drawInt(t, 1, 6, "rootlen")
	var sb strings.Builder
	for i := 0; i < n && g.nodes < o.maxNodes; i++ {
		sb.WriteString(g.node(o.maxDepth))
	}
	root := sb.String()
	if o.inherit && drawInt(t, 0, 3, "inh") == 0 {
		// whitespace next to the block tags, so that TrimBlocks / LStripBlocks matter in the parent too
		g.files["/base.tpl"] = "BASE[\n  {% block content %}\n\nbase-content{{ name }}{% for w in words %}{{ w }}{% endfor %}{% endblock %}\n\n|\t{% block side %}\n {{ name }}{% endblock %}\n]" + g.text()
		over := "{% block content %}" + root + "{% if flag %}{{ block.Super }}{% else %}{{ block.Super|add:name }}{% endif %}{{ block.Super + name }}{{ html + block.Super }}{% endblock %}"
		// blocks generated inside root are nested in 'content': fine (fresh names)
		if o.includes && drawInt(t, 0, 2, "sibling") == 0 {
			// another child of the same parent, pulled in by a name computed at run time (so it is
			// compiled while the root, a child of that parent too, is being executed)
			g.files["/kid.tpl"] = `{% extends "/base.tpl" %}{% block side %}kid-side{{ n }}{% endblock %}`
			over += `{% block sibling %}({% include kidname %}){% endblock %}`
			g.files["/base.tpl"] += "{% block sibling %}{% endblock %}"
		}
		root = `{% extends "/base.tpl" %}` + over
	}
	g.files["/root.tpl"] = root
	return &Program{Files: g.files, Entry: "/root.tpl"}
}

// ---------------------------------------------------------------------------
// contexts for generated programs

type progObj struct {
	Name  string
	Count int
	Tags  []string
	priv  int //nolint:unused
}

func (o progObj) Greeting() string      { return "hi " + o.Name }
func (o progObj) Hello(s string) string { return "hello " + s }
func (o *progObj) PtrMethod() string    { return "ptr" }

// the same name carries values of different Go types in different contexts
// (struct with methods, map with the same keys, pointer to struct)
func progObjVariant(variant int) any {
	switch variant % 4 {
	case 1:
		return map[string]any{"Name": "M" + fmt.Sprint(variant), "Count": variant, "Greeting": "map-greeting", "Hello": "map-hello"}
	case 3:
		return &progObj{Name: "P" + fmt.Sprint(variant), Count: -variant}
	}
	return progObj{Name: "O" + fmt.Sprint(variant), Count: variant, Tags: []string{"t1", "t2"}}
}

var errInjected = errors.New("injected fault")

type tickState struct {
	mu     sync.Mutex
	calls  int
	failAt int  // 1-based; 0 = never
	panics bool // the failing call panics instead of returning an error
}

func (ts *tickState) tick() (string, error) {
	ts.mu.Lock()
	defer ts.mu.Unlock()
	ts.calls++
	if ts.failAt > 0 && ts.calls == ts.failAt {
		if ts.panics {
			panic("tick: caller-supplied function panics")
		}
		return "", errInjected
	}
	return fmt.Sprintf("<t%d>", ts.calls), nil
}

// progContext builds variant v of the standard context. Every call returns
// fresh values (no sharing between executions).
func progContext(variant int, ts *tickState) pongo2.Context {
	names := []string{"World", "<b>Bob</b>", "", "émile & co"}
	ctx := pongo2.Context{
		"name":      names[variant%len(names)],
		"n":         []int{3, 0, 7, -2}[variant%4],
		"zero":      0,
		"flag":      variant%2 == 0,
		"ratio":     []float64{2.5, 0, -0.75}[variant%3],
		"title":     "the quick brown fox",
		"empty":     "",
		"html":      "<i>x</i> & 'y'",
		"obj":       progObjVariant(variant),
		"pobj":      &progObj{Name: "P"},
		"m":         map[string]any{"a": 1, "b": "two", "c": []int{1, 2}},
		"counts":    map[string]int{"x": 1, "y": variant, "z": 3},
		"items":     [][]string{{"a", "b", "c"}, {}, {"b", "b", "a", "c"}}[variant%3],
		"words":     []string{"alpha", "beta", "gamma"},
		"nums":      [][]int{{1, 2, 3}, {5}, {2, 2, 1, 3, 3}}[variant%3],
		"emptylist": []int{},
		"pairs":     []any{1, "two", 3.5, nil},
		"nested":    map[string]any{"inner": map[string]any{"x": "deep"}},
		"incname":   []string{"/lazy.tpl", "/lazy.tpl", "/part.tpl"}[variant%3],
		"kidname":   "/kid.tpl",
		"maybeinc":  []string{"/nosuch.tpl", "/lazy.tpl", "/part.tpl", "/nosuch2.tpl"}[variant%4],
		"greet":     func(s string) string { return "hey " + s },
		"twice":     func(i int) int { return 2 * i },
		"sum": func(xs ...int) int {
			t := 0
			for _, x := range xs {
				t += x
			}
			return t
		},
		"valfn": func(v *pongo2.Value) *pongo2.Value { return pongo2.AsValue(v.String() + "!") },
		// functions that take the execution context as an implicit first argument
		"ctxjoin": func(ctx *pongo2.ExecutionContext, a, b string, n int) string {
			return a + "+" + b + "+" + strconv.Itoa(n)
		},
		"ctxsum": func(ctx *pongo2.ExecutionContext, xs ...int) int {
			t := 0
			for _, x := range xs {
				t += x
			}
			if ctx == nil {
				return -1
			}
			return t
		},
		"fails": func(i int) (int, error) {
			if i == 0 {
				return 0, errors.New("fails(0)")
			}
			return i, nil
		},
		"when": zTime,
	}
	if ts != nil {
		ctx["tick"] = ts.tick
	} else {
		ctx["tick"] = func() (string, error) { return "<t>", nil }
	}
	return ctx
}

// compileProgram compiles the entry file of a program in a fresh set.
func compileProgram(p *Program, trim, lstrip bool) (*pongo2.TemplateSet, *pongo2.Template, *memLoader, error) {
	ld := newMemLoader(copyFiles(p.Files))
	set := pongo2.NewSet("prog", ld)
	set.Options.TrimBlocks = trim
	set.Options.LStripBlocks = lstrip
	set.Globals["gonly"] = "only a global" // a global that no context has
	tpl, err := set.FromFile(p.Entry)
	return set, tpl, ld, err
}

func copyFiles(m map[string]string) map[string]string {
	out := make(map[string]string, len(m))
	for k, v := range m {
		out[k] = v
	}
	return out
}
