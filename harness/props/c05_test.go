package props

// C05: one compiled template can be executed from many goroutines at once.
// Run under the race detector (GORACE=halt_on_error=1): a race report kills
// the worker; the write-ahead journal names the workload.

import (
	"fmt"
	"strings"
	"sync"
	"sync/atomic"
	"testing"

	pongo2 "github.com/flosch/pongo2/v6"
	"pgregory.net/rapid"
)

type c05Case struct {
	Prog     *Program `json:"prog"`
	Trim     bool     `json:"trim"`
	LStrip   bool     `json:"lstrip"`
	K        int      `json:"goroutines"`
	Reps     int      `json:"reps"`
	Variants []int    `json:"variants"` // context variant per goroutine
	Fetchers int      `json:"fetchers"` // goroutines that call FromCache/FromFile on the same set meanwhile
	FailAt   int      `json:"fail_at"`  // some goroutines run with an injected fault
	// SharedCtx: all goroutines pass the very same Context map (execution never writes to it - C12 -
	// so that is as legitimate as sharing the template)
	SharedCtx bool `json:"shared_ctx,omitempty"`
}

func checkC05(c any, r *Rec) error {
	cs := c.(*c05Case)
	set, shared, _, err := compileProgram(cs.Prog, cs.Trim, cs.LStrip)
	if err != nil {
		return skipf("program does not compile: %v", err)
	}
	src := cs.Prog.Files[cs.Prog.Entry]
	// sequential reference on fresh compiles
	type res struct{ out, err string }
	want := map[string]res{}
	wantBlocks := map[string]res{}
	key := func(v, f int) string { return fmt.Sprintf("%d/%d", v, f) }
	for g := 0; g < cs.K; g++ {
		v := cs.Variants[g%len(cs.Variants)]
		f := 0
		if cs.FailAt > 0 && g%2 == 1 {
			f = cs.FailAt
		}
		if _, ok := want[key(v, f)]; ok {
			continue
		}
		_, fresh, _, err := compileProgram(cs.Prog, cs.Trim, cs.LStrip)
		if err != nil {
			return fmt.Errorf("second compilation failed: %v", err)
		}
		o, e := c04Exec(fresh, c04Step{Variant: v, FailAt: f, Entry: "Execute"})
		want[key(v, f)] = res{o, e}
		if _, fresh2, _, err := compileProgram(cs.Prog, cs.Trim, cs.LStrip); err == nil {
			o, e = c04Exec(fresh2, c04Step{Variant: v, FailAt: f, Entry: "ExecuteBlocks"})
			wantBlocks[key(v, f)] = res{o, e}
		}
	}
	var wg sync.WaitGroup
	start := make(chan struct{})
	var running, maxRunning int32
	var mu sync.Mutex
	var bad []string
	// (a stateless tick function: the shared map must not carry per-execution state of the harness)
	sharedCtx := progContext(cs.Variants[0], nil)
	var sharedWant res
	if cs.SharedCtx {
		_, fresh, _, err := compileProgram(cs.Prog, cs.Trim, cs.LStrip)
		if err != nil {
			return fmt.Errorf("second compilation failed: %v", err)
		}
		o, e := fresh.Execute(progContext(cs.Variants[0], nil))
		sharedWant = res{o, errText(e)}
	}
	for g := 0; g < cs.K; g++ {
		wg.Add(1)
		go func(g int) {
			defer wg.Done()
			v := cs.Variants[g%len(cs.Variants)]
			f := 0
			if cs.FailAt > 0 && g%2 == 1 {
				f = cs.FailAt
			}
			entries := []string{"Execute", "ExecuteBytes", "ExecuteWriter", "ExecuteWriterUnbuffered", "ExecuteBlocks"}
			<-start
			n := atomic.AddInt32(&running, 1)
			for {
				m := atomic.LoadInt32(&maxRunning)
				if n <= m || atomic.CompareAndSwapInt32(&maxRunning, m, n) {
					break
				}
			}
			for i := 0; i < cs.Reps; i++ {
				entry := entries[(g+i)%len(entries)]
				if cs.SharedCtx {
					o, err := shared.Execute(sharedCtx)
					if w := sharedWant; o != w.out || errText(err) != w.err {
						mu.Lock()
						bad = append(bad, fmt.Sprintf("goroutine %d rep %d (one Context map shared by all goroutines): got %q / %s, alone it gives %q / %s", g, i, o, errText(err), w.out, w.err))
						mu.Unlock()
						break
					}
					continue
				}
				o, e := c04Exec(shared, c04Step{Variant: v, FailAt: f, Entry: entry})
				w := want[key(v, f)]
				if entry == "ExecuteBlocks" {
					w = wantBlocks[key(v, f)]
				}
				if entry == "ExecuteWriterUnbuffered" && e != "<nil>" {
					o = w.out // partial output allowed
				}
				if o != w.out || e != w.err {
					mu.Lock()
					bad = append(bad, fmt.Sprintf("goroutine %d rep %d (%s, variant %d, fail_at %d): got %q / %s, alone it gives %q / %s", g, i, entry, v, f, o, e, w.out, w.err))
					mu.Unlock()
					break
				}
			}
			atomic.AddInt32(&running, -1)
		}(g)
	}
	for h := 0; h < cs.Fetchers; h++ {
		wg.Add(1)
		go func(h int) {
			defer wg.Done()
			<-start
			for i := 0; i < cs.Reps; i++ {
				var err error
				if (h+i)%2 == 0 {
					_, err = set.FromCache(cs.Prog.Entry)
				} else {
					_, err = set.FromFile(cs.Prog.Entry)
				}
				if err != nil {
					mu.Lock()
					bad = append(bad, fmt.Sprintf("fetcher %d: %v", h, err))
					mu.Unlock()
					return
				}
			}
		}(h)
	}
	close(start)
	wg.Wait()
	if len(bad) > 0 {
		return fmt.Errorf("concurrent execution differs from executing alone (TrimBlocks=%v LStripBlocks=%v, %d goroutines x %d):\n %s\n root=%q", cs.Trim, cs.LStrip, cs.K, cs.Reps, strings.Join(bad, "\n "), src)
	}
	r.Add("executions", cs.K*cs.Reps)
	if cs.Fetchers > 0 {
		r.Class("with-concurrent-fetch")
	}
	if strings.Contains(src, "include incname") {
		r.Class("lazy-include")
	}
	if atomic.LoadInt32(&maxRunning) >= 2 && strings.Contains(src, "{% end") {
		r.NonTrivial(fmt.Sprintf("%v|%v|%v|%d|%d|%v", cs.Prog.Files, cs.Trim, cs.LStrip, cs.K, cs.Reps, cs.Variants))
	}
	return nil
}

var _ = register(&propSpec{
	ID:    "C05.concurrent",
	Journ: true,
	Rule:  "C04's deterministic programs (single and multi-file, lazy includes, macros, blocks, cycle/ifchanged, both trim options) compiled once and executed by k=2-8 goroutines x 1-12 repetitions released together by a barrier, through all four entry points and ExecuteBlocks (in a quarter of the cases all goroutines pass one and the same Context map), some with injected faults, while 0-2 more goroutines call FromCache/FromFile on the same set; built with -race (GORACE=halt_on_error): a race report kills the worker and the journalled workload is confirmed in fresh processes; every concurrent result must equal the sequential fresh-compile reference. Non-trivial: >= 2 goroutines were inside Execute at the same time and the program has a tag with a body.",
	Gen: func(t *rapid.T) any {
		k := drawInt(t, 2, 8, "k")
		cs := &c05Case{
			Prog:     genProgram(t, progOpts{ticks: true, includes: true, inherit: true, stateful: true, errProne: drawInt(t, 0, 4, "errprone") == 0, maxDepth: 4, maxNodes: 30}),
			Trim:     drawBool(t, "trim"),
			LStrip:   drawBool(t, "lstrip"),
			K:        k,
			Reps:     drawInt(t, 1, 12, "reps"),
			Fetchers: drawInt(t, 0, 2, "fetchers"),
		}
		cs.SharedCtx = drawInt(t, 0, 3, "sharedctx") == 0
		nv := drawInt(t, 1, 3, "nvariants")
		for i := 0; i < nv; i++ {
			cs.Variants = append(cs.Variants, drawInt(t, 0, 11, "variant"))
		}
		if drawInt(t, 0, 2, "faulty") == 0 {
			cs.FailAt = drawInt(t, 1, 4, "failat")
		}
		return cs
	},
	New:   func() any { return &c05Case{} },
	Check: checkC05,
})

func TestC05Concurrent(t *testing.T) { runProp(t, "C05.concurrent") }

// ---- C05.raceonly: nondeterministic constructs (random filter, lorem random, now) -----------
// Their output cannot be compared with a sequential reference, but concurrent
// executions must still not touch shared memory without synchronisation.

func checkC05RaceOnly(c any, r *Rec) error {
	cs := c.(*c05Case)
	_, shared, _, err := compileProgram(cs.Prog, cs.Trim, cs.LStrip)
	if err != nil {
		return skipf("program does not compile: %v", err)
	}
	var wg sync.WaitGroup
	start := make(chan struct{})
	var running, maxRunning int32
	for g := 0; g < cs.K; g++ {
		wg.Add(1)
		go func(g int) {
			defer wg.Done()
			<-start
			n := atomic.AddInt32(&running, 1)
			for {
				m := atomic.LoadInt32(&maxRunning)
				if n <= m || atomic.CompareAndSwapInt32(&maxRunning, m, n) {
					break
				}
			}
			for i := 0; i < cs.Reps; i++ {
				_, _ = c04Exec(shared, c04Step{Variant: cs.Variants[g%len(cs.Variants)], Entry: []string{"Execute", "ExecuteBytes", "ExecuteWriter", "ExecuteWriterUnbuffered"}[(g+i)%4]})
			}
			atomic.AddInt32(&running, -1)
		}(g)
	}
	close(start)
	wg.Wait()
	src := cs.Prog.Files[cs.Prog.Entry]
	for _, f := range []string{"|random", " random ", `{% now "2006" %}`} {
		if strings.Contains(src, f) {
			r.Class("uses:" + strings.TrimSpace(f))
		}
	}
	if atomic.LoadInt32(&maxRunning) >= 2 && (strings.Contains(src, "random") || strings.Contains(src, `{% now "2006" %}`)) {
		r.NonTrivial(fmt.Sprintf("%v|%d|%d", cs.Prog.Files, cs.K, cs.Reps))
	}
	return nil
}

var _ = register(&propSpec{
	ID:    "C05.raceonly",
	Journ: true,
	Rule:  "programs that use the nondeterministic constructs (random filter on lists and strings, lorem ... random, now without fake) executed by 2-8 goroutines x 1-12 repetitions behind a barrier under the race detector; outputs are not compared (they legitimately differ), the oracle is the race detector alone. Non-trivial: >= 2 goroutines overlapped and the program contains such a construct.",
	Gen: func(t *rapid.T) any {
		cs := &c05Case{
			Prog: genProgram(t, progOpts{includes: true, inherit: true, stateful: true, nondeterm: true, maxDepth: 3, maxNodes: 25}),
			K:    drawInt(t, 2, 8, "k"), Reps: drawInt(t, 1, 12, "reps"), Variants: []int{drawInt(t, 0, 11, "variant")},
		}
		// make sure the interesting constructs are there
		extra := pick(t, "extra", []string{"{{ items|random }}", "{{ words|random }}{{ title|random }}", "{% lorem 3 w random %}", "{% lorem 2 p random %}", `{% now "2006" %}`, "{% for w in words %}{{ nums|random }}{% endfor %}"})
		cs.Prog.Files[cs.Prog.Entry] += extra
		return cs
	},
	New:   func() any { return &c05Case{} },
	Check: checkC05RaceOnly,
})

func TestC05RaceOnly(t *testing.T) { runProp(t, "C05.raceonly") }

// ---- C05.coldset: the first compilations on a set happen concurrently --------------------------
// "compile or fetch templates from the same set at the same time" includes the very first
// moment of a set: nothing has been compiled yet and k goroutines ask at once.

type c05ColdCase struct {
	Prog    *Program `json:"prog"`
	Trim    bool     `json:"trim"`
	LStrip  bool     `json:"lstrip"`
	Ops     []string `json:"ops"` // one per goroutine: FromFile | FromCache | FromString | FromBytes | RenderTemplateFile
	Variant int      `json:"variant"`
}

func checkC05Cold(c any, r *Rec) error {
	cs := c.(*c05ColdCase)
	_, ref, _, err := compileProgram(cs.Prog, cs.Trim, cs.LStrip)
	if err != nil {
		return skipf("program does not compile: %v", err)
	}
	wantOut, wantErr := c04Exec(ref, c04Step{Variant: cs.Variant, Entry: "Execute"})
	ld := newMemLoader(copyFiles(cs.Prog.Files))
	set := pongo2.NewSet("cold", ld)
	set.Options.TrimBlocks = cs.Trim
	set.Options.LStripBlocks = cs.LStrip
	src := cs.Prog.Files[cs.Prog.Entry]
	var wg sync.WaitGroup
	start := make(chan struct{})
	var mu sync.Mutex
	var bad []string
	for g, op := range cs.Ops {
		wg.Add(1)
		go func(g int, op string) {
			defer wg.Done()
			<-start
			var tpl *pongo2.Template
			var err error
			var out, e string
			switch op {
			case "FromCache":
				tpl, err = set.FromCache(cs.Prog.Entry)
			case "FromString":
				tpl, err = set.FromString(src)
			case "FromBytes":
				tpl, err = set.FromBytes([]byte(src))
			case "RenderTemplateFile":
				out, err = set.RenderTemplateFile(cs.Prog.Entry, progContext(cs.Variant, &tickState{}))
				e = errText(err)
				err = nil
			default:
				tpl, err = set.FromFile(cs.Prog.Entry)
			}
			if err != nil {
				mu.Lock()
				bad = append(bad, fmt.Sprintf("goroutine %d: %s failed although the same sources compile when asked alone: %v", g, op, err))
				mu.Unlock()
				return
			}
			if tpl != nil {
				out, e = c04Exec(tpl, c04Step{Variant: cs.Variant, Entry: "Execute"})
			}
			same := out == wantOut && e == wantErr
			if wantErr != "<nil>" && (op == "FromString" || op == "FromBytes" || op == "RenderTemplateFile") {
				same = e != "<nil>" // the error text names the template, which has another name here
			}
			if !same {
				mu.Lock()
				bad = append(bad, fmt.Sprintf("goroutine %d (%s): got %q / %s, alone it gives %q / %s", g, op, out, e, wantOut, wantErr))
				mu.Unlock()
			}
		}(g, op)
	}
	close(start)
	wg.Wait()
	if len(bad) > 0 {
		return fmt.Errorf("concurrent first compilations on a fresh set differ from compiling alone (TrimBlocks=%v LStripBlocks=%v):\n %s\n root=%q", cs.Trim, cs.LStrip, strings.Join(bad, "\n "), src)
	}
	r.Class(fmt.Sprintf("goroutines:%d", len(cs.Ops)))
	r.NonTrivial(fmt.Sprintf("%v|%v|%v|%v", cs.Prog.Files, cs.Trim, cs.LStrip, cs.Ops))
	return nil
}

var _ = register(&propSpec{
	ID:    "C05.coldset",
	Journ: true,
	Rule:  "a set that has not created any template yet is asked by 2-8 goroutines at once (barrier) to FromFile / FromCache / FromString / FromBytes / RenderTemplateFile the same generated program (includes, inheritance, macros, both trim options); under the race detector; every goroutine must get what a compilation alone gives. Non-trivial: every case (>= 2 goroutines compile on a cold set).",
	Gen: func(t *rapid.T) any {
		cs := &c05ColdCase{
			Prog:    genProgram(t, progOpts{ticks: true, includes: true, inherit: true, stateful: true, maxDepth: 3, maxNodes: 15}),
			Trim:    drawBool(t, "trim"),
			LStrip:  drawBool(t, "lstrip"),
			Variant: drawInt(t, 0, 11, "variant"),
		}
		k := drawInt(t, 2, 8, "k")
		for i := 0; i < k; i++ {
			cs.Ops = append(cs.Ops, pick(t, "op", []string{"FromFile", "FromFile", "FromCache", "FromString", "FromBytes", "RenderTemplateFile"}))
		}
		return cs
	},
	New:   func() any { return &c05ColdCase{} },
	Check: checkC05Cold,
})

func TestC05ColdSet(t *testing.T) { runProp(t, "C05.coldset") }
