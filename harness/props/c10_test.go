package props

// C10: inheritance — the most-derived block wins, Super reaches the parent.

import (
	"fmt"
	"strings"
	"testing"

	"github.com/flosch/pongo2/v6"
	"pgregory.net/rapid"
)

type c10Item struct {
	Kind  string    `json:"kind"` // text super block if for lv
	Text  string    `json:"text,omitempty"`
	Name  string    `json:"name,omitempty"`  // block name; for: loop variable ("" = li); lv: the loop variable printed
	Body  []c10Item `json:"body,omitempty"`  // block / if / for body
	Cond  bool      `json:"cond,omitempty"`  // if: condition value
	Times int       `json:"times,omitempty"` // for: iterations
	// Trim (block whose body is one text): the block tags carry '-' markers towards the body, the text
	// is padded with whitespace: {% block n -%}  text  {%- endblock %} - the definition is "text",
	// also when it is reached through block.Super
	Trim bool `json:"trim,omitempty"`
}

type c10Tpl struct {
	File string    `json:"file"`
	Ref  string    `json:"ref,omitempty"` // how the parent is named in the extends tag
	Top  []c10Item `json:"top"`
}

type c10Step struct {
	Level int    `json:"level"`
	Via   string `json:"via"` // FromFile | FromCache
}

type c10Case struct {
	Chain []c10Tpl `json:"chain"` // Chain[0] is the base
	// further renders on a second, fresh set: any level in any order, fetched with or without the cache
	Steps []c10Step `json:"steps,omitempty"`
}

func c10LoopVar(it c10Item) string {
	if it.Name == "" {
		return "li"
	}
	return it.Name
}

// the string a for item iterates over: distinct neighbours, so that the iteration shows in {{ var }}
func c10LoopString(times int) string {
	var sb strings.Builder
	for k := 0; k < times; k++ {
		sb.WriteByte("abcdefghij"[k%10])
	}
	return sb.String()
}

func c10Src(items []c10Item) string {
	var sb strings.Builder
	for _, it := range items {
		switch it.Kind {
		case "text":
			sb.WriteString(it.Text)
		case "super":
			sb.WriteString("{{ block.Super }}")
		case "superup":
			sb.WriteString("{{ block.Super|upper }}")
		case "superwith":
			sb.WriteString("{% with sv=block.Super %}({{ sv }}){% endwith %}")
		case "superif":
			sb.WriteString("{% if block.Super %}Y{% else %}N{% endif %}")
		case "block":
			if it.Trim && len(it.Body) == 1 && it.Body[0].Kind == "text" {
				sb.WriteString("{% block " + it.Name + " -%} \n " + it.Body[0].Text + "  \t{%- endblock %}")
				break
			}
			sb.WriteString("{% block " + it.Name + " %}" + c10Src(it.Body) + "{% endblock %}")
		case "cblock":
			// a commented-out definition: defines nothing, renders nothing
			sb.WriteString("{% comment %}{% block " + it.Name + " %}COMMENTED{{ block.Super }}{% endblock %}{% endcomment %}")
		case "if":
			c := "0"
			if it.Cond {
				c = "1"
			}
			sb.WriteString("{% if " + c + " %}" + c10Src(it.Body) + "{% endif %}")
		case "for":
			sb.WriteString(`{% for ` + c10LoopVar(it) + ` in "` + c10LoopString(it.Times) + `" %}` + c10Src(it.Body) + "{% endfor %}")
		case "lv":
			sb.WriteString("{{ " + it.Name + " }}")
		}
	}
	return sb.String()
}

// collect the block definitions of one template (name -> body)
func c10Blocks(items []c10Item, into map[string][]c10Item) {
	for _, it := range items {
		switch it.Kind {
		case "block":
			into[it.Name] = it.Body
			c10Blocks(it.Body, into)
		case "if", "for":
			c10Blocks(it.Body, into)
		}
	}
}

// reference rendering of level j of the chain (levels > j do not exist for it)
func c10Ref(chain []c10Tpl, j int) string {
	defs := make([]map[string][]c10Item, j+1)
	for i := 0; i <= j; i++ {
		defs[i] = map[string][]c10Item{}
		c10Blocks(chain[i].Top, defs[i])
	}
	levelsOf := func(name string) []int {
		var ls []int
		for i := 0; i <= j; i++ {
			if _, ok := defs[i][name]; ok {
				ls = append(ls, i)
			}
		}
		return ls
	}
	var sb strings.Builder
	env := map[string]string{} // loop variables of the loops being executed right now
	var render func(items []c10Item, name string, pos int)
	renderBlock := func(name string) {
		ls := levelsOf(name)
		last := len(ls) - 1
		render(defs[ls[last]][name], name, last)
	}
	render = func(items []c10Item, name string, pos int) {
		for _, it := range items {
			switch it.Kind {
			case "text":
				sb.WriteString(it.Text)
			case "block":
				renderBlock(it.Name)
			case "super":
				if name != "" && pos > 0 {
					ls := levelsOf(name)
					render(defs[ls[pos-1]][name], name, pos-1)
				}
			case "superup", "superwith", "superif":
				// block.Super is a value: the parent's rendering can be filtered, bound and tested
				saved := sb.String()
				sb.Reset()
				if name != "" && pos > 0 {
					ls := levelsOf(name)
					render(defs[ls[pos-1]][name], name, pos-1)
				}
				parent := sb.String()
				sb.Reset()
				sb.WriteString(saved)
				switch it.Kind {
				case "superup":
					sb.WriteString(strings.ToUpper(parent))
				case "superwith":
					sb.WriteString("(" + parent + ")")
				default:
					if parent != "" {
						sb.WriteString("Y")
					} else {
						sb.WriteString("N")
					}
				}
			case "if":
				if it.Cond {
					render(it.Body, name, pos)
				}
			case "for":
				v := c10LoopVar(it)
				str := c10LoopString(it.Times)
				for k := 0; k < it.Times; k++ {
					env[v] = str[k : k+1]
					render(it.Body, name, pos)
				}
				delete(env, v)
			case "lv":
				sb.WriteString(env[it.Name])
			}
		}
	}
	render(chain[0].Top, "", 0)
	return sb.String()
}

type c10Stats struct{ supers, nested, overrides, skipped int }

func checkC10(c any, r *Rec) error {
	cs := c.(*c10Case)
	files := map[string]string{}
	for i, tp := range cs.Chain {
		src := c10Src(tp.Top)
		if i > 0 {
			// anything a child writes outside blocks is ignored: put the extends first, text around it stays
			src = `{% extends "` + tp.Ref + `" %}` + src
		}
		files[tp.File] = src
	}
	ld := newMemLoader(files)
	set := pongo2.NewSet("c10", ld)
	desc := fmt.Sprintf("files=%q", files)
	base, err := set.FromFile(cs.Chain[0].File)
	if err != nil {
		return fmt.Errorf("base does not compile: %v\n %s", err, desc)
	}
	baseWant := c10Ref(cs.Chain, 0)
	out0, err := base.Execute(nil)
	if err != nil || out0 != baseWant {
		return fmt.Errorf("base rendered directly: got %q err=%v, want %q\n %s", out0, err, baseWant, desc)
	}
	for j := len(cs.Chain) - 1; j >= 1; j-- {
		tpl, err := set.FromFile(cs.Chain[j].File)
		if err != nil {
			return fmt.Errorf("level %d (%s) does not compile: %v\n %s", j, cs.Chain[j].File, err, desc)
		}
		want := c10Ref(cs.Chain, j)
		for rep := 0; rep < 2; rep++ {
			out, err := tpl.Execute(nil)
			if err != nil {
				return fmt.Errorf("level %d (%s) fails: %v\n want %q\n %s", j, cs.Chain[j].File, err, want, desc)
			}
			if out != want {
				return fmt.Errorf("level %d (%s), render %d:\n got  %q\n want %q (most-derived block wins, Super = next less-derived definition)\n %s", j, cs.Chain[j].File, rep+1, out, want, desc)
			}
		}
	}
	// rendered because another template includes it (by a literal or a computed name), a level is
	// the same document
	for j := len(cs.Chain) - 1; j >= 0; j-- {
		ld.set("/zz-page.tpl", `[{% include "`+cs.Chain[j].File+`" %}|{% include which %}]`)
		page, err := set.FromFile("/zz-page.tpl")
		if err != nil {
			return fmt.Errorf("a page including level %d (%s) does not compile: %v\n %s", j, cs.Chain[j].File, err, desc)
		}
		want := c10Ref(cs.Chain, j)
		out, err := page.Execute(pongo2.Context{"which": cs.Chain[j].File})
		if err != nil || out != "["+want+"|"+want+"]" {
			return fmt.Errorf("level %d (%s) rendered through include (static | lazy): got %q err=%v, want twice %q\n %s", j, cs.Chain[j].File, out, err, want, desc)
		}
	}
	// rendering the parent directly is unaffected by its children having been compiled and rendered
	out1, err := base.Execute(nil)
	if err != nil || out1 != baseWant {
		return fmt.Errorf("base rendered again after its children were compiled: got %q err=%v, want %q\n %s", out1, err, baseWant, desc)
	}
	// any level, any order, with and without the cache, on a set that has seen nothing yet
	if len(cs.Steps) > 0 {
		set2 := pongo2.NewSet("c10b", newMemLoader(files))
		for i, sp := range cs.Steps {
			lv := sp.Level % len(cs.Chain)
			var tpl *pongo2.Template
			var err error
			if sp.Via == "FromCache" {
				tpl, err = set2.FromCache(cs.Chain[lv].File)
			} else {
				tpl, err = set2.FromFile(cs.Chain[lv].File)
			}
			if err != nil {
				return fmt.Errorf("step %d: %s(level %d) fails: %v\n steps=%+v\n %s", i, sp.Via, lv, err, cs.Steps, desc)
			}
			want := c10Ref(cs.Chain, lv)
			out, err := tpl.Execute(nil)
			if err != nil || out != want {
				return fmt.Errorf("step %d: level %d (%s) fetched with %s renders %q err=%v, want %q (a level renders the same whatever was fetched or rendered before)\n steps=%+v\n %s", i, lv, cs.Chain[lv].File, sp.Via, out, err, want, cs.Steps, desc)
			}
		}
		r.Class("with-steps")
	}
	// non-trivial classification
	st := c10Stats{}
	seen := map[string][]int{}
	for i, tp := range cs.Chain {
		d := map[string][]c10Item{}
		c10Blocks(tp.Top, d)
		for n := range d {
			seen[n] = append(seen[n], i)
		}
		var walk func(items []c10Item, inBlock bool)
		walk = func(items []c10Item, inBlock bool) {
			for _, it := range items {
				switch it.Kind {
				case "super", "superup", "superwith", "superif":
					st.supers++
				case "block":
					if inBlock {
						st.nested++
					}
					walk(it.Body, true)
				case "if", "for":
					walk(it.Body, inBlock)
				}
			}
		}
		walk(tp.Top, false)
	}
	for _, ls := range seen {
		if len(ls) > 1 {
			st.overrides++
			for k := 1; k < len(ls); k++ {
				if ls[k]-ls[k-1] > 1 {
					st.skipped++
				}
			}
		}
	}
	if st.supers > 0 {
		r.Class("has-super")
	}
	if st.nested > 0 {
		r.Class("has-nested-block")
	}
	if st.skipped > 0 {
		r.Class("skipped-level")
	}
	if len(cs.Chain) >= 2 && st.overrides > 0 && (st.supers > 0 || st.nested > 0 || st.skipped > 0) {
		r.NonTrivial(desc)
	}
	return nil
}

type c10Gen struct {
	t        *rapid.T
	known    []string // block names defined by ancestors
	fresh    int
	used     map[string]bool // names used in the template being generated
	bigLoops int
	loops    []string // loop variables of the lexically enclosing for items (same template)
	nloops   int
	encl     []int // creation numbers of the lexically enclosing blocks
}

func (g *c10Gen) isKnown(name string) bool {
	for _, k := range g.known {
		if k == name {
			return true
		}
	}
	return false
}

func c10BlockNo(name string) int {
	n := 0
	fmt.Sscanf(name, "b%d", &n)
	return n
}

func (g *c10Gen) body(lvl, depth int, inBlock bool) []c10Item {
	n := drawInt(g.t, 0, 4, "bodylen")
	var out []c10Item
	for i := 0; i < n; i++ {
		switch pickW(g.t, "item", []string{"text", "super", "block", "if", "for", "lv"}, []int{4, 3, 4, 1, 2, 3}) {
		case "lv":
			// prints the current element of a lexically enclosing loop of this template
			if len(g.loops) > 0 {
				out = append(out, c10Item{Kind: "lv", Name: pick(g.t, "lvname", g.loops)})
			}
		case "text":
			out = append(out, c10Item{Kind: "text", Text: fmt.Sprintf("t%d%c", lvl, 'a'+rune(drawInt(g.t, 0, 5, "tn")))})
		case "super":
			if inBlock {
				out = append(out, c10Item{Kind: pickW(g.t, "superkind", []string{"super", "superup", "superwith", "superif"}, []int{6, 1, 1, 1})})
			}
		case "block":
			if depth <= 0 {
				continue
			}
			var name string
			// top level of a child: usually override something the ancestors define
			if lvl > 0 && !inBlock && len(g.known) > 0 && drawInt(g.t, 0, 4, "override") > 0 {
				name = pick(g.t, "known", g.known)
			} else if lvl > 0 && inBlock && len(g.known) > 0 && drawInt(g.t, 0, 2, "nestedoverride") == 0 {
				// re-define an ancestor's block INSIDE the override of another block. A block may only
				// contain blocks created after it (by number), so that no two blocks ever contain each
				// other, at any level of the chain.
				var later []string
				for _, k := range g.known {
					if c10BlockNo(k) > g.encl[len(g.encl)-1] {
						later = append(later, k)
					}
				}
				if len(later) == 0 {
					continue
				}
				name = pick(g.t, "knownnested", later)
			} else {
				g.fresh++
				name = fmt.Sprintf("b%d", g.fresh)
			}
			if g.used[name] {
				continue
			}
			g.used[name] = true
			g.encl = append(g.encl, c10BlockNo(name))
			savedLoops := g.loops
			if inBlock && g.isKnown(name) {
				// a re-definition of an ancestor's block is also rendered where the ancestors place that
				// block (possibly reached through block.Super, outside the loops written around it
				// here): it does not refer to those loops
				g.loops = nil
			}
			body := g.body(lvl, depth-1, true)
			g.loops = savedLoops
			g.encl = g.encl[:len(g.encl)-1]
			out = append(out, c10Item{Kind: "block", Name: name, Body: body, Trim: len(body) == 1 && body[0].Kind == "text" && drawInt(g.t, 0, 2, "trimblock") == 0})
		case "if":
			if depth > 0 {
				out = append(out, c10Item{Kind: "if", Cond: drawBool(g.t, "cond"), Body: g.body(lvl, depth-1, inBlock)})
			}
		case "for":
			if depth > 0 {
				times := drawInt(g.t, 0, 3, "times")
				if g.bigLoops < 1 && drawInt(g.t, 0, 7, "bigloop") == 0 {
					// a block executed more than a thousand times in one render (once per case: cost)
					times = 1100
					g.bigLoops++
				}
				g.nloops++
				v := fmt.Sprintf("v%d_%d", lvl, g.nloops)
				g.loops = append(g.loops, v)
				body := g.body(lvl, depth-1, inBlock)
				g.loops = g.loops[:len(g.loops)-1]
				out = append(out, c10Item{Kind: "for", Name: v, Times: times, Body: body})
			}
		}
	}
	return out
}

func genC10(t *rapid.T) *c10Case {
	g := &c10Gen{t: t}
	n := drawInt(t, 1, 5, "levels")
	cs := &c10Case{}
	dirs := []string{"/", "/a/", "/a/b/", "/c/", "/c/d/", "/a/e/"}
	// often the same base name in different directories (a name may end with the name it extends)
	sameBase := drawBool(t, "samebase")
	for i := len(dirs) - 1; i > 0; i-- {
		j := drawInt(t, 0, i, "dirperm")
		dirs[i], dirs[j] = dirs[j], dirs[i]
	}
	prevFile := ""
	for lvl := 0; lvl < n; lvl++ {
		g.used = map[string]bool{}
		g.loops = nil
		g.encl = nil
		tp := c10Tpl{File: dirs[lvl] + fmt.Sprintf("l%d.tpl", lvl)}
		if sameBase {
			tp.File = dirs[lvl] + "t.tpl"
		}
		tp.Top = g.body(lvl, 3, false)
		if len(g.known) > 0 && drawInt(t, 0, 3, "cblock") == 0 {
			tp.Top = append(tp.Top, c10Item{Kind: "cblock", Name: pick(t, "cbname", g.known)})
		}
		if lvl > 0 {
			tp.Ref = prevFile // rooted
			if drawBool(t, "relative") {
				tp.Ref = relPath(tp.File, prevFile)
			}
		}
		d := map[string][]c10Item{}
		c10Blocks(tp.Top, d)
		for nme := range d {
			dup := false
			for _, k := range g.known {
				if k == nme {
					dup = true
				}
			}
			if !dup {
				g.known = append(g.known, nme)
			}
		}
		sortStringsInPlace(g.known)
		cs.Chain = append(cs.Chain, tp)
		prevFile = tp.File
	}
	ns := drawInt(t, 0, 6, "nsteps")
	for i := 0; i < ns; i++ {
		cs.Steps = append(cs.Steps, c10Step{Level: drawInt(t, 0, n-1, "steplevel"), Via: pick(t, "via", []string{"FromCache", "FromCache", "FromFile"})})
	}
	return cs
}

func sortStringsInPlace(a []string) {
	for i := 1; i < len(a); i++ {
		for j := i; j > 0 && a[j] < a[j-1]; j-- {
			a[j], a[j-1] = a[j-1], a[j]
		}
	}
}

// relPath: name of `to` relative to the directory of `from` (both rooted, slash separated)
func relPath(from, to string) string {
	fd := strings.Split(strings.Trim(from[:strings.LastIndex(from, "/")+1], "/"), "/")
	if fd[0] == "" {
		fd = nil
	}
	td := strings.Split(strings.Trim(to, "/"), "/")
	i := 0
	for i < len(fd) && i < len(td)-1 && fd[i] == td[i] {
		i++
	}
	var parts []string
	for k := i; k < len(fd); k++ {
		parts = append(parts, "..")
	}
	parts = append(parts, td[i:]...)
	return strings.Join(parts, "/")
}

var _ = register(&propSpec{
	ID:    "C10.chain",
	Rule:  "inheritance chains base <- l1 <- ... (1-5 levels, files in different directories, parents named rooted or relatively with ..) in an in-memory loader; per level random block sets: override (with 0-n block.Super - printed, filtered, bound by with, tested by if -, also twice, inside loops, before and after nested blocks), inherit, add new blocks, nest fresh blocks inside overrides, text outside blocks, commented-out definitions of known blocks (comment tag), definitions that are one text trimmed by '-' markers on the block tags; base blocks nested in blocks, in if-branches (true/false) and in for-loops. Every level is rendered (twice) and compared with a reference resolution, and once more through a page that includes it (by a literal and by a computed name); the base is rendered before and after its children; then 0-6 further renders of any level in any order on a fresh set, fetched with FromCache or FromFile. Loops iterate over distinct letters and definitions print the current element of a loop that encloses them in their own template (so a definition rendered through Super must show the current iteration). Blocks nested inside overrides carry fresh names or re-define an ancestor's block that was created later than the enclosing one (so blocks never contain each other - that has no defined rendering - while a block an ancestor defines at top level may be re-defined inside another block's override). Non-trivial: >= 2 levels with an override and (Super or nested block or a skipped level); distinct by sources.",
	Gen:   func(t *rapid.T) any { return genC10(t) },
	New:   func() any { return &c10Case{} },
	Check: checkC10,
})

func TestC10Chain(t *testing.T) { runProp(t, "C10.chain") }

// ---- invalid shapes must be compile errors -------------------------------------

type c10Bad struct {
	Shape string `json:"shape"`
	Pad   string `json:"pad"`
	Deep  bool   `json:"deep"` // the invalid template is itself reached through another extends
}

func checkC10Bad(c any, r *Rec) error {
	cs := c.(*c10Bad)
	files := map[string]string{
		"/base.tpl":  cs.Pad + "{% block a %}A{% endblock %}{% block b %}B{% endblock %}",
		"/other.tpl": "{% block a %}O{% endblock %}",
	}
	var bad string
	switch cs.Shape {
	case "second-extends":
		bad = `{% extends "/base.tpl" %}` + cs.Pad + `{% extends "/other.tpl" %}{% block a %}x{% endblock %}`
	case "second-extends-same":
		// naming the same parent again is a second extends all the same
		bad = `{% extends "/base.tpl" %}{% block a %}x{% endblock %}` + cs.Pad + `{% extends "/base.tpl" %}{% block b %}y{% endblock %}`
	case "second-extends-same-other-spelling":
		bad = `{% extends "/base.tpl" %}` + cs.Pad + `{% extends "/x/../base.tpl" %}{% block a %}x{% endblock %}`
	case "second-extends-last":
		bad = `{% extends "/base.tpl" %}{% block a %}x{% endblock %}{% block b %}y{% endblock %}` + cs.Pad + `{% extends "/other.tpl" %}`
	case "extends-in-if":
		bad = cs.Pad + `{% if 1 %}{% extends "/base.tpl" %}{% endif %}{% block a %}x{% endblock %}`
	case "extends-in-block":
		bad = `{% block a %}{% extends "/base.tpl" %}{% endblock %}` + cs.Pad
	case "extends-in-for":
		bad = `{% for i in "ab" %}{% extends "/base.tpl" %}{% endfor %}`
	case "duplicate-block":
		bad = `{% extends "/base.tpl" %}{% block a %}1{% endblock %}` + cs.Pad + `{% block a %}2{% endblock %}`
	case "duplicate-block-nested":
		bad = `{% extends "/base.tpl" %}{% block a %}1{% block a %}2{% endblock %}{% endblock %}`
	case "duplicate-block-in-if":
		bad = `{% block c %}1{% endblock %}{% if 0 %}{% block c %}2{% endblock %}{% endif %}`
	case "missing-parent":
		bad = `{% extends "/nosuch.tpl" %}{% block a %}x{% endblock %}`
	case "extends-not-string":
		bad = `{% extends base %}{% block a %}x{% endblock %}`
	case "endblock-name-mismatch":
		bad = `{% extends "/base.tpl" %}{% block a %}x{% endblock b %}`
	default:
		return fmt.Errorf("unknown shape %s", cs.Shape)
	}
	files["/bad.tpl"] = bad
	entry := "/bad.tpl"
	if cs.Deep {
		files["/leaf.tpl"] = `{% extends "/bad.tpl" %}{% block b %}leaf{% endblock %}`
		entry = "/leaf.tpl"
	}
	set := pongo2.NewSet("c10bad", newMemLoader(files))
	tpl, err := set.FromFile(entry)
	if err == nil {
		out, xerr := tpl.Execute(nil)
		return fmt.Errorf("invalid shape %s compiled (rendered %q, err %v): %q", cs.Shape, out, xerr, bad)
	}
	r.Class(cs.Shape)
	r.NonTrivial(fmt.Sprint(*cs))
	return nil
}

var c10Shapes = []string{"second-extends", "second-extends-same", "second-extends-same-other-spelling", "second-extends-last", "extends-in-if", "extends-in-block", "extends-in-for", "duplicate-block", "duplicate-block-nested", "duplicate-block-in-if",
	"missing-parent", "extends-not-string", "endblock-name-mismatch"}

var _ = register(&propSpec{
	ID:   "C10.invalid",
	Rule: "invalid hierarchy shapes (second extends - naming another parent, the same parent again, the same parent in another spelling, before, between and after the blocks -, extends nested in if/block/for, duplicate block name at the same level / nested / in a dead branch, missing parent, non-literal parent, endblock name mismatch) with random padding, directly or reached through another extends: compilation must fail. Every case counts as non-trivial.",
	Gen: func(t *rapid.T) any {
		return &c10Bad{Shape: pick(t, "shape", c10Shapes), Pad: pick(t, "pad", []string{"", "text", "\n", "{# c #}", "{{ 1 }}"}), Deep: drawBool(t, "deep")}
	},
	New:   func() any { return &c10Bad{} },
	Check: checkC10Bad,
})

func TestC10Invalid(t *testing.T) { runProp(t, "C10.invalid") }
