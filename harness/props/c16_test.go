package props

// C16: diagnostics point at the right place.

import (
	"fmt"
	"strings"
	"testing"

	"github.com/flosch/pongo2/v6"
	"pgregory.net/rapid"
)

// ---------------------------------------------------------------------------
// C16.lex — every token records the line/column where its text really starts

type c16Lex struct {
	Typ string `json:"typ"` // ident keyword number string symbol
	Src string `json:"src"` // source text of the lexeme
	Gap int    `json:"gap"` // spaces/tabs before it
	Tab bool   `json:"tab,omitempty"`
}

type c16Seg struct {
	Kind string   `json:"kind"` // text comment verbatim var tag
	Text string   `json:"text,omitempty"`
	Lex  []c16Lex `json:"lex,omitempty"`
	L    bool     `json:"l,omitempty"`
	R    bool     `json:"r,omitempty"`
	End  int      `json:"end,omitempty"` // gap before the closing delimiter (>= 1)
}

type c16LexCase struct {
	Segs []c16Seg `json:"segs"`
}

type c16Tok struct {
	typ       pongo2.TokenType
	val       string
	line, col int
	trim      bool
}

func lineCol(src string, off int) (int, int) {
	line, col := 1, 1
	for i := 0; i < off && i < len(src); i++ {
		if src[i] == '\n' {
			line++
			col = 1
		} else {
			col++
		}
	}
	return line, col
}

func offsetOf(src string, line, col int) (int, bool) {
	if line < 1 || col < 1 {
		return 0, false
	}
	off := 0
	for l := 1; l < line; l++ {
		i := strings.IndexByte(src[off:], '\n')
		if i < 0 {
			return 0, false
		}
		off += i + 1
	}
	end := strings.IndexByte(src[off:], '\n')
	if end < 0 {
		end = len(src) - off
	}
	if col-1 > end+1 {
		return 0, false
	}
	return off + col - 1, true
}

var c16Keywords = map[string]bool{"in": true, "and": true, "or": true, "not": true, "true": true, "false": true, "as": true, "export": true}

func c16Unescape(body string) string {
	var out []byte
	for i := 0; i < len(body); i++ {
		if body[i] == '\\' && i+1 < len(body) && (body[i+1] == '"' || body[i+1] == '\\') {
			out = append(out, body[i+1])
			i++
			continue
		}
		out = append(out, body[i])
	}
	return string(out)
}

// c16Print renders the segments and returns the expected token list.
func c16Print(segs []c16Seg) (string, []c16Tok) {
	var sb strings.Builder
	var toks []c16Tok
	pos := func() (int, int) { return lineCol(sb.String(), sb.Len()) }
	sym := func(s string) {
		l, c := pos()
		t := c16Tok{typ: pongo2.TokenSymbol, val: s, line: l, col: c}
		if len(s) == 3 {
			t.trim = true
			t.val = strings.ReplaceAll(s, "-", "")
		}
		toks = append(toks, t)
		sb.WriteString(s)
	}
	for _, sg := range segs {
		switch sg.Kind {
		case "text":
			if sg.Text == "" {
				continue
			}
			l, c := pos()
			// adjacent literal text forms ONE token
			if n := len(toks); n > 0 && toks[n-1].typ == pongo2.TokenHTML && strings.HasSuffix(sb.String(), toks[n-1].val) && !toks[n-1].trim {
				// previous token is HTML directly before: only if nothing was printed in between (comment/verbatim end)
			}
			toks = append(toks, c16Tok{typ: pongo2.TokenHTML, val: sg.Text, line: l, col: c})
			sb.WriteString(sg.Text)
		case "comment":
			sb.WriteString("{#" + sg.Text + "#}")
		case "verbatim":
			sb.WriteString("{% verbatim %}")
			if sg.Text != "" {
				l, c := pos()
				toks = append(toks, c16Tok{typ: pongo2.TokenHTML, val: sg.Text, line: l, col: c})
				sb.WriteString(sg.Text)
			}
			sb.WriteString("{% endverbatim %}")
		case "var", "tag":
			open, close := "{{", "}}"
			if sg.Kind == "tag" {
				open, close = "{%", "%}"
			}
			if sg.L {
				open += "-"
			}
			if sg.R {
				close = "-" + close
			}
			sym(open)
			for _, lx := range sg.Lex {
				ch := " "
				if lx.Tab {
					ch = "\t"
				}
				sb.WriteString(strings.Repeat(ch, lx.Gap))
				l, c := pos()
				switch lx.Typ {
				case "ident":
					toks = append(toks, c16Tok{typ: pongo2.TokenIdentifier, val: lx.Src, line: l, col: c})
				case "keyword":
					toks = append(toks, c16Tok{typ: pongo2.TokenKeyword, val: lx.Src, line: l, col: c})
				case "number":
					toks = append(toks, c16Tok{typ: pongo2.TokenNumber, val: lx.Src, line: l, col: c})
				case "string":
					toks = append(toks, c16Tok{typ: pongo2.TokenString, val: c16Unescape(lx.Src[1 : len(lx.Src)-1]), line: l, col: c})
				case "symbol":
					toks = append(toks, c16Tok{typ: pongo2.TokenSymbol, val: lx.Src, line: l, col: c})
				}
				sb.WriteString(lx.Src)
			}
			sb.WriteString(strings.Repeat(" ", sg.End))
			sym(close)
		}
	}
	return sb.String(), toks
}

func checkC16Lex(c any, r *Rec) error {
	cs := c.(*c16LexCase)
	// two text segments in a row would be one token: reject such (non-canonical) cases
	for i := 1; i < len(cs.Segs); i++ {
		if cs.Segs[i].Kind == "text" && cs.Segs[i-1].Kind == "text" {
			return skipf("adjacent text segments")
		}
	}
	src, want := c16Print(cs.Segs)
	got, err := pongo2.VerifLex("c16.tpl", src)
	if err != nil {
		return fmt.Errorf("valid layout does not lex: %v\n src=%q", err, src)
	}
	// Every lexeme the printer wrote must come back as a token that starts where the lexeme
	// starts and carries its value. How literal text is cut into tokens, token type numbers,
	// trim flags and additional tokens are the lexer's business (the property speaks about
	// positions), so tokens are matched by position, not by index.
	type pos struct{ line, col int }
	byPos := map[pos]*pongo2.Token{}
	for _, g := range got {
		if g.Filename != "c16.tpl" {
			return fmt.Errorf("token %v carries file name %q", g, g.Filename)
		}
		if _, dup := byPos[pos{g.Line, g.Col}]; !dup {
			byPos[pos{g.Line, g.Col}] = g
		}
	}
	if len(want) > 0 && len(got) == 0 {
		return fmt.Errorf("lexer produced 0 tokens, expected %d\n src=%q", len(want), src)
	}
	nt := false
	for i, w := range want {
		g := byPos[pos{w.line, w.col}]
		if w.typ == pongo2.TokenHTML {
			// literal text: some token must start where the text starts
			if g == nil {
				return fmt.Errorf("literal text %q starts at line %d col %d but no token is reported there\n src=%q\n got=%v", w.val, w.line, w.col, src, got)
			}
		} else {
			if g == nil || g.Val != w.val {
				// where did the lexer put it?
				for _, o := range got {
					if o.Val == w.val && o.Typ == w.typ {
						g = o
					}
				}
				if g != nil && g.Val == w.val {
					return fmt.Errorf("token %d (%q) reported at line %d col %d, its text starts at line %d col %d\n src=%q", i, w.val, g.Line, g.Col, w.line, w.col, src)
				}
				return fmt.Errorf("lexeme %d (%q) starts at line %d col %d but no token with that value is reported there\n src=%q\n got=%v", i, w.val, w.line, w.col, src, got)
			}
		}
		if w.line > 1 {
			nt = true
		}
	}
	if nt || strings.ContainsAny(src, "é世\\") || strings.Contains(src, "{#") || strings.Contains(src, "verbatim") {
		r.NonTrivial(src)
	}
	return nil
}

var c16Idents = []string{"a", "name", "x_1", "forloop", "Counter", "_u", "if", "endif", "for", "nosuch", "include", "with", "set", "block", "i", "1abc", "2_x", "9z9", "éx"}
var c16Symbols = []string{"==", ">=", "<=", "&&", "||", "!=", "<>", "(", ")", "+", "-", "*", "<", ">", "/", "^", ",", ".", "!", "|", ":", "=", "%", "[", "]"}
var c16Strings = []string{`"s"`, `""`, `'t'`, `"a b"`, `"q\"q"`, `"b\\s"`, `'x"y'`, `"é世"`, `"{{ x }}"`, `'%}'`, `"-"`, `'\\'`, `"\\\""`, `'a\"b'`}

func genC16Text(t *rapid.T, l string) string {
	n := drawInt(t, 1, 5, l+".n")
	var sb strings.Builder
	for i := 0; i < n; i++ {
		sb.WriteString(pick(t, l+".p", []string{"w", " ", "\n", "\r\n", "é", "世界", "\t", "line\n", "}", "%", "#", "-", "{ ", "\n\n", "x y", "😀", "\uFEFF", "\uFEFF", "\u200b", "\u00a0", "\x00", "\v\f", "\xff"}))
	}
	s := sb.String()
	for strings.HasSuffix(s, "{") {
		s += " "
	}
	return s
}

func genC16Lexemes(t *rapid.T, l string) []c16Lex {
	n := drawInt(t, 0, 6, l+".n")
	var out []c16Lex
	for i := 0; i < n; i++ {
		var lx c16Lex
		switch drawInt(t, 0, 4, l+".k") {
		case 0:
			s := pick(t, l+".id", c16Idents)
			if s == "éx" {
				s = "ex"
			}
			lx = c16Lex{Typ: "ident", Src: s}
			if c16Keywords[s] {
				lx.Typ = "keyword"
			}
		case 1:
			lx = c16Lex{Typ: "keyword", Src: pick(t, l+".kw", []string{"in", "and", "or", "not", "true", "false", "as", "export"})}
		case 2:
			lx = c16Lex{Typ: "number", Src: pick(t, l+".num", []string{"0", "1", "42", "007", "123456789"})}
		case 3:
			lx = c16Lex{Typ: "string", Src: pick(t, l+".str", c16Strings)}
		default:
			lx = c16Lex{Typ: "symbol", Src: pick(t, l+".sym", c16Symbols)}
		}
		lx.Gap = drawInt(t, 1, 3, l+".gap")
		lx.Tab = drawInt(t, 0, 5, l+".tab") == 0
		// zero gap only where two lexemes cannot merge
		if i > 0 && drawInt(t, 0, 3, l+".tight") == 0 {
			prev := out[len(out)-1]
			wordish := func(x c16Lex) bool { return x.Typ == "ident" || x.Typ == "keyword" || x.Typ == "number" }
			if (prev.Typ == "string" || lx.Typ == "string") || (wordish(prev) != wordish(lx) && (prev.Typ == "symbol" || lx.Typ == "symbol")) {
				if !(prev.Typ == "symbol" && lx.Typ == "symbol") {
					lx.Gap = 0
				}
			}
		}
		// never produce the exact verbatim markers through this route
		if lx.Typ == "ident" && (lx.Src == "verbatim" || lx.Src == "endverbatim") {
			lx.Src = "verb"
		}
		out = append(out, lx)
	}
	return out
}

func genC16Segs(t *rapid.T, maxSegs int) []c16Seg {
	n := drawInt(t, 1, maxSegs, "nsegs")
	var segs []c16Seg
	for i := 0; i < n; i++ {
		l := fmt.Sprintf("s%d", i)
		k := pickW(t, l+".kind", []string{"text", "comment", "verbatim", "var", "tag"}, []int{4, 1, 1, 3, 3})
		if k == "text" && len(segs) > 0 && segs[len(segs)-1].Kind == "text" {
			k = "var"
		}
		switch k {
		case "text":
			segs = append(segs, c16Seg{Kind: "text", Text: genC16Text(t, l)})
		case "comment":
			segs = append(segs, c16Seg{Kind: "comment", Text: pick(t, l+".c", []string{"", " c ", " {{ x }} ", " é ", "#", " {% if %} "})})
		case "verbatim":
			segs = append(segs, c16Seg{Kind: "verbatim", Text: pick(t, l+".v", []string{"", "v", "{{ x }}", "a\nb", "{% endverbatim%}", "é\r\n{# #}"})})
		default:
			sg := c16Seg{Kind: k, Lex: genC16Lexemes(t, l), L: drawInt(t, 0, 4, l+".L") == 0, R: drawInt(t, 0, 4, l+".R") == 0, End: drawInt(t, 1, 2, l+".end")}
			if len(sg.Lex) > 0 {
				if sg.Lex[0].Gap == 0 {
					sg.Lex[0].Gap = 1
				}
			}
			segs = append(segs, sg)
		}
	}
	return segs
}

var _ = register(&propSpec{
	ID:    "C16.lex",
	Rule:  "random layouts written by a printer that knows the byte offset of every lexeme: multi-line / CRLF / multi-byte text (incl. BOM, NBSP, ZWSP, NUL, VT/FF, invalid UTF-8), {# #} comments, verbatim blocks, variable and block tags with random lexemes (identifiers incl. number-prefixed, keywords, numbers, strings with escapes, every symbol), 0-3 spaces/tabs, all four trim delimiters; every lexeme the printer wrote must come back as a token with that value at (line, col) = position of the lexeme's first byte (tokens are matched by position; how literal text is cut into tokens, type numbers and trim flags are not compared). Non-trivial: a token beyond line 1, or multi-byte text / escapes / comments / verbatim before a checked token; distinct by source.",
	Gen:   func(t *rapid.T) any { return &c16LexCase{Segs: genC16Segs(t, 8)} },
	New:   func() any { return &c16LexCase{} },
	Check: checkC16Lex,
})

func TestC16Lex(t *testing.T) { runProp(t, "C16.lex") }

// ---------------------------------------------------------------------------
// C16.raw — any input: each token's recorded position is where its text is
// found in the source (exhaustive over the lexer alphabet + random/fuzz)

type c16Raw struct {
	Src []byte `json:"src"`
}

func checkC16Raw(c any, r *Rec) error {
	cs := c.(*c16Raw)
	src := string(cs.Src)
	toks, lerr := pongo2.VerifLex("raw.tpl", src)
	if lerr != nil {
		if lerr.Filename != "raw.tpl" {
			return fmt.Errorf("lexer error for %q names file %q", src, lerr.Filename)
		}
		if lerr.Line > 0 {
			if _, ok := offsetOf(src, lerr.Line, lerr.Column); !ok {
				return fmt.Errorf("lexer error for %q points to line %d col %d, which is outside the source", src, lerr.Line, lerr.Column)
			}
		}
		r.Class("lexer-error")
		return nil
	}
	last := -1
	for i, tk := range toks {
		off, ok := offsetOf(src, tk.Line, tk.Col)
		if !ok {
			return fmt.Errorf("token %d %v of %q points outside the source", i, tk, src)
		}
		if off < last {
			return fmt.Errorf("token %d %v of %q starts before the previous token (offset %d < %d)", i, tk, src, off, last)
		}
		var text string
		switch {
		case tk.Typ == pongo2.TokenString:
			text = "" // position of the opening quote
			if off >= len(src) || (src[off] != '"' && src[off] != '\'') {
				return fmt.Errorf("string token %d %v of %q: no quote at the reported position (offset %d)", i, tk, src, off)
			}
		case tk.Typ == pongo2.TokenSymbol && tk.TrimWhitespaces:
			text = tk.Val
			if strings.HasPrefix(tk.Val, "{") {
				text = tk.Val + "-"
			} else {
				text = "-" + tk.Val
			}
		default:
			text = tk.Val
		}
		if !strings.HasPrefix(src[off:], text) {
			return fmt.Errorf("token %d %v of %q: its text %q is not found at the reported position (offset %d: %q)", i, tk, src, text, off, src[off:])
		}
		last = off
	}
	if len(toks) >= 2 || strings.Contains(src, "\n") {
		r.NonTrivial(src)
	}
	return nil
}

var _ = register(&propSpec{
	ID:   "C16.raw",
	Rule: "arbitrary strings over the lexer-significant alphabet (exhaustive up to a length bound) and mutated layouts: every token's (line, col) must lie inside the source, be non-decreasing, and the token's own text (opening quote for strings, 3-char form for trim delimiters) must be found there; a lexer error must name the file and point inside the source. Non-trivial: >= 2 tokens or multi-line.",
	Gen: func(t *rapid.T) any {
		src, _ := c16Print(genC16Segs(t, 5))
		b := []byte(src)
		// a few byte-level mutations
		for i := drawInt(t, 0, 3, "nmut"); i > 0 && len(b) > 0; i-- {
			p := drawInt(t, 0, len(b)-1, "mpos")
			switch drawInt(t, 0, 2, "mkind") {
			case 0:
				b = append(b[:p], b[p+1:]...)
			case 1:
				b[p] = pick(t, "mb", c06Alphabet)
			default:
				b = append(b[:p], append([]byte{pick(t, "mb2", c06Alphabet)}, b[p:]...)...)
			}
		}
		return &c16Raw{Src: b}
	},
	New:   func() any { return &c16Raw{} },
	Check: checkC16Raw,
})

func TestC16Raw(t *testing.T) { runProp(t, "C16.raw") }

func TestC16RawEnum(t *testing.T) {
	maxLen := envInt("VERIF_C16_ENUM_LEN", 5)
	alpha := []byte{'{', '}', '%', '#', '-', '"', '\'', '\\', '\n', ' ', 'a', '1'}
	enumerate(t, "C16.raw", "enum", func(yield func(any) bool) {
		buf := make([]byte, 0, maxLen)
		var rec func(d int) bool
		rec = func(d int) bool {
			if !yield(&c16Raw{Src: append([]byte(nil), buf...)}) {
				return false
			}
			if d == maxLen {
				return true
			}
			for _, ch := range alpha {
				buf = append(buf, ch)
				if !rec(d + 1) {
					return false
				}
				buf = buf[:len(buf)-1]
			}
			return true
		}
		rec(0)
	})
}

func FuzzC16Raw(f *testing.F) {
	for _, s := range []string{"{{ a }}", "{% if x %}\n{{ \"s\\\"\" }}{% endif %}", "a\n{#c#}{{-b-}}", "{% verbatim %}x{% endverbatim %}", "{{ 'x", "{{ 1abc|f:\"q\" }}"} {
		f.Add([]byte(s))
	}
	s := specs["C16.raw"]
	rec := newRec(s)
	f.Fuzz(func(t *testing.T, src []byte) {
		c := &c16Raw{Src: src}
		if err := evalCase(s, c, rec); err != nil {
			p := writeReplay(s, c, err.Error())
			t.Fatalf("VERIF-VIOLATION property=C16 spec=C16.raw replay=%s: %v", p, err)
		}
	})
}

// ---------------------------------------------------------------------------
// C16.fault — planted faults: the error names the right file and position

type c16Fault struct {
	Files  map[string]string `json:"files"`
	File   string            `json:"file"`   // file the fault was planted in
	Offset int               `json:"offset"` // byte offset of the blamed lexeme in that file
	Kind   string            `json:"kind"`
	Exact  bool              `json:"exact"`  // position must lie inside the faulty construct [Offset-Before, Offset+After]
	Before int               `json:"before"` // bytes of the construct in front of the blamed lexeme
	After  int               `json:"after"`  // bytes of the construct from the blamed lexeme to its end
	Exec   bool              `json:"exec"`   // fault shows at execution time
	Prefix string            `json:"prefix"` // metamorphic: extra text inserted in front of the faulty file
	// ViaCall: the fault executes inside a macro body; the engine reports it at
	// the call site (the call is a function call from the caller's view), so the
	// error may name the calling file instead.
	ViaCall bool `json:"via_call,omitempty"`
}

type c16Snip struct {
	kind    string
	src     string
	blame   int // offset of the blamed lexeme inside src
	exact   bool
	exec    bool
	atEOF   bool // must be the last thing in the file
	lexer   bool
	viaCall bool
}

// faults that other properties require to be errors (C19 unknown names, C07 division by zero, C08
// calls, C13 too many arguments, and constructs that cannot mean anything: an if without condition,
// an operator without operand, a block / string / comment / verbatim that never ends)
var c16MustFail = map[string]bool{"unknown_tag": true, "unknown_filter": true, "unknown_filter_arg": true, "missing_arg": true, "stray_op": true, "bad_for": true,
	"unclosed_block": true, "unclosed_string": true, "unclosed_comment": true, "unclosed_verbatim": true, "div_zero": true, "mod_zero": true, "non_function": true,
	"wrong_arity": true, "wrong_argtype": true, "func_error": true, "index_scalar": true, "macro_too_many": true}

var c16Snips = []c16Snip{
	{kind: "unknown_tag", src: "{% nosuchtag 1 %}", blame: 3, exact: true},
	{kind: "unknown_filter", src: "{{ name|nosuchfilter }}", blame: 8, exact: true},
	{kind: "unknown_filter_arg", src: "{% if name|nosuchfilter:1 %}x{% endif %}", blame: 11, exact: true},
	{kind: "missing_arg", src: "{% if %}x{% endif %}", blame: 3},
	{kind: "stray_op", src: "{{ 1 + }}", blame: 7},
	{kind: "bad_for", src: "{% for in name %}{% endfor %}", blame: 7},
	{kind: "unclosed_block", src: "{% if name %}never closed", blame: 0, atEOF: true},
	{kind: "unclosed_string", src: `{{ "abc }}`, blame: 3, exact: true, lexer: true},
	{kind: "bad_escape", src: `{{ "a\qb" }}`, blame: 3, lexer: true},
	{kind: "newline_in_tag", src: "{{ name\n }}", blame: 7, exact: true, lexer: true},
	{kind: "unclosed_comment", src: "{# abc", blame: 0, exact: true, atEOF: true, lexer: true},
	{kind: "unclosed_verbatim", src: "{% verbatim %}abc", blame: 0, atEOF: true, lexer: true},
	{kind: "div_zero", src: "{{ 10 / zero }}", blame: 8, exact: true, exec: true},
	{kind: "mod_zero", src: "{{ 10 % zero }}", blame: 8, exact: true, exec: true},
	{kind: "non_function", src: "{{ name(1) }}", blame: 3, exact: true, exec: true},
	{kind: "wrong_arity", src: "{{ greet() }}", blame: 3, exact: true, exec: true},
	{kind: "wrong_argtype", src: "{{ greet(1) }}", blame: 3, exact: true, exec: true},
	{kind: "func_error", src: "{{ fails(0) }}", blame: 3, exact: true, exec: true},
	{kind: "index_scalar", src: "{{ n.x }}", blame: 3, exact: true, exec: true},
	{kind: "filter_error", src: "{{ name|pluralize }}", blame: 8, exact: true, exec: true},
	{kind: "macro_too_many", src: "{% macro mm(a) %}{{ a }}{% endmacro %}{{ mm(1, 2) }}", blame: 41, exec: true, viaCall: true},
	{kind: "neg_nonnumber", src: "{{ -name }}", blame: 4, exec: true},
}

func genC16Layout(t *rapid.T, l string) string {
	n := drawInt(t, 0, 5, l+".n")
	var sb strings.Builder
	for i := 0; i < n; i++ {
		sb.WriteString(pick(t, l+".p", []string{"line\n", "é世 ", "\r\n", "{# c #}", "{% verbatim %}{% x %}\n{% endverbatim %}", "  ", "{{ \"s\\\"q\" }}", "{{ 1 }}\n", "\t", "{% if 1 %}y{% endif %}", "\n\n", "{{- 2 -}}", "😀", "\uFEFF", "\u00a0", "\v"}))
	}
	return sb.String()
}

func genC16Fault(t *rapid.T) *c16Fault {
	sn := pick(t, "snip", c16Snips)
	where := pick(t, "where", []string{"root", "root", "inc", "base", "baseblock", "childblock", "mac", "lazyinc"})
	pre := genC16Layout(t, "pre")
	if sn.exec && sn.kind != "macro_too_many" && drawInt(t, 0, 2, "decoy") == 0 {
		// the same construct once more, earlier, where it is never executed: the error must point at
		// the occurrence that failed, not at the first place the expression was written
		pre += "{% if zero %}" + sn.src + "{% endif %}" + genC16Layout(t, "pre2")
	}
	post := ""
	if !sn.atEOF && !sn.lexer {
		post = genC16Layout(t, "post")
	} else if sn.lexer && !sn.atEOF {
		post = pick(t, "lexpost", []string{"", " tail", "\nnext line", " {{ 1 }}"})
	}
	files := map[string]string{}
	cs := &c16Fault{Files: files, Kind: sn.kind, Exact: sn.exact, Exec: sn.exec, ViaCall: sn.viaCall, Before: sn.blame, After: len(sn.src) - sn.blame}
	body := pre + sn.src + post
	cs.Offset = len(pre) + sn.blame
	switch where {
	case "root":
		cs.File = "/root.tpl"
		files["/root.tpl"] = body
	case "inc":
		cs.File = "/d/inc.tpl"
		files["/d/inc.tpl"] = body
		files["/root.tpl"] = genC16Layout(t, "r1") + `{% include "/d/inc.tpl" %}` + genC16Layout(t, "r2")
	case "lazyinc":
		cs.File = "/d/lazy.tpl"
		cs.Exec = true // compiled at run time
		files["/d/lazy.tpl"] = body
		files["/root.tpl"] = genC16Layout(t, "r1") + `{% include lazyname %}` + genC16Layout(t, "r2")
	case "base":
		cs.File = "/base.tpl"
		files["/base.tpl"] = body + "{% block b %}B{% endblock %}"
		if sn.atEOF {
			files["/base.tpl"] = "{% block b %}B{% endblock %}" + body
			cs.Offset += len("{% block b %}B{% endblock %}")
		}
		files["/root.tpl"] = `{% extends "/base.tpl" %}{% block b %}child{% endblock %}`
	case "baseblock":
		if sn.atEOF || sn.kind == "macro_too_many" {
			cs.File = "/root.tpl"
			files["/root.tpl"] = body
			break
		}
		cs.File = "/base.tpl"
		files["/base.tpl"] = "{% block b %}" + body + "{% endblock %}tail"
		cs.Offset += len("{% block b %}")
		files["/root.tpl"] = `{% extends "/base.tpl" %}{% block other %}child{% endblock %}`
	case "childblock": // the fault sits in the child's override; execution runs in the base's context
		if sn.atEOF {
			cs.File = "/root.tpl"
			files["/root.tpl"] = body
			break
		}
		cs.File = "/root.tpl"
		head := `{% extends "/sub/base.tpl" %}` + genC16Layout(t, "c0") + "{% block b %}"
		files["/root.tpl"] = head + body + "{% endblock %}"
		cs.Offset += len(head)
		files["/sub/base.tpl"] = genC16Layout(t, "b0") + "<{% block b %}B{% endblock %}>\nend"
	case "mac":
		if sn.atEOF || sn.kind == "macro_too_many" {
			cs.File = "/root.tpl"
			files["/root.tpl"] = body
			break
		}
		cs.File = "/lib/mac.tpl"
		head := genC16Layout(t, "m0") + "{% macro helper(z) export %}"
		files["/lib/mac.tpl"] = head + body + "{% endmacro %}"
		cs.Offset += len(head)
		cs.ViaCall = sn.exec
		files["/root.tpl"] = genC16Layout(t, "r1") + `{% import "/lib/mac.tpl" helper %}{{ helper(1) }}`
	}
	if drawBool(t, "prefix") {
		cs.Prefix = genC16Layout(t, "prefix") + pick(t, "pfx", []string{"p\n", "", "é", "\r\n\r\n", "{# x #}", "\uFEFF"})
	}
	return cs
}

func c16Context() pongo2.Context {
	return pongo2.Context{
		"name": "N", "zero": 0, "n": 5, "lazyname": "/d/lazy.tpl",
		"greet": func(s string) string { return "hi " + s },
		"fails": func(i int) (int, error) {
			if i == 0 {
				return 0, fmt.Errorf("fails(0)")
			}
			return i, nil
		},
	}
}

func c16Run(files map[string]string) (*pongo2.Error, string, error) {
	set := pongo2.NewSet("c16", newMemLoader(files))
	tpl, err := set.FromFile("/root.tpl")
	phase := "compile"
	if err == nil {
		phase = "execute"
		_, err = tpl.Execute(c16Context())
	}
	if err == nil {
		return nil, phase, nil
	}
	pe, ok := err.(*pongo2.Error)
	if !ok {
		return nil, phase, fmt.Errorf("error is not a *pongo2.Error: %T %v", err, err)
	}
	return pe, phase, nil
}

func c16Locate(cs *c16Fault, files map[string]string, e *pongo2.Error, phase string) (int, bool, error) {
	named := e.Filename
	if phase == "compile" && e.Filename == "" {
		return 0, false, fmt.Errorf("compile error does not name a template: %v", e)
	}
	if e.Line > 0 && named == "" {
		return 0, false, fmt.Errorf("error carries line %d col %d but names no source the position could refer to: %v", e.Line, e.Column, e)
	}
	if e.Line <= 0 {
		return 0, false, nil // no position carried
	}
	if named != cs.File {
		if _, known := files[named]; !(cs.ViaCall && known) {
			return 0, false, fmt.Errorf("error with a position names %q, the fault is in %q: %v", named, cs.File, e)
		}
	}
	src := files[named]
	off, ok := offsetOf(src, e.Line, e.Column)
	if !ok {
		return 0, false, fmt.Errorf("error points to line %d col %d, which is outside %s (%d bytes): %v", e.Line, e.Column, cs.File, len(src), e)
	}
	if e.Token != nil {
		if e.Token.Filename != named {
			return 0, false, fmt.Errorf("error names %q but its token comes from %q: %v", named, e.Token.Filename, e)
		}
		text := e.Token.Val
		switch {
		case e.Token.Typ == pongo2.TokenString:
			text = ""
			if off >= len(src) || (src[off] != '"' && src[off] != '\'') {
				return 0, false, fmt.Errorf("error near a string token, but no quote at line %d col %d of %s: %v", e.Line, e.Column, cs.File, e)
			}
		case e.Token.Typ == pongo2.TokenSymbol && e.Token.TrimWhitespaces:
			if strings.HasPrefix(text, "{") {
				text += "-"
			} else {
				text = "-" + text
			}
		}
		if !strings.HasPrefix(src[off:], text) {
			return 0, false, fmt.Errorf("error reports token %q at line %d col %d of %s, but the source has %q there: %v", e.Token.Val, e.Line, e.Column, cs.File, clip(src[off:], 20), e)
		}
	}
	if named != cs.File {
		return 0, false, nil // consistent position at the call site; not comparable with the planted offset
	}
	return off, true, nil
}

func clip(s string, n int) string {
	if len(s) > n {
		return s[:n]
	}
	return s
}

func checkC16Fault(c any, r *Rec) error {
	cs := c.(*c16Fault)
	e, phase, err := c16Run(cs.Files)
	if err != nil {
		return err
	}
	if e == nil {
		if !c16MustFail[cs.Kind] {
			// C16 is about where errors point. Whether this construct is an error at all is stated
			// by no property (a lexer may accept a newline inside a tag, another escape sequence, ...)
			r.Class("accepted-today:" + cs.Kind)
			return nil
		}
		return fmt.Errorf("planted fault %s in %s was not reported at all\n files=%q", cs.Kind, cs.File, cs.Files)
	}
	if (phase == "execute") != cs.Exec {
		return fmt.Errorf("fault %s reported in phase %s (exec expected: %v): %v", cs.Kind, phase, cs.Exec, e)
	}
	off, has, err := c16Locate(cs, cs.Files, e, phase)
	if err != nil {
		return fmt.Errorf("%s: %v\n files=%q", cs.Kind, err, cs.Files)
	}
	if has && cs.Exact && (off < cs.Offset-cs.Before || off > cs.Offset+cs.After) {
		l, cl := lineCol(cs.Files[cs.File], cs.Offset)
		return fmt.Errorf("%s: error points to line %d col %d (offset %d), outside the faulty construct (offsets %d..%d, faulty lexeme at line %d col %d) of %s: %v\n files=%q", cs.Kind, e.Line, e.Column, off, cs.Offset-cs.Before, cs.Offset+cs.After, l, cl, cs.File, e, cs.Files)
	}
	r.Class("kind:" + cs.Kind)
	r.Class("file:" + cs.File)
	if !has {
		r.Class("no-position")
	}
	// metamorphic: inserting text in front shifts the position by exactly that text
	if cs.Prefix != "" && has {
		files2 := copyFiles(cs.Files)
		ins := 0
		if strings.HasPrefix(files2[cs.File], "{% extends") {
			ins = strings.Index(files2[cs.File], "%}") + 2
		}
		files2[cs.File] = files2[cs.File][:ins] + cs.Prefix + files2[cs.File][ins:]
		e2, _, err := c16Run(files2)
		if err != nil {
			return err
		}
		if e2 == nil {
			return fmt.Errorf("%s: fault no longer reported after inserting %q in front", cs.Kind, cs.Prefix)
		}
		cs2 := *cs
		off2, has2, err := c16Locate(&cs2, files2, e2, phase)
		if err != nil {
			return fmt.Errorf("%s after inserting %q: %v", cs.Kind, cs.Prefix, err)
		}
		if !has2 || off2 != off+len(cs.Prefix) {
			return fmt.Errorf("%s: inserting %q (%d bytes) in front moved the reported offset from %d to %d (has position: %v): %v", cs.Kind, cs.Prefix, len(cs.Prefix), off, off2, has2, e2)
		}
		r.Class("prefix-shift-checked")
	}
	if has {
		l, _ := lineCol(cs.Files[cs.File], cs.Offset)
		if l > 1 || cs.File != "/root.tpl" || strings.ContainsAny(cs.Files[cs.File][:cs.Offset], "é世\\#") {
			r.NonTrivial(fmt.Sprintf("%q|%s|%s", cs.Files, cs.Kind, cs.Prefix))
		}
	}
	return nil
}

var _ = register(&propSpec{
	ID:    "C16.fault",
	Rule:  "valid 1-3 file sets (root, static/lazy include, extends base in and outside a block, imported macro) with random layout (multi-line, CRLF, multi-byte, comments, verbatim, escaped strings, trim tags), broken by exactly one planted fault at a known lexeme (22 kinds: unknown tag/filter, missing/malformed arguments, unclosed string/comment/verbatim/block, bad escape, newline in tag, division/modulo by zero, non-function call, wrong arity/type, failing function, filter error, macro arity...); the *pongo2.Error must name the faulty file, its line/column must lie inside that file, the reported token's text must be found there, for 16 kinds the position must be exactly the faulty lexeme, and inserting text in front must shift the position by exactly that text. Non-trivial: fault beyond line 1, in a non-root file, or preceded by multi-byte/escape/comment text.",
	Gen:   func(t *rapid.T) any { return genC16Fault(t) },
	New:   func() any { return &c16Fault{} },
	Check: checkC16Fault,
})

func TestC16Fault(t *testing.T) { runProp(t, "C16.fault") }

// ---------------------------------------------------------------------------
// C16.anyerror — whatever goes wrong in an arbitrary (token-mutated) multi-file
// program: an error that carries a position must name one of the sources and
// point inside it, and the reported token's text must be found there.

type c16Any struct {
	Files   map[string]string `json:"files"`
	Entry   string            `json:"entry"`
	Muts    []c01Mut          `json:"muts,omitempty"`
	MutFile string            `json:"mut_file"` // file the mutations are applied to
	Variant int               `json:"variant"`
}

func checkC16Any(c any, r *Rec) error {
	cs := c.(*c16Any)
	files := copyFiles(cs.Files)
	if src, ok := files[cs.MutFile]; ok {
		files[cs.MutFile] = c01ApplyMuts(src, cs.Muts)
	}
	anyLd := newMemLoader(files)
	set := pongo2.NewSet("c16any", anyLd)
	tpl, err := set.FromFile(cs.Entry)
	phase := "compile"
	if err == nil {
		phase = "execute"
		_, err = tpl.Execute(progContext(cs.Variant, nil))
	}
	if err == nil {
		r.Class("no-error")
		return nil
	}
	e, ok := err.(*pongo2.Error)
	if !ok {
		return fmt.Errorf("%s error is %T, not *pongo2.Error: %v", phase, err, err)
	}
	named := e.Filename
	if phase == "compile" && e.Filename == "" {
		return fmt.Errorf("compile error does not name a template: %v\n files=%q", e, files)
	}
	if e.Line > 0 && named == "" {
		return fmt.Errorf("%s error carries line %d col %d but names no source the position could refer to: %v\n files=%q", phase, e.Line, e.Column, e, files)
	}
	if e.Line <= 0 {
		r.Class(phase + ":no-position")
		return nil
	}
	src, known := files[named]
	if !known {
		// a template that could not be loaded: the error names the missing file (there is no
		// source to point into) and carries the position of the tag that referred to it.
		// Recognised by what it is - a name the loader was asked for and does not have - not by the
		// error's Sender text.
		anyLd.mu.Lock()
		asked := anyLd.misses[named] > 0
		anyLd.mu.Unlock()
		if asked {
			r.Class(phase + ":missing-file")
			return nil
		}
		return fmt.Errorf("%s error carries line %d col %d but names %q, which is none of the sources: %v\n files=%q", phase, e.Line, e.Column, named, e, files)
	}
	off, inside := offsetOf(src, e.Line, e.Column)
	if !inside {
		return fmt.Errorf("%s error points to line %d col %d, outside %s (%d bytes): %v\n files=%q", phase, e.Line, e.Column, named, len(src), e, files)
	}
	if e.Token != nil {
		if e.Token.Filename != named {
			return fmt.Errorf("%s error names %q but its token comes from %q: %v\n files=%q", phase, named, e.Token.Filename, e, files)
		}
		text := e.Token.Val
		switch {
		case e.Token.Typ == pongo2.TokenString:
			text = ""
			if off >= len(src) || (src[off] != '"' && src[off] != '\'') {
				return fmt.Errorf("%s error near a string token, but no quote at line %d col %d of %s: %v\n files=%q", phase, e.Line, e.Column, named, e, files)
			}
		case e.Token.Typ == pongo2.TokenSymbol && e.Token.TrimWhitespaces:
			if strings.HasPrefix(text, "{") {
				text += "-"
			} else {
				text = "-" + text
			}
		}
		if !strings.HasPrefix(src[off:], text) {
			return fmt.Errorf("%s error reports token %q at line %d col %d of %s, but the source has %q there: %v\n files=%q", phase, e.Token.Val, e.Line, e.Column, named, clip(src[off:], 20), e, files)
		}
	}
	r.Class(phase + ":positioned")
	l, _ := lineCol(src, off)
	if l > 1 || named != cs.Entry {
		r.NonTrivial(fmt.Sprintf("%q|%d", files, cs.Variant))
	}
	return nil
}

var _ = register(&propSpec{
	ID:   "C16.anyerror",
	Rule: "generated multi-file programs (includes static/lazy, import, ssi, extends) with error-prone constructs and 0-3 token-level mutations (delete, duplicate, swap, replace, insert) applied to a random file: whatever error results at compile or execution time, if it carries a position it must name one of the sources, point inside it, and the reported token's text must be found at that position; compile errors must name a template. Non-trivial: positioned error beyond line 1 or in a non-entry file.",
	Gen: func(t *rapid.T) any {
		pr := genProgram(t, progOpts{includes: true, inherit: true, stateful: true, errProne: true, maxDepth: 3, maxNodes: 25})
		// multi-line sources: sprinkle newlines between top-level pieces of every generated file
		names := make([]string, 0, len(pr.Files))
		for n := range pr.Files {
			names = append(names, n)
		}
		sortStringsInPlace(names)
		cs := &c16Any{Files: pr.Files, Entry: pr.Entry, Variant: drawInt(t, 0, 11, "variant")}
		cs.MutFile = pick(t, "mutfile", names)
		cs.Muts = genC01Muts(t, 3)
		return cs
	},
	New:   func() any { return &c16Any{} },
	Check: checkC16Any,
})

func TestC16AnyError(t *testing.T) { runProp(t, "C16.anyerror") }
