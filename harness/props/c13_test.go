package props

// C13: macros bind arguments by position with defaults; recursion is bounded.

import (
	"fmt"
	"strings"
	"testing"

	"github.com/flosch/pongo2/v6"
	"pgregory.net/rapid"
)

// ---- C13.bind: signatures x call sites x three forms (local / imported / aliased) ----

type c13Bind struct {
	Macro  MNode   `json:"macro"`  // the macro under test (name "mac")
	Helper *MNode  `json:"helper"` // optional co-defined macro "hlp" the body may call
	Pre    []MNode `json:"pre"`    // statements before the call in the calling template (set ...)
	Calls  []MNode `json:"calls"`  // call sites
	Ctx    Val     `json:"ctx"`
}

var c13ParamNames = []string{"p", "q", "r", "s"}

func c13Arg(t *rapid.T) ME {
	switch drawInt(t, 0, 6, "ak") {
	case 0:
		return ME{K: "int", I: drawInt(t, 0, 99, "ai")}
	case 1:
		return ME{K: "str", S: pick(t, "as", []string{"", "plain", "<b>&'\"", "a b", "é"})}
	case 2:
		return ME{K: pick(t, "ab", []string{"true", "false"})}
	case 3:
		// a real expression (arguments and defaults are expressions, not just names and literals)
		l, r := ME{K: "name", N: "ci"}, ME{K: "int", I: drawInt(t, 0, 9, "er")}
		switch pick(t, "ek", []string{"sub", "not", "eq", "lt"}) {
		case "sub":
			return ME{K: "sub", L: &l, R: &r}
		case "not":
			// (of a boolean: the negation of a number prints 0 / 1 in pongo2, False / True elsewhere - not fixed)
			inner := ME{K: "eq", L: &l, R: &r}
			return ME{K: "not", L: &inner}
		case "eq":
			return ME{K: "eq", L: &l, R: &r}
		}
		return ME{K: "lt", L: &r, R: &l}
	default:
		return ME{K: "name", N: pick(t, "an", []string{"cs", "ci", "cl", "cnil", "undefined", "later", "cesc"})}
	}
}

func genC13Bind(t *rapid.T) *c13Bind {
	cs := &c13Bind{}
	np := drawInt(t, 0, 4, "nparams")
	mac := MNode{K: "macro", Name: "mac", Export: true}
	for i := 0; i < np; i++ {
		p := MParam{Name: c13ParamNames[i]}
		if drawBool(t, "hasdef") {
			d := c13Arg(t)
			p.Def = &d
		}
		mac.Params = append(mac.Params, p)
	}
	// body prints every parameter, in random order, between markers, plus context names
	mac.Body = append(mac.Body, MNode{K: "text", Text: "["})
	for i := 0; i < np; i++ {
		e := ME{K: "name", N: c13ParamNames[(i+drawInt(t, 0, 3, "rot"))%max1(np)]}
		mac.Body = append(mac.Body, MNode{K: "probe", E: &e}, MNode{K: "text", Text: ";"})
	}
	for i := 0; i < np; i++ {
		e := ME{K: "name", N: c13ParamNames[i]}
		mac.Body = append(mac.Body, MNode{K: "probe", E: &e}, MNode{K: "text", Text: ","})
	}
	if drawBool(t, "ctxprobe") {
		e := ME{K: "name", N: pick(t, "cp", []string{"cs", "later", "cesc"})}
		mac.Body = append(mac.Body, MNode{K: "probe", E: &e})
	}
	if drawBool(t, "helper") {
		h := MNode{K: "macro", Name: "hlp", Export: true, Params: []MParam{{Name: "h"}}, Body: []MNode{{K: "text", Text: "<"}, {K: "probe", E: &ME{K: "name", N: "h"}}, {K: "text", Text: ">"}}}
		cs.Helper = &h
		arg := c13Arg(t)
		if np > 0 {
			arg = ME{K: "name", N: c13ParamNames[0]}
		}
		mac.Body = append(mac.Body, MNode{K: "call", Name: "hlp", Es: []ME{arg}})
	}
	if drawInt(t, 0, 3, "loop") == 0 && np > 0 {
		inner := ME{K: "name", N: c13ParamNames[0]}
		e := ME{K: "name", N: c13ParamNames[np-1]}
		mac.Body = append(mac.Body, MNode{K: "for", Name: "it", E: &e, Body: []MNode{{K: "probe", E: &ME{K: "name", N: "it"}}, {K: "probe", E: &inner}}})
	}
	mac.Body = append(mac.Body, MNode{K: "text", Text: "]"})
	cs.Macro = mac
	if drawBool(t, "setlater") {
		e := c13Arg(t)
		cs.Pre = append(cs.Pre, MNode{K: "set", Name: "later", E: &e})
	}
	for i := drawInt(t, 1, 3, "ncalls"); i > 0; i-- {
		call := MNode{K: "call", Name: "mac"}
		for j := drawInt(t, 0, 5, "nargs"); j > 0; j-- {
			call.Es = append(call.Es, c13Arg(t))
		}
		cs.Calls = append(cs.Calls, call, MNode{K: "text", Text: "|"})
	}
	cs.Ctx = ctxVal("cs", vStr("ctx-str"), "ci", vInt(7), "cl", vStrs("x", "<y>"), "cnil", vNil(), "cesc", vStr("<&>"))
	// names of the caller's world that collide with parameter names: an omitted parameter must still shadow them
	for _, nm := range c13ParamNames {
		switch drawInt(t, 0, 3, "collide_"+nm) {
		case 0:
			cs.Ctx.Ks = append(cs.Ctx.Ks, vStr(nm))
			cs.Ctx.E = append(cs.Ctx.E, vStr("CTX-"+nm))
		case 1:
			e := ME{K: "str", S: "SET-" + nm}
			cs.Pre = append(cs.Pre, MNode{K: "set", Name: nm, E: &e})
		}
	}
	return cs
}

func max1(n int) int {
	if n < 1 {
		return 1
	}
	return n
}

// the three forms of the same program
func (cs *c13Bind) forms() map[string]struct {
	root  []MNode
	files map[string][]MNode
} {
	out := map[string]struct {
		root  []MNode
		files map[string][]MNode
	}{}
	defs := []MNode{}
	if cs.Helper != nil {
		defs = append(defs, *cs.Helper)
	}
	defs = append(defs, cs.Macro)
	// local definition
	local := append(append(append([]MNode{}, defs...), cs.Pre...), cs.Calls...)
	out["local"] = struct {
		root  []MNode
		files map[string][]MNode
	}{local, nil}
	// imported from a helper file
	files := map[string][]MNode{"/lib/macros.tpl": defs}
	imps := []MPair{{Name: "mac"}}
	if cs.Helper != nil {
		imps = append(imps, MPair{Name: "hlp"})
	}
	imported := append(append([]MNode{{K: "import", Name: "/lib/macros.tpl", Imps: imps}}, cs.Pre...), cs.Calls...)
	out["imported"] = struct {
		root  []MNode
		files map[string][]MNode
	}{imported, files}
	// imported under an alias
	aimps := []MPair{{Name: "mac", E: ME{S: "alias"}}}
	if cs.Helper != nil {
		aimps = append(aimps, MPair{Name: "hlp"})
	}
	var acalls []MNode
	for _, c := range cs.Calls {
		if c.K == "call" {
			c.Name = "alias"
		}
		acalls = append(acalls, c)
	}
	aliased := append(append([]MNode{{K: "import", Name: "/lib/macros.tpl", Imps: aimps}}, cs.Pre...), acalls...)
	out["aliased"] = struct {
		root  []MNode
		files map[string][]MNode
	}{aliased, files}
	return out
}

func checkC13Bind(c any, r *Rec) error {
	cs := c.(*c13Bind)
	empty := Val{K: "mapSA"}
	var firstOut, firstForm string
	var firstErr bool
	argcNeqParamc, usedDefault := false, false
	for _, call := range cs.Calls {
		if call.K != "call" {
			continue
		}
		if len(call.Es) != len(cs.Macro.Params) {
			argcNeqParamc = true
		}
		for i, p := range cs.Macro.Params {
			if i >= len(call.Es) && p.Def != nil {
				usedDefault = true
			}
		}
	}
	for _, form := range []string{"local", "imported", "aliased"} {
		f := cs.forms()[form]
		want, werr := mmReference(f.root, f.files, empty, cs.Ctx)
		if werr != nil && strings.HasPrefix(werr.msg, "opaque:") {
			return skipf("%s", werr.msg)
		}
		got, gerr, _, _ := mmEngine(f.root, f.files, empty, cs.Ctx)
		desc := fmt.Sprintf("form=%s root=%q files=%v", form, mmSrc(f.root), c12FilesSrc(f.files))
		// the same compiled template executed again, with another context: macros (also imported
		// ones) see the context of the execution they are called in
		if err := c13SecondContext(cs, f.root, f.files); err != nil {
			return fmt.Errorf("%v\n %s", err, desc)
		}
		if gerr != nil && strings.HasPrefix(gerr.Error(), "compile:") {
			return fmt.Errorf("does not compile: %v\n %s", gerr, desc)
		}
		if werr != nil {
			if gerr == nil {
				return fmt.Errorf("expected an execution error (%s), rendered %q\n %s", werr.msg, got, desc)
			}
		} else {
			if gerr != nil {
				return fmt.Errorf("unexpected execution error %v (reference output %q)\n %s", gerr, want, desc)
			}
			if got != want {
				return fmt.Errorf("macro binding differs from the reference\n got  %q\n want %q\n %s", got, want, desc)
			}
		}
		if firstForm == "" {
			firstForm, firstOut, firstErr = form, got, gerr != nil
		} else if got != firstOut || (gerr != nil) != firstErr {
			return fmt.Errorf("the %s form renders %q (error: %v) but the %s form %q (error: %v)\n %s", form, got, gerr != nil, firstForm, firstOut, firstErr, desc)
		}
	}
	// importing under an alias binds the alias and nothing else: the macro's own name still
	// denotes whatever the importer's world says (here: a context entry)
	{
		f := cs.forms()["aliased"]
		root := append(append([]MNode{}, f.root...), MNode{K: "text", Text: "~"}, MNode{K: "probe", E: &ME{K: "name", N: "mac"}}, MNode{K: "text", Text: "~"})
		ctx := cs.Ctx
		ctx.Ks = append(append([]Val{}, cs.Ctx.Ks...), vStr("mac"))
		ctx.E = append(append([]Val{}, cs.Ctx.E...), vStr("CTX-mac"))
		want, werr := mmReference(root, f.files, empty, ctx)
		got, gerr, _, _ := mmEngine(root, f.files, empty, ctx)
		if werr == nil && (gerr != nil || got != want) {
			return fmt.Errorf("aliased import, the macro's own name read afterwards: got %q err=%v, want %q\n root=%q files=%v", got, gerr, want, mmSrc(root), c12FilesSrc(f.files))
		}
	}
	// the result of a call is markup of its own, wherever and whenever it is printed: produced
	// inside an autoescape-off region, kept with set and printed later under autoescape on it
	// must read exactly as printed on the spot
	if !firstErr {
		defs := []MNode{}
		if cs.Helper != nil {
			defs = append(defs, *cs.Helper)
		}
		defs = append(append(defs, cs.Macro), cs.Pre...)
		for _, call := range cs.Calls {
			if call.K != "call" {
				continue
			}
			expr := strings.TrimSuffix(strings.TrimPrefix(mmSrc([]MNode{call}), "{{ "), " }}")
			p1 := mmSrc(defs) + "{% autoescape off %}{{ " + expr + " }}{% endautoescape %}"
			p2 := mmSrc(defs) + "{% autoescape off %}{% set keep = " + expr + " %}{% endautoescape %}{{ keep }}"
			var outs [2]string
			var errs [2]error
			for i, src := range []string{p1, p2} {
				tpl, err := pongo2.NewSet("c13keep", &memLoader{}).FromString(src)
				if err != nil {
					return fmt.Errorf("%q does not compile: %v", src, err)
				}
				outs[i], errs[i] = tpl.Execute(BuildContext(cs.Ctx))
			}
			if (errs[0] == nil) != (errs[1] == nil) || outs[0] != outs[1] {
				return fmt.Errorf("a macro result printed on the spot renders %q (err %v), kept with set and printed after the autoescape-off region %q (err %v)\n %q\n %q", outs[0], errs[0], outs[1], errs[1], p1, p2)
			}
			break
		}
	}
	if firstErr {
		r.Class("too-many-arguments-error")
	}
	if usedDefault {
		r.Class("default-used")
	}
	r.Class(fmt.Sprintf("params:%d", len(cs.Macro.Params)))
	_ = argcNeqParamc
	j, _ := jsonString(cs)
	r.NonTrivial(j) // every case includes the imported and aliased forms
	return nil
}

var _ = register(&propSpec{
	ID:    "C13.bind",
	Rule:  "macro signatures with 0-4 parameters, any subset with defaults (literals needing escaping, context names incl. nil / undefined / a name set after the definition); 1-3 call sites with 0-5 arguments (ints, strings with all five specials, bools, lists, nil); the body prints every parameter twice, context names, calls a co-defined helper macro and loops over a parameter. Each program is rendered in three forms - local definition, imported, imported under an alias - which must agree with each other and with the reference interpreter (i-th argument to i-th parameter, omitted => default evaluated in the defining scope or empty, too many => execution error, parameters escaped once inside the body, result inserted without a second escaping). Every case is non-trivial (imported forms); distinct by whole case.",
	Gen:   func(t *rapid.T) any { return genC13Bind(t) },
	New:   func() any { return &c13Bind{} },
	Check: checkC13Bind,
})

func TestC13Bind(t *testing.T) { runProp(t, "C13.bind") }

// ---- C13.recursion: runaway and terminating recursion ------------------------------

type c13Edge struct {
	To  int    `json:"to"`
	Via string `json:"via"` // body | default | arg
}

type c13Rec struct {
	N     int         `json:"n"`     // number of macros (1..3)
	Edges [][]c13Edge `json:"edges"` // per macro: calls it makes
	Where []string    `json:"where"` // per macro: local | imported
	Depth int         `json:"depth"` // > 0: terminating recursion of this depth (control); 0: no base case
	Wrap  string      `json:"wrap"`  // construct around the recursive call in the body
}

func (cs *c13Rec) program() ([]MNode, map[string][]MNode) {
	name := func(i int) string { return fmt.Sprintf("r%d", i) }
	var local, lib []MNode
	for i := 0; i < cs.N; i++ {
		m := MNode{K: "macro", Name: name(i), Export: true, Params: []MParam{{Name: "n"}}}
		var body []MNode
		body = append(body, MNode{K: "text", Text: "("})
		for _, e := range cs.Edges[i] {
			arg := ME{K: "name", N: "n"}
			if cs.Depth > 0 {
				arg = ME{K: "sub", L: &ME{K: "name", N: "n"}, R: &ME{K: "int", I: 1}}
			}
			callE := ME{K: "call", N: name(e.To), Args: []ME{arg}}
			switch e.Via {
			case "default":
				// recursion through a parameter's default expression
				d := callE
				m.Params = append(m.Params, MParam{Name: fmt.Sprintf("d%d", len(m.Params)), Def: &d})
			case "arg":
				// recursion through an argument expression of a call to the helper "idm"
				body = append(body, MNode{K: "call", Name: "idm", Es: []ME{callE}})
			default:
				body = append(body, MNode{K: "probe", E: &callE})
			}
		}
		body = append(body, MNode{K: "text", Text: ")"})
		if cs.Depth > 0 {
			// base case: only recurse while n is non-zero
			cond := ME{K: "name", N: "n"}
			body = []MNode{{K: "if", E: &cond, Body: body, HasAlt: true, Alt: []MNode{{K: "text", Text: "."}}}}
			// defaults recurse unconditionally: not usable for the terminating control
		}
		switch cs.Wrap {
		case "for":
			e := ME{K: "str", S: "x"}
			body = []MNode{{K: "for", Name: "w", E: &e, Body: body}}
		case "with":
			body = []MNode{{K: "with", Pairs: []MPair{{Name: "w", E: ME{K: "int", I: 1}}}, Body: body}}
		case "if":
			c := ME{K: "int", I: 1}
			body = []MNode{{K: "if", E: &c, Body: body}}
		}
		m.Body = body
		if cs.Where[i] == "imported" {
			lib = append(lib, m)
		} else {
			local = append(local, m)
		}
	}
	idm := MNode{K: "macro", Name: "idm", Params: []MParam{{Name: "v"}}, Body: []MNode{{K: "probe", E: &ME{K: "name", N: "v"}}}}
	var root []MNode
	files := map[string][]MNode{}
	if len(lib) > 0 {
		files["/lib/rec.tpl"] = lib
		var imps []MPair
		for _, m := range lib {
			imps = append(imps, MPair{Name: m.Name})
		}
		root = append(root, MNode{K: "import", Name: "/lib/rec.tpl", Imps: imps})
	}
	root = append(root, idm)
	root = append(root, local...)
	start := ME{K: "int", I: cs.Depth}
	root = append(root, MNode{K: "text", Text: "start"}, MNode{K: "call", Name: "r0", Es: []ME{start}}, MNode{K: "text", Text: "end"})
	return root, files
}

func checkC13Rec(c any, r *Rec) error {
	cs := c.(*c13Rec)
	if cs.Depth > 0 {
		for i := range cs.Edges {
			for _, e := range cs.Edges[i] {
				if e.Via == "default" {
					return skipf("defaults recurse unconditionally")
				}
			}
		}
	}
	root, files := cs.program()
	empty := Val{K: "mapSA"}
	desc := fmt.Sprintf("root=%q files=%v", mmSrc(root), c12FilesSrc(files))
	got, gerr, _, _ := mmEngine(root, files, empty, empty)
	if gerr != nil && strings.HasPrefix(gerr.Error(), "compile:") {
		return fmt.Errorf("does not compile: %v\n %s", gerr, desc)
	}
	reaches := len(cs.Edges[0]) > 0
	if cs.Depth == 0 && reaches {
		// every macro reachable from r0 calls on without a base case (generator guarantees out-degree >= 1)
		if gerr == nil {
			return fmt.Errorf("runaway recursion rendered %q without an error\n %s", clip(got, 200), desc)
		}
		r.Class("runaway:" + strings.Join(cs.Where, "+"))
		r.NonTrivial(desc)
		return nil
	}
	want, werr := mmReference(root, files, empty, empty)
	if werr != nil {
		return fmt.Errorf("reference failed on a terminating recursion: %s\n %s", werr.msg, desc)
	}
	if gerr != nil {
		return fmt.Errorf("terminating recursion of depth %d failed: %v\n %s", cs.Depth, gerr, desc)
	}
	if got != want {
		return fmt.Errorf("terminating recursion renders %q, reference %q\n %s", clip(got, 300), clip(want, 300), desc)
	}
	r.Class("terminating")
	r.NonTrivial(desc)
	return nil
}

func genC13Rec(t *rapid.T) *c13Rec {
	cs := &c13Rec{N: drawInt(t, 1, 3, "n"), Wrap: pick(t, "wrap", []string{"", "", "for", "with", "if"})}
	if drawInt(t, 0, 4, "control") == 0 {
		cs.Depth = drawInt(t, 1, 50, "depth")
	}
	for i := 0; i < cs.N; i++ {
		cs.Where = append(cs.Where, pick(t, "where", []string{"local", "imported"}))
		var es []c13Edge
		// out-degree 1 or 2 (a control with branching 2 would be exponential: keep it linear there)
		deg := drawInt(t, 1, 2, "deg")
		if cs.Depth > 0 {
			deg = 1
		}
		for d := 0; d < deg; d++ {
			to := drawInt(t, 0, cs.N-1, "to")
			// a local macro can only see imported macros and local macros; an imported macro sees
			// whatever the importing template has in scope at call time: all of them
			via := pick(t, "via", []string{"body", "body", "default", "arg"})
			if cs.Depth > 0 {
				via = pick(t, "via2", []string{"body", "arg"})
			}
			es = append(es, c13Edge{To: to, Via: via})
		}
		cs.Edges = append(cs.Edges, es)
	}
	return cs
}

var _ = register(&propSpec{
	ID:    "C13.recursion",
	Journ: true,
	Rule:  "call graphs over 1-3 macros where every macro calls on (out-degree 1-2: direct, mutual, branching), through the body, through a parameter's default expression, or through an argument of another call; each macro defined locally or imported (all local / all imported / mixed); the recursive call optionally wrapped in for / with / if. Without a base case the execution must end in an error and the worker process must survive (a fatal stack overflow kills it; the journalled case is then confirmed in a fresh process). Controls: the same graphs with a counter argument terminate after 1-50 levels and must render exactly like the reference interpreter. Every case is non-trivial; distinct by program.",
	Gen:   func(t *rapid.T) any { return genC13Rec(t) },
	New:   func() any { return &c13Rec{} },
	Check: checkC13Rec,
})

func TestC13Recursion(t *testing.T) { runProp(t, "C13.recursion") }

// all graphs over <= 3 macros with out-degree exactly 1 x {local, imported}^n x via
func TestC13RecursionEnum(t *testing.T) {
	enumerate(t, "C13.recursion", "enum", func(yield func(any) bool) {
		vias := []string{"body", "default", "arg"}
		for n := 1; n <= envInt("VERIF_C13_ENUM_N", 2); n++ {
			total := 1
			for i := 0; i < n; i++ {
				total *= n * 2 * len(vias)
			}
			for code := 0; code < total; code++ {
				cs := &c13Rec{N: n}
				x := code
				for i := 0; i < n; i++ {
					to := x % n
					x /= n
					where := []string{"local", "imported"}[x%2]
					x /= 2
					via := vias[x%len(vias)]
					x /= len(vias)
					cs.Where = append(cs.Where, where)
					cs.Edges = append(cs.Edges, []c13Edge{{To: to, Via: via}})
				}
				if !yield(cs) {
					return
				}
			}
		}
	})
}

func c13SecondContext(cs *c13Bind, root []MNode, files map[string][]MNode) error {
	fs := map[string]string{}
	for name, ns := range files {
		fs[name] = mmSrc(ns)
	}
	fs["/root.tpl"] = mmSrc(root)
	tpl, err := pongo2.NewSet("c13b", newMemLoader(fs)).FromFile("/root.tpl")
	if err != nil {
		return nil // reported by the main path
	}
	other := Val{K: "mapSA"}
	for i, k := range cs.Ctx.Ks {
		v := cs.Ctx.E[i]
		if v.K == "str" {
			v = vStr("2nd-" + v.Str())
		}
		other.Ks = append(other.Ks, k)
		other.E = append(other.E, v)
	}
	empty := Val{K: "mapSA"}
	for i, c := range []Val{cs.Ctx, other, cs.Ctx} {
		want, werr := mmReference(root, files, empty, c)
		if werr != nil && strings.HasPrefix(werr.msg, "opaque:") {
			return nil
		}
		got, gerr := tpl.Execute(BuildContext(c))
		if (werr != nil) != (gerr != nil) {
			return fmt.Errorf("execution %d on one compiled template: error expected %v, got %v", i+1, werr != nil, gerr)
		}
		if werr == nil && got != want {
			return fmt.Errorf("execution %d on one compiled template (context %s): got %q, reference %q", i+1, descVal(c), got, want)
		}
	}
	return nil
}
