package props

// Typed value descriptors: every context value used by a check is described
// by a JSON-serialisable Val tree and materialised into a real Go value by
// Build. Reference models walk the descriptor, never the Go value.

import (
	"encoding/json"
	"errors"
	"fmt"
	"math"
	"reflect"
	"sort"
	"strconv"
	"strings"
	"time"
	"unicode/utf8"

	"github.com/flosch/pongo2/v6"
)

type Val struct {
	K  string `json:"k"`           // kind, see Build
	S  string `json:"s,omitempty"` // string payload (valid UTF-8)
	B  []byte `json:"b,omitempty"` // string payload when not valid UTF-8
	I  int64  `json:"i,omitempty"`
	U  uint64 `json:"u,omitempty"`
	F  string `json:"f,omitempty"` // float payload as strconv 'g' / NaN / +Inf / -Inf
	Bo bool   `json:"bo,omitempty"`
	E  []Val  `json:"e,omitempty"`    // elements / struct fields / map values / func result
	Ks []Val  `json:"keys,omitempty"` // map keys (parallel to E)
	T  string `json:"t,omitempty"`    // type selector for ptr/struct/func shapes
}

func vNil() Val { return Val{K: "nil"} }
func vStr(s string) Val {
	if utf8.ValidString(s) {
		return Val{K: "str", S: s}
	}
	return Val{K: "str", B: []byte(s)}
}
func vInt(i int) Val                { return Val{K: "int", I: int64(i)} }
func vIntK(k string, i int64) Val   { return Val{K: k, I: i} }
func vUintK(k string, u uint64) Val { return Val{K: k, U: u} }
func vBool(b bool) Val              { return Val{K: "bool", Bo: b} }
func vF64(f float64) Val            { return Val{K: "f64", F: fmtFloatPayload(f)} }
func vF32(f float32) Val            { return Val{K: "f32", F: fmtFloatPayload(float64(f))} }
func vStrs(xs ...string) Val {
	v := Val{K: "strs"}
	for _, x := range xs {
		v.E = append(v.E, vStr(x))
	}
	return v
}
func vInts(xs ...int) Val {
	v := Val{K: "ints"}
	for _, x := range xs {
		v.E = append(v.E, vInt(x))
	}
	return v
}
func vAnys(xs ...Val) Val { return Val{K: "anys", E: xs} }

func fmtFloatPayload(f float64) string {
	switch {
	case math.IsNaN(f):
		return "NaN"
	case math.IsInf(f, 1):
		return "+Inf"
	case math.IsInf(f, -1):
		return "-Inf"
	}
	return strconv.FormatFloat(f, 'g', -1, 64)
}

func (v Val) Str() string {
	if v.B != nil {
		return string(v.B)
	}
	return v.S
}

func (v Val) Float() float64 {
	f, err := strconv.ParseFloat(v.F, 64)
	if err != nil {
		switch v.F {
		case "NaN":
			return math.NaN()
		case "+Inf":
			return math.Inf(1)
		case "-Inf":
			return math.Inf(-1)
		}
		return 0
	}
	return f
}

func (v Val) IsIntKind() bool {
	switch v.K {
	case "int", "int8", "int16", "int32", "int64", "uint", "uint8", "uint16", "uint32", "uint64":
		return true
	}
	return false
}

func (v Val) IsUintKind() bool { return strings.HasPrefix(v.K, "uint") }

func (v Val) IsFloatKind() bool { return v.K == "f32" || v.K == "f64" }

// Int returns the numeric value of an integer-kind descriptor as int64
// (uint64 values above MaxInt64 wrap, like Go's int conversion does).
func (v Val) Int() int64 {
	if v.IsUintKind() {
		return int64(v.U)
	}
	return v.I
}

// ---------------------------------------------------------------------------
// zoo of declared Go types

type ZInner struct {
	A    int
	b    string //nolint:unused
	B    string // exported twin of b: a name is case-sensitive
	Any  any
	List []string
}

type ZS struct {
	Name  string
	priv  string //nolint:unused
	Priv  string // exported twin of priv
	In    ZInner
	PIn   *ZInner
	Nilp  *ZInner
	Any   any
	M     map[string]int
	F     func(int) int
	Count int
}

func (s ZS) Hello(n string) string             { return "hello " + n }
func (s *ZS) PHello() string                   { return "phello " + s.Name }
func (s ZS) Var(a ...int) int                  { return len(a) }
func (s ZS) Val(v *pongo2.Value) *pongo2.Value { return v }
func (s ZS) Greeting() string                  { return "greet:" + s.Name }
func (s ZS) WithErr(fail bool) (string, error) {
	if fail {
		return "", errors.New("WithErr failed")
	}
	return "noerr", nil
}

type ZStrStr string // Stringer on a string kind

func (s ZStrStr) String() string { return "S(" + string(s) + ")" }

type ZIntStr int // Stringer on an int kind

func (i ZIntStr) String() string { return fmt.Sprintf("I<%d>", int(i)) }

type ZStructStr struct{ V string } // Stringer on a struct (value receiver)

func (s ZStructStr) String() string { return s.V }

type ZPtrStr struct{ V string } // Stringer on a pointer receiver

func (s *ZPtrStr) String() string {
	if s == nil {
		return "<nil ZPtrStr>" // supplied functions are total, also on nil receivers
	}
	return s.V
}

// ZTextInt: an int-kinded Stringer whose text comes from the context
type ZTextInt struct {
	N int
	T string
}

var zTime = time.Date(2021, time.March, 4, 5, 6, 7, 0, time.UTC)

// Build materialises a descriptor.
func Build(v Val) any {
	switch v.K {
	case "nil", "":
		return nil
	case "str":
		return v.Str()
	case "int":
		return int(v.I)
	case "int8":
		return int8(v.I)
	case "int16":
		return int16(v.I)
	case "int32":
		return int32(v.I)
	case "int64":
		return v.I
	case "uint":
		return uint(v.U)
	case "uint8":
		return uint8(v.U)
	case "uint16":
		return uint16(v.U)
	case "uint32":
		return uint32(v.U)
	case "uint64":
		return v.U
	case "f64":
		return v.Float()
	case "f32":
		return float32(v.Float())
	case "bool":
		return v.Bo
	case "strs":
		out := make([]string, 0, len(v.E))
		for _, e := range v.E {
			out = append(out, e.Str())
		}
		return out
	case "ints":
		out := make([]int, 0, len(v.E))
		for _, e := range v.E {
			out = append(out, int(e.I))
		}
		return out
	case "f64s":
		out := make([]float64, 0, len(v.E))
		for _, e := range v.E {
			out = append(out, e.Float())
		}
		return out
	case "anys":
		out := make([]any, 0, len(v.E))
		for _, e := range v.E {
			out = append(out, Build(e))
		}
		return out
	case "bytes":
		return []byte(v.Str())
	case "arrI", "parrI": // [N]int by value / pointer to it
		at := reflect.ArrayOf(len(v.E), reflect.TypeOf(0))
		p := reflect.New(at)
		for i, e := range v.E {
			p.Elem().Index(i).SetInt(e.I)
		}
		if v.K == "parrI" {
			return p.Interface()
		}
		return p.Elem().Interface()
	case "arrS", "parrS":
		at := reflect.ArrayOf(len(v.E), reflect.TypeOf(""))
		p := reflect.New(at)
		for i, e := range v.E {
			p.Elem().Index(i).SetString(e.Str())
		}
		if v.K == "parrS" {
			return p.Interface()
		}
		return p.Elem().Interface()
	case "mapSA":
		m := map[string]any{}
		for i, k := range v.Ks {
			m[k.Str()] = Build(v.E[i])
		}
		return m
	case "mapSS":
		m := map[string]string{}
		for i, k := range v.Ks {
			m[k.Str()] = v.E[i].Str()
		}
		return m
	case "mapSI":
		m := map[string]int{}
		for i, k := range v.Ks {
			m[k.Str()] = int(v.E[i].I)
		}
		return m
	case "mapIS":
		m := map[int]string{}
		for i, k := range v.Ks {
			m[int(k.I)] = v.E[i].Str()
		}
		return m
	case "mapIA":
		m := map[int]any{}
		for i, k := range v.Ks {
			m[int(k.I)] = Build(v.E[i])
		}
		return m
	case "mapU8I":
		m := map[uint8]int{}
		for i, k := range v.Ks {
			m[uint8(k.U)] = int(v.E[i].I)
		}
		return m
	case "mapBI":
		m := map[bool]int{}
		for i, k := range v.Ks {
			m[k.Bo] = int(v.E[i].I)
		}
		return m
	case "mapAA":
		m := map[any]any{}
		for i, k := range v.Ks {
			m[Build(k)] = Build(v.E[i])
		}
		return m
	case "strStr":
		return ZStrStr(v.Str())
	case "intStr":
		return ZIntStr(v.I)
	case "structStr":
		return ZStructStr{V: v.Str()}
	case "pstructStr":
		return &ZStructStr{V: v.Str()}
	case "ptrStr":
		return &ZPtrStr{V: v.Str()}
	case "time":
		return zTime.Add(time.Duration(v.I) * time.Second)
	case "pval":
		return pongo2.AsValue(Build(v.E[0]))
	case "psafe":
		return pongo2.AsSafeValue(Build(v.E[0]))
	case "ptr": // pointer to the built element (nil element => typed nil *int)
		if len(v.E) == 0 {
			return (*int)(nil)
		}
		inner := Build(v.E[0])
		if inner == nil {
			return (*int)(nil)
		}
		p := reflect.New(reflect.TypeOf(inner))
		p.Elem().Set(reflect.ValueOf(inner))
		return p.Interface()
	case "err":
		return errors.New(v.Str())
	}
	if b, ok := extraBuilders[v.K]; ok {
		return b(v)
	}
	panic("Build: unknown kind " + v.K)
}

// extraBuilders lets property files add kinds (structs, funcs) without
// touching this switch.
var extraBuilders = map[string]func(Val) any{}

// BuildContext materialises a mapSA descriptor as a pongo2.Context.
func BuildContext(v Val) pongo2.Context {
	ctx := pongo2.Context{}
	for i, k := range v.Ks {
		ctx[k.Str()] = Build(v.E[i])
	}
	return ctx
}

func ctxVal(pairs ...any) Val {
	v := Val{K: "mapSA"}
	for i := 0; i+1 < len(pairs); i += 2 {
		v.Ks = append(v.Ks, vStr(pairs[i].(string)))
		v.E = append(v.E, pairs[i+1].(Val))
	}
	return v
}

func (v Val) Lookup(key string) (Val, bool) {
	for i, k := range v.Ks {
		if k.K == "str" && k.Str() == key {
			return v.E[i], true
		}
	}
	return Val{}, false
}

// ---------------------------------------------------------------------------
// canonical printing of scalar descriptors the way {{ }} prints them
// (independent of pongo2: decimal integers, %f floats, True/False)

func refPrintScalar(v Val) (string, bool) {
	switch {
	case v.K == "nil":
		return "", true
	case v.K == "str":
		return v.Str(), true
	case v.IsUintKind():
		return strconv.FormatUint(v.U, 10), true
	case v.IsIntKind():
		return strconv.FormatInt(v.I, 10), true
	case v.IsFloatKind():
		f := v.Float()
		if v.K == "f32" {
			f = float64(float32(f))
		}
		return fmt.Sprintf("%f", f), true
	case v.K == "bool":
		if v.Bo {
			return "True", true
		}
		return "False", true
	case v.K == "strStr":
		return "S(" + v.Str() + ")", true
	case v.K == "intStr":
		return fmt.Sprintf("I<%d>", v.I), true
	case v.K == "structStr", v.K == "pstructStr", v.K == "ptrStr":
		return v.Str(), true
	}
	return "", false
}

// refTruthy: Python-style truth of a descriptor as the property states it
func refTruthy(v Val) bool {
	switch {
	case v.K == "nil":
		return false
	case v.K == "str", v.K == "strStr", v.K == "bytes":
		return len(v.Str()) > 0
	case v.IsUintKind():
		return v.U != 0
	case v.IsIntKind(), v.K == "intStr":
		return v.I != 0
	case v.IsFloatKind():
		return v.Float() != 0
	case v.K == "bool":
		return v.Bo
	case v.K == "strs", v.K == "ints", v.K == "f64s", v.K == "anys", v.K == "arrI", v.K == "arrS", v.K == "parrI", v.K == "parrS":
		return len(v.E) > 0
	case strings.HasPrefix(v.K, "map"):
		return len(v.Ks) > 0
	}
	return true
}

func sortedKeysOf(m map[string]int) []string {
	ks := make([]string, 0, len(m))
	for k := range m {
		ks = append(ks, k)
	}
	sort.Strings(ks)
	return ks
}

func timeSeconds(n int64) time.Duration { return time.Duration(n) * time.Second }

func jsonString(v any) (string, error) {
	b, err := json.Marshal(v)
	return string(b), err
}

// descVal: compact human-readable form of a descriptor for messages
func descVal(v Val) string {
	switch {
	case v.K == "" || v.K == "nil":
		return "nil"
	case v.K == "str":
		return fmt.Sprintf("%q", v.Str())
	case v.IsUintKind():
		return fmt.Sprintf("%s(%d)", v.K, v.U)
	case v.IsIntKind():
		return fmt.Sprintf("%s(%d)", v.K, v.I)
	case v.IsFloatKind():
		return fmt.Sprintf("%s(%s)", v.K, v.F)
	case v.K == "bool":
		return fmt.Sprint(v.Bo)
	}
	var parts []string
	for i, e := range v.E {
		if i < len(v.Ks) {
			parts = append(parts, descVal(v.Ks[i])+":"+descVal(e))
		} else {
			parts = append(parts, descVal(e))
		}
	}
	extra := ""
	if v.S != "" || v.B != nil {
		extra = fmt.Sprintf("%q", v.Str())
	}
	return v.K + "[" + extra + strings.Join(parts, ",") + "]"
}
