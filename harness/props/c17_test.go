package props

// C17: escaping filters neutralise exactly what they promise and lose nothing.

import (
	"fmt"
	"regexp"
	"strings"
	"testing"
	"unicode/utf16"
	"unicode/utf8"

	"github.com/flosch/pongo2/v6"
	"pgregory.net/rapid"
)

type c17Case struct {
	Filter string `json:"filter"`
	Input  []byte `json:"input"`
	Param  string `json:"param,omitempty"`
	Shown  string `json:"shown,omitempty"`   // quoted input, for readers of samples
	SafeIn bool   `json:"safe_in,omitempty"` // the input value carries the "safe" flag (Go code marked it)
	// Wrap: the construct the filtered output stands in, inside the autoescape-off region
	// ("" for with set macro if): where a filter is written does not change what it promises
	Wrap string `json:"wrap,omitempty"`
}

var c17Filters = []string{"escape", "e", "escapejs", "urlencode", "iriencode", "addslashes", "striptags", "removetags", "safe"}

var c17Specials = []string{"&", "<", ">", "\"", "'", "\\", "/", " ", ";", "#", "a"}

func c17SpecialSet(filter string) string {
	switch filter {
	case "escape", "e", "safe":
		return "&<>\"'"
	case "escapejs":
		return "\\\"'<>&=-;\r\n\u2028\u2029"
	case "urlencode", "iriencode":
		return " &=?#%+/:;"
	case "addslashes":
		return "\\'\""
	case "striptags", "removetags":
		return "<>/"
	}
	return ""
}

var c17Snippets = []string{
	"&amp;", "&lt;", "&gt;", "&quot;", "&#39;", "&#x27;", "&", "&&", "&amp;amp;", "<b>", "</b>", "<b/>", "<a href=\"x\">", "<i >",
	"< b>", "<>", "<", ">", "<<b>>", "<b", "b>", "\\n", "\\r", "\\\\", "\\'", "\\\"", "\\u0041", "\\", "'", "\"", "%", "%41", "+", " ",
	"\r", "\n", "\t", "\u2028", "\u2029", "\x00", "\x01", "\x7f", "é", "ß", "→", "世界", "😀", "\U0001F600", "\ufffd", "\xff", "\xc3", "\xe2\x82",
	"a", "Z", "0", "-", "_", ".", "~", "/", "#", "[", "]", "=", ":", ";", "$", "(", ")", ",", "!", "?", "*", "@", "<script>alert('x')</script>",
	"<B>", "<ab>", "<a><b>", "<a\n>", "  ", "\u00a0", "\u2003",
}

func genC17Input(t *rapid.T) []byte {
	var sb []byte
	n := drawInt(t, 0, 8, "nparts")
	for i := 0; i < n; i++ {
		switch drawInt(t, 0, 5, "partkind") {
		case 0, 1, 2:
			sb = append(sb, pick(t, "snip", c17Snippets)...)
		case 3:
			sb = append(sb, pick(t, "spec", c17Specials)...)
		case 4:
			r := rune(drawInt(t, 0, 0x10FFFF, "rune"))
			if r >= 0xD800 && r <= 0xDFFF {
				r = 'x'
			}
			sb = utf8.AppendRune(sb, r)
		default:
			sb = append(sb, byte(drawInt(t, 0, 255, "byte")))
		}
	}
	return sb
}

// ---- independent reference pieces

func refUnescapeHTML(s string) (string, error) {
	var out strings.Builder
	for i := 0; i < len(s); {
		if s[i] != '&' {
			out.WriteByte(s[i])
			i++
			continue
		}
		matched := false
		for ent, ch := range map[string]byte{"&amp;": '&', "&lt;": '<', "&gt;": '>', "&quot;": '"', "&#39;": '\''} {
			if strings.HasPrefix(s[i:], ent) {
				out.WriteByte(ch)
				i += len(ent)
				matched = true
				break
			}
		}
		if !matched {
			return "", fmt.Errorf("'&' at offset %d does not start one of the five entities", i)
		}
	}
	return out.String(), nil
}

func refEscapejsExpected(in string) []rune {
	var want []rune
	for i := 0; i < len(in); {
		r, sz := utf8.DecodeRuneInString(in[i:])
		if r == utf8.RuneError && sz <= 1 {
			i += sz // invalid byte: dropped (pinned)
			continue
		}
		if r == '\\' && i+1 < len(in) && (in[i+1] == 'r' || in[i+1] == 'n') {
			// pinned by template_tests/filters.tpl: the two characters \ n stand for a newline
			if in[i+1] == 'r' {
				want = append(want, '\r')
			} else {
				want = append(want, '\n')
			}
			i += 2
			continue
		}
		want = append(want, r)
		i += sz
	}
	return want
}

func refDecodeJS(out string) ([]rune, error) {
	var units []uint16
	flush := func(dst []rune) []rune {
		dst = append(dst, utf16.Decode(units)...)
		units = units[:0]
		return dst
	}
	var got []rune
	for i := 0; i < len(out); {
		c := out[i]
		switch {
		case c == '\\':
			if i+6 > len(out) || out[i+1] != 'u' {
				return nil, fmt.Errorf("backslash at %d is not a \\uXXXX escape", i)
			}
			var v uint16
			for _, h := range []byte(out[i+2 : i+6]) {
				switch {
				case h >= '0' && h <= '9':
					v = v<<4 | uint16(h-'0')
				case h >= 'A' && h <= 'F':
					v = v<<4 | uint16(h-'A'+10)
				case h >= 'a' && h <= 'f':
					v = v<<4 | uint16(h-'a'+10)
				default:
					return nil, fmt.Errorf("bad hex digit %q in escape at %d", h, i)
				}
			}
			units = append(units, v)
			i += 6
		case c >= 'a' && c <= 'z' || c >= 'A' && c <= 'Z' || c == ' ' || c == '/':
			got = flush(got)
			got = append(got, rune(c))
			i++
		default:
			return nil, fmt.Errorf("output byte %q at %d is outside [A-Za-z /] and \\uXXXX", c, i)
		}
	}
	got = flush(got)
	return got, nil
}

func isUnreserved(c byte) bool {
	return c >= 'a' && c <= 'z' || c >= 'A' && c <= 'Z' || c >= '0' && c <= '9' || c == '-' || c == '_' || c == '.' || c == '~'
}

func refQueryDecode(s string) (string, error) {
	var out []byte
	for i := 0; i < len(s); {
		c := s[i]
		switch {
		case c == '+':
			out = append(out, ' ')
			i++
		case c == '%':
			if i+3 > len(s) {
				return "", fmt.Errorf("truncated %% escape at %d", i)
			}
			var v byte
			for _, h := range []byte(s[i+1 : i+3]) {
				switch {
				case h >= '0' && h <= '9':
					v = v<<4 | (h - '0')
				case h >= 'A' && h <= 'F':
					v = v<<4 | (h - 'A' + 10)
				default:
					return "", fmt.Errorf("bad hex digit %q at %d", h, i)
				}
			}
			out = append(out, v)
			i += 3
		case isUnreserved(c):
			out = append(out, c)
			i++
		default:
			return "", fmt.Errorf("byte %q at %d is neither unreserved, '+' nor part of %%XX", c, i)
		}
	}
	return string(out), nil
}

const c17IRIReserved = "/#%[]=:;$&()+,!?*@'~"

func refIRI(in string) string { return refIRIWith(in, "+") }

// refIRIWith: space is the user's choice of "+" (query style, what pongo2 writes) or "%20"
// (Django's iri_to_uri); the statement only says what stays unencoded
func refIRIWith(in, space string) string {
	var out strings.Builder
	for _, r := range in { // valid UTF-8 only (checked by caller)
		if r < 128 && (isUnreserved(byte(r)) || strings.IndexByte(c17IRIReserved, byte(r)) >= 0) {
			out.WriteRune(r)
		} else if r == ' ' {
			out.WriteString(space)
		} else {
			var buf [4]byte
			n := utf8.EncodeRune(buf[:], r)
			for _, b := range buf[:n] {
				fmt.Fprintf(&out, "%%%02X", b)
			}
		}
	}
	return out.String()
}

func refAddslashes(in string) string {
	var out []byte
	for i := 0; i < len(in); i++ {
		if in[i] == '\\' || in[i] == '\'' || in[i] == '"' {
			out = append(out, '\\')
		}
		out = append(out, in[i])
	}
	return string(out)
}

func refStriptags(in string) string {
	var out []byte
	for i := 0; i < len(in); {
		if in[i] == '<' {
			if j := strings.IndexByte(in[i:], '>'); j >= 0 {
				i += j + 1
				continue
			}
		}
		out = append(out, in[i])
		i++
	}
	return strings.TrimSpace(string(out))
}

func refRemovetags(in string, tags []string) string {
	s := in
	for _, tg := range tags {
		var out []byte
		for i := 0; i < len(s); {
			if s[i] == '<' {
				j := i + 1
				if j < len(s) && s[j] == '/' {
					j++
				}
				if tg != "" && strings.HasPrefix(s[j:], tg) {
					j += len(tg)
					if j < len(s) && s[j] == '/' {
						j++
					}
					if j < len(s) && s[j] == '>' {
						i = j + 1
						continue
					}
				}
			}
			out = append(out, s[i])
			i++
		}
		s = string(out)
	}
	return s
}

// removetagsOK: the statement says which tags go; whether surrounding whitespace of the result is
// trimmed as well (pongo2 does, Django does not) is not stated
func removetagsOK(got, ref string) bool { return got == ref || got == strings.TrimSpace(ref) }

func hasCompleteTag(s string) bool {
	i := strings.IndexByte(s, '<')
	return i >= 0 && strings.IndexByte(s[i:], '>') >= 0
}

func validTagParam(p string) ([]string, bool) {
	tags := strings.Split(p, ",")
	for _, tg := range tags {
		if len(tg) != 1 || !(tg[0] >= 'a' && tg[0] <= 'z' || tg[0] >= 'A' && tg[0] <= 'Z') {
			return nil, false
		}
	}
	return tags, true
}

var c17TagName = regexp.MustCompile(`^[A-Za-z][A-Za-z0-9]*$`)

var c17Set = pongo2.NewSet("c17", &memLoader{})

// c17Literals: the ways to write s as a string literal of the template language (none if s holds
// what a literal cannot: control characters, invalid UTF-8 - or delimiters, kept out of this check)
func c17Literals(s string) []string {
	if !utf8.ValidString(s) || len(s) > 64 {
		return nil
	}
	for _, r := range s {
		if r < ' ' || r == 0x7f || strings.ContainsRune("{}%#", r) {
			return nil
		}
	}
	esc := strings.ReplaceAll(strings.ReplaceAll(s, "\\", "\\\\"), "\"", "\\\"")
	lits := []string{"\"" + esc + "\""}
	if !strings.Contains(s, "'") {
		lits = append(lits, "'"+esc+"'", "'"+strings.ReplaceAll(s, "\\", "\\\\")+"'")
	}
	return lits
}

func checkC17(c any, r *Rec) error {
	cs := c.(*c17Case)
	in := string(cs.Input)
	f := cs.Filter
	var param *pongo2.Value
	if f == "removetags" {
		param = pongo2.AsValue(cs.Param)
	}
	inVal := pongo2.AsValue(in)
	var ctxV any = in
	if cs.SafeIn {
		// what a filter promises does not depend on who flagged its input
		inVal = pongo2.AsSafeValue(in)
		ctxV = inVal
	}
	v, ferr := pongo2.ApplyFilter(f, inVal, param)
	// the same through template syntax (autoescape off so we see the filter's own output)
	name := "v"
	if cs.Wrap != "" && cs.Wrap != "if" {
		name = "w"
	}
	frag := "{{ " + name + "|" + f
	if f == "removetags" {
		frag += ":p"
	}
	frag += " }}"
	switch cs.Wrap {
	case "for":
		frag = "{% for w in vs %}" + frag + "{% endfor %}"
	case "with":
		frag = "{% with w=v %}" + frag + "{% endwith %}"
	case "set":
		frag = "{% set w = v %}" + frag
	case "macro":
		frag = "{% macro m(w) %}" + frag + "{% endmacro %}{{ m(v) }}"
	case "if":
		frag = "{% if 1 %}" + frag + "{% endif %}"
	}
	src := "{% autoescape off %}" + frag + "{% endautoescape %}"
	if cs.Wrap == "filtertag_on" {
		// the filter tag with autoescaping ON: the chain is applied to the rendered body - here the
		// raw value, printed with the safe opt-out - and nothing else happens to it
		src = "{% filter " + f
		if f == "removetags" {
			src += ":p"
		}
		src += " %}{{ v|safe }}{% endfilter %}"
	}
	tpl, cerr := c17Set.FromString(src)
	if cerr != nil {
		return fmt.Errorf("template %q does not compile: %v", src, cerr)
	}
	tout, terr := tpl.Execute(pongo2.Context{"v": ctxV, "vs": []any{ctxV}, "p": cs.Param})
	if (ferr == nil) != (terr == nil) {
		return fmt.Errorf("%s on %q: ApplyFilter err=%v but template err=%v", f, in, ferr, terr)
	}
	// a filter works on its input, it does not alter it: the very *Value handed to ApplyFilter,
	// printed afterwards, is still escaped (unless the caller had marked it safe)
	if !cs.SafeIn && utf8.ValidString(in) {
		ptpl, perr := c17Set.FromString("{{ v }}")
		if perr != nil {
			return perr
		}
		pout, perr2 := ptpl.Execute(pongo2.Context{"v": inVal})
		if perr2 != nil || pout != refEscapeHTML(in) {
			return fmt.Errorf("after %s was applied to it, the input value %q prints as %q (err %v), want it escaped as before: %q", f, in, pout, perr2, refEscapeHTML(in))
		}
	}
	if f == "removetags" {
		tags, ok := validTagParam(cs.Param)
		if !ok {
			// a list with blanks, empty or odd entries: refused today; a lenient reading (trim the
			// entries, skip what is no tag name) is admitted as long as only named tags go
			if ferr == nil {
				var lenient []string
				for _, tg := range strings.Split(cs.Param, ",") {
					tg = strings.TrimSpace(tg)
					if _, good := validTagParam(tg); good {
						lenient = append(lenient, tg)
					}
				}
				// ... where a name may also be longer than one letter (strong, h1): tags of that name go then
				var longer []string
				for _, tg := range strings.Split(cs.Param, ",") {
					if tg = strings.TrimSpace(tg); c17TagName.MatchString(tg) {
						longer = append(longer, tg)
					}
				}
				if want, want2 := refRemovetags(in, lenient), refRemovetags(in, longer); !removetagsOK(v.String(), want) && !removetagsOK(v.String(), want2) {
					return fmt.Errorf("removetags:%q (not a clean tag list) on %q = %q; only the named tags %v may be removed: %q (or %q)", cs.Param, in, v.String(), longer, want, want2)
				}
				r.Class("removetags:odd-param-read-leniently")
				return nil
			}
			r.Class("removetags:invalid-param-rejected")
			return nil
		}
		if ferr != nil {
			return fmt.Errorf("removetags:%q on %q failed: %v", cs.Param, in, ferr)
		}
		if want := refRemovetags(in, tags); !removetagsOK(v.String(), want) {
			return fmt.Errorf("removetags:%q on %q = %q, reference %q", cs.Param, in, v.String(), want)
		}
	} else if ferr != nil {
		return fmt.Errorf("%s on %q failed: %v", f, in, ferr)
	}
	out := v.String()
	if out != tout {
		return fmt.Errorf("%s on %q: ApplyFilter gives %q, template syntax gives %q", f, in, out, tout)
	}
	// the same text written into the template as a string literal (every spelling of it: double
	// quotes with \" and \\, single quotes with the double quote escaped or not)
	if lits := c17Literals(in); cs.Wrap == "" && len(lits) > 0 {
		for _, lit := range lits {
			lsrc := "{% autoescape off %}{{ " + lit + "|" + f
			if f == "removetags" {
				lsrc += ":p"
			}
			lsrc += " }}{% endautoescape %}"
			ltpl, lerr := c17Set.FromString(lsrc)
			if lerr != nil {
				return fmt.Errorf("%s does not compile: %v", lsrc, lerr)
			}
			lout, lxerr := ltpl.Execute(pongo2.Context{"p": cs.Param})
			if lxerr != nil || lout != tout {
				return fmt.Errorf("%s on the literal %s: %q (err %v); on the same text %q taken from the context: %q", f, lit, lout, lxerr, in, tout)
			}
		}
	}
	switch f {
	case "escape", "e":
		if i := strings.IndexAny(out, "<>\"'"); i >= 0 {
			return fmt.Errorf("%s(%q) = %q still contains %q", f, in, out, out[i])
		}
		back, err := refUnescapeHTML(out)
		if err != nil {
			return fmt.Errorf("%s(%q) = %q: %v", f, in, out, err)
		}
		if back != in {
			return fmt.Errorf("%s(%q) = %q unescapes to %q, not to the input", f, in, out, back)
		}
	case "escapejs":
		got, err := refDecodeJS(out)
		if err != nil {
			return fmt.Errorf("escapejs(%q) = %q: %v", in, out, err)
		}
		want := refEscapejsExpected(in)
		if string(got) != string(want) {
			return fmt.Errorf("escapejs(%q) = %q decodes to %q, want %q", in, out, string(got), string(want))
		}
	case "urlencode":
		back, err := refQueryDecode(out)
		if err != nil {
			return fmt.Errorf("urlencode(%q) = %q: %v", in, out, err)
		}
		if back != in {
			return fmt.Errorf("urlencode(%q) = %q decodes to %q", in, out, back)
		}
	case "iriencode":
		// charset, both for valid and invalid input
		for i := 0; i < len(out); i++ {
			c := out[i]
			if c >= 128 || !(isUnreserved(c) || strings.IndexByte(c17IRIReserved, c) >= 0) {
				return fmt.Errorf("iriencode(%q) = %q contains %q, which is neither reserved nor unreserved", in, out, c)
			}
		}
		if utf8.ValidString(in) {
			if want, alt := refIRI(in), refIRIWith(in, "%20"); out != want && out != alt {
				return fmt.Errorf("iriencode(%q) = %q, reference %q (or %q)", in, out, want, alt)
			}
		}
	case "addslashes":
		if want := refAddslashes(in); out != want {
			return fmt.Errorf("addslashes(%q) = %q, reference %q", in, out, want)
		}
	case "striptags":
		if hasCompleteTag(out) {
			return fmt.Errorf("striptags(%q) = %q still contains a complete tag", in, out)
		}
		if want := refStriptags(in); out != want {
			return fmt.Errorf("striptags(%q) = %q, reference %q", in, out, want)
		}
	case "safe":
		if out != in {
			return fmt.Errorf("safe(%q) = %q", in, out)
		}
		// and printing it with autoescape ON emits it raw
		t2, err := c17Set.FromString("{{ v|safe }}")
		if err != nil {
			return err
		}
		o2, err := t2.Execute(pongo2.Context{"v": ctxV})
		if err != nil || o2 != in {
			return fmt.Errorf("{{ v|safe }} with v=%q rendered %q err=%v", in, o2, err)
		}
	}
	r.Class("filter:" + f)
	if strings.ContainsAny(in, c17SpecialSet(f)) || !utf8.ValidString(in) {
		r.NonTrivial(f + "\x00" + cs.Param + "\x00" + in)
	}
	return nil
}

func genC17Param(t *rapid.T) string {
	if drawInt(t, 0, 9, "badparam") == 0 {
		return pick(t, "bad", []string{"", "ab", "1", "a,", ",a", "a,bc", "<", "a b"})
	}
	n := drawInt(t, 1, 3, "ntags")
	var parts []string
	for i := 0; i < n; i++ {
		parts = append(parts, pick(t, "tag", []string{"a", "b", "i", "B", "p", "s"}))
	}
	return strings.Join(parts, ",")
}

var _ = register(&propSpec{
	ID:   "C17.filter",
	Rule: "one of the 9 escaping filters applied (through ApplyFilter and through {{ v|f }} inside an autoescape-off region - directly or inside a for, with, set, macro or if written there; also as the chain of a filter tag under autoescape on whose body prints the raw value -, which must agree) to strings mixing specials, entities, backslash sequences, tags, multi-byte/astral runes, control chars and invalid UTF-8; oracle per filter in both directions (forbidden characters absent AND an independent decoder/reference returns the input). Non-trivial: input contains a character of the filter's special set or invalid UTF-8; distinct by (filter, param, input).",
	Gen: func(t *rapid.T) any {
		f := pick(t, "filter", c17Filters)
		cs := &c17Case{Filter: f, Input: genC17Input(t), SafeIn: drawInt(t, 0, 4, "safein") == 0, Wrap: pick(t, "wrap", []string{"", "", "", "for", "with", "set", "macro", "if", "filtertag_on"})}
		if f == "removetags" {
			cs.Param = genC17Param(t)
		}
		cs.Shown = quoteShort(string(cs.Input))
		return cs
	},
	New:   func() any { return &c17Case{} },
	Check: checkC17,
})

func TestC17Filter(t *testing.T) { runProp(t, "C17.filter") }

// exhaustive: every BMP scalar value as a 1-rune string, and all strings of
// length <= 3 over the 11 specials, through all nine filters
func TestC17Enum(t *testing.T) {
	enumerate(t, "C17.filter", "enum", func(yield func(any) bool) {
		emit := func(s string) bool {
			for _, f := range c17Filters {
				for _, safeIn := range []bool{false, true} {
					if safeIn && len(s) > 3 {
						continue
					}
					cs := &c17Case{Filter: f, Input: []byte(s), Shown: quoteShort(s), SafeIn: safeIn}
					if f == "removetags" {
						cs.Param = "a,b"
					}
					if !yield(cs) {
						return false
					}
				}
			}
			return true
		}
		for r := rune(0); r <= 0xFFFF; r++ {
			if r >= 0xD800 && r <= 0xDFFF {
				continue
			}
			if !emit(string(r)) {
				return
			}
		}
		sp := c17Specials
		for _, a := range sp {
			if !emit(a) {
				return
			}
			for _, b := range sp {
				if !emit(a + b) {
					return
				}
				for _, c := range sp {
					if !emit(a + b + c) {
						return
					}
				}
			}
		}
		// tag-shaped triples for the tag filters
		for _, s := range []string{"<a>", "</a>", "<a/>", "<b>", "<ab>", "<a >", "< a>", "<A>", "<a>x</a>", "<<a>>", "<a<a>>", "<a><b>", "<b<a>>"} {
			if !emit(s) {
				return
			}
		}
	})
}

func FuzzC17(f *testing.F) {
	for i, s := range c17Snippets {
		f.Add(uint8(i), []byte(s))
	}
	s := specs["C17.filter"]
	rec := newRec(s)
	f.Fuzz(func(t *testing.T, sel uint8, in []byte) {
		c := &c17Case{Filter: c17Filters[int(sel)%len(c17Filters)], Input: in, Param: "a,b", Shown: quoteShort(string(in))}
		if err := evalCase(s, c, rec); err != nil {
			p := writeReplay(s, c, err.Error())
			t.Fatalf("VERIF-VIOLATION property=C17 spec=C17.filter replay=%s: %v", p, err)
		}
	})
}
