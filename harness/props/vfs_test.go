package props

// In-memory recording template loaders (virtual file system).

import (
	"bytes"
	"errors"
	"fmt"
	"io"
	"path"
	"strings"
	"sync"
	"time"
)

// memLoader serves templates from a map. Names are slash-separated; a name
// starting with "/" is rooted, anything else is resolved against the
// directory of the referring template (like the stock loaders do).
type memLoader struct {
	mu       sync.Mutex
	files    map[string]string
	gets     []string       // ordered log of Get(path) calls
	hits     map[string]int // successful fetches per path
	misses   map[string]int
	failRead map[string]bool
	failOn   map[string]bool // names that are temporarily unloadable
	delay    time.Duration   // widens race windows in concurrent batches (never an oracle)
}

func newMemLoader(files map[string]string) *memLoader {
	return &memLoader{files: files}
}

func vfsAbs(base, name string) string {
	if strings.HasPrefix(name, "/") {
		return path.Clean(name)
	}
	if base == "" {
		return path.Clean("/" + name)
	}
	return path.Clean(path.Join(path.Dir(base), name))
}

func (l *memLoader) Abs(base, name string) string { return vfsAbs(base, name) }

func (l *memLoader) Get(p string) (io.Reader, error) {
	if d := l.getDelay(); d > 0 {
		time.Sleep(d)
	}
	l.mu.Lock()
	defer l.mu.Unlock()
	l.gets = append(l.gets, p)
	if l.hits == nil {
		l.hits = map[string]int{}
		l.misses = map[string]int{}
	}
	if l.failOn[p] {
		l.misses[p]++
		return nil, fmt.Errorf("memLoader: %s temporarily unloadable", p)
	}
	s, ok := l.files[p]
	if !ok {
		l.misses[p]++
		return nil, fmt.Errorf("memLoader: %s not found", p)
	}
	l.hits[p]++
	if l.failRead[p] {
		// the loader has the name, but reading it breaks half way
		half := []byte(s)[:len(s)/2]
		return io.MultiReader(bytes.NewReader(half), errReader{}), nil
	}
	return bytes.NewReader([]byte(s)), nil
}

type errReader struct{}

func (errReader) Read([]byte) (int, error) { return 0, errors.New("memLoader: read error (injected)") }

func (l *memLoader) setFailRead(name string) {
	l.mu.Lock()
	if l.failRead == nil {
		l.failRead = map[string]bool{}
	}
	l.failRead[name] = true
	l.mu.Unlock()
}

func (l *memLoader) getDelay() time.Duration {
	l.mu.Lock()
	defer l.mu.Unlock()
	return l.delay
}

func (l *memLoader) setDelay(d time.Duration) {
	l.mu.Lock()
	l.delay = d
	l.mu.Unlock()
}

func (l *memLoader) set(name, content string) {
	l.mu.Lock()
	if l.files == nil {
		l.files = map[string]string{}
	}
	l.files[name] = content
	l.mu.Unlock()
}

func (l *memLoader) hitCount(name string) int {
	l.mu.Lock()
	defer l.mu.Unlock()
	return l.hits[name]
}

func (l *memLoader) getLog() []string {
	l.mu.Lock()
	defer l.mu.Unlock()
	return append([]string(nil), l.gets...)
}

func (l *memLoader) setFail(name string, fail bool) {
	l.mu.Lock()
	if l.failOn == nil {
		l.failOn = map[string]bool{}
	}
	l.failOn[name] = fail
	l.mu.Unlock()
}
