package props

// C20: template cache — one compile per name, coherent under concurrency.
// rapid state machine against a map model; batches of concurrent calls.

import (
	"fmt"
	"os"
	"sync"
	"testing"
	"time"

	"github.com/flosch/pongo2/v6"
	"pgregory.net/rapid"
)

type c20Set struct {
	set   *pongo2.TemplateSet
	ld    *memLoader
	tag   string                      // value of the global "g" in this set
	trim  bool                        // TrimBlocks option of this set
	cache map[string]*pongo2.Template // model: resolved name -> cached instance
	gen   map[*pongo2.Template]int    // content generation each instance was compiled from
	debug bool
}

// (two names differ only by characters that mean something in glob patterns: a name is a name)
var c20Names = []string{"/a.tpl", "/b.tpl", "/c.tpl", "/l[1].tpl", "/l1.tpl", "/s*.tpl", "/sx.tpl"}

// aliases that resolve to the same file through the loader's Abs
func c20Alias(t *rapid.T, name string) string {
	base := name[1:]
	return pick(t, "alias", []string{name, name, base, "./" + base, "/x/../" + base, "//" + base})
}

func c20Content(name string, gen int) string {
	body := fmt.Sprintf("%s v%d g={{ g }}{{ verif_dg }}{%% if 1 %%}\nX{%% endif %%}", name, gen) // (verif_dg: a global of the default set only)
	if name == "/c.tpl" {
		body += `{{ "up"|upper }}` // set 0 bans the upper filter: /c.tpl never compiles there
	}
	return body
}

func c20Expect(s *c20Set, name string, gen int) string {
	out := fmt.Sprintf("%s v%d g=%s", name, gen, s.tag)
	if s.trim {
		out += "X"
	} else {
		out += "\nX"
	}
	if name == "/c.tpl" {
		out += "UP"
	}
	return out
}

type c20World struct {
	sets []*c20Set
	gens map[string]int // current content generation per name (shared by construction across sets' loaders)
	log  []string
}

func newC20World(nsets int) *c20World {
	w := &c20World{gens: map[string]int{}}
	for i := 0; i < nsets; i++ {
		ld := newMemLoader(map[string]string{})
		s := &c20Set{ld: ld, tag: fmt.Sprintf("S%d", i), trim: i == 0, cache: map[string]*pongo2.Template{}, gen: map[*pongo2.Template]int{}}
		s.set = pongo2.NewSet(s.tag, ld)
		s.set.Globals["g"] = s.tag
		s.set.Options.TrimBlocks = s.trim
		if i == 0 {
			if err := s.set.BanFilter("upper"); err != nil {
				panic(err)
			}
		}
		w.sets = append(w.sets, s)
	}
	for _, n := range c20Names {
		w.gens[n] = 1
		for _, s := range w.sets {
			s.ld.set(n, c20Content(n, 1))
		}
	}
	return w
}

func (w *c20World) logf(format string, a ...any) {
	w.log = append(w.log, fmt.Sprintf(format, a...))
	c20Live.mu.Lock()
	c20Live.log = append(c20Live.log[:0:0], w.log...)
	c20Live.beat++
	c20Live.pending = ""
	c20Live.mu.Unlock()
}

func c20Begin(format string, a ...any) {
	c20Live.mu.Lock()
	c20Live.pending = fmt.Sprintf(format, a...)
	c20Live.mu.Unlock()
}

// c20Live: what the stall monitor sees. An operation on the cache takes micro- to milliseconds;
// if no operation of the running history completes for c20StallBound the set is deadlocked
// (e.g. a mutex left locked on an error path) - "coherent under concurrency" includes coming back.
var c20Live struct {
	mu      sync.Mutex
	pending string
	log     []string
	beat    int64
	active  bool
}

const c20StallBound = 120 * time.Second

func c20StallMonitor() {
	var last int64 = -1
	since := time.Now()
	for {
		time.Sleep(2 * time.Second)
		c20Live.mu.Lock()
		beat, active := c20Live.beat, c20Live.active
		log := append([]string(nil), c20Live.log...)
		if c20Live.pending != "" {
			log = append(log, "NEVER RETURNED: "+c20Live.pending)
		}
		c20Live.mu.Unlock()
		if !active || beat != last {
			last, since = beat, time.Now()
			continue
		}
		if time.Since(since) > c20StallBound {
			msg := fmt.Sprintf("no cache operation returned for %s: the set is deadlocked after this history (the operation that followed never came back)", c20StallBound)
			p := writeReplay(c20Spec, &c20Dummy{History: log}, msg)
			fmt.Printf("VERIF-VIOLATION property=C20 spec=C20.cache replay=%s msg=%q\n", p, msg)
			os.Exit(1)
		}
	}
}

var c20MonitorOnce sync.Once

// loadable: will FromFile(name) succeed in set s right now?
func (w *c20World) loadable(si int, name string) bool {
	s := w.sets[si]
	s.ld.mu.Lock()
	failing := s.ld.failOn[name]
	s.ld.mu.Unlock()
	if failing {
		return false
	}
	return !(si == 0 && name == "/c.tpl") // banned filter => compile error
}

func (w *c20World) checkRender(s *c20Set, name string, tpl *pongo2.Template, gen int) error {
	out, err := tpl.Execute(nil)
	if err != nil {
		return fmt.Errorf("executing %s from set %s: %v", name, s.tag, err)
	}
	if want := c20Expect(s, name, gen); out != want {
		return fmt.Errorf("template %s of set %s renders %q, want %q (content generation %d, this set's globals/options)", name, s.tag, out, want, gen)
	}
	return nil
}

// fromCache performs one sequential FromCache and checks it against the model.
func (w *c20World) fromCache(si int, name, alias string) error {
	s := w.sets[si]
	before := s.ld.hitCount(name)
	c20Begin("set%d.FromCache(%q)", si, alias)
	tpl, err := s.set.FromCache(alias)
	fetched := s.ld.hitCount(name) - before
	w.logf("set%d.FromCache(%q) -> err=%v fetched=%d", si, alias, err != nil, fetched)
	cached, has := s.cache[name]
	switch {
	case s.debug:
		if !w.loadable(si, name) {
			if err == nil {
				return fmt.Errorf("FromCache(%q) with Debug on succeeded although the file cannot be loaded/compiled", alias)
			}
			return nil
		}
		if err != nil {
			return fmt.Errorf("FromCache(%q) with Debug on: %v", alias, err)
		}
		if fetched < 1 {
			return fmt.Errorf("FromCache(%q) with Debug on did not fetch the file (nothing is cached in debug mode)", alias)
		}
		if has && tpl == cached {
			return fmt.Errorf("FromCache(%q) with Debug on returned the cached instance instead of compiling afresh", alias)
		}
		return w.checkRender(s, name, tpl, w.gens[name])
	case has:
		if err != nil {
			return fmt.Errorf("FromCache(%q): cached entry, but error %v", alias, err)
		}
		if tpl != cached {
			return fmt.Errorf("FromCache(%q) returned a different instance than the previous call although the cache was not cleaned", alias)
		}
		if fetched != 0 {
			return fmt.Errorf("FromCache(%q) fetched the file %d times on a cache hit", alias, fetched)
		}
		return w.checkRender(s, name, tpl, s.gen[cached])
	default: // miss
		if !w.loadable(si, name) {
			if err == nil {
				return fmt.Errorf("FromCache(%q) succeeded although the file cannot be loaded/compiled", alias)
			}
			return nil // failed loads are not cached: model stays empty
		}
		if err != nil {
			return fmt.Errorf("FromCache(%q) on a cold entry: %v", alias, err)
		}
		if fetched != 1 {
			return fmt.Errorf("FromCache(%q) on a cold entry fetched the file %d times, want exactly 1", alias, fetched)
		}
		s.cache[name] = tpl
		s.gen[tpl] = w.gens[name]
		return w.checkRender(s, name, tpl, w.gens[name])
	}
}

func (w *c20World) concurrentSame(si int, name string, k int) error {
	s := w.sets[si]
	c20Begin("set%d.Concurrent %d x FromCache(%q)", si, k, name)
	before := s.ld.hitCount(name)
	res := make([]*pongo2.Template, k)
	errs := make([]error, k)
	var wg sync.WaitGroup
	start := make(chan struct{})
	s.ld.setDelay(200 * time.Microsecond)
	for i := 0; i < k; i++ {
		wg.Add(1)
		go func(i int) {
			defer wg.Done()
			<-start
			res[i], errs[i] = s.set.FromCache(name)
		}(i)
	}
	close(start)
	wg.Wait()
	s.ld.setDelay(0)
	fetched := s.ld.hitCount(name) - before
	w.logf("set%d.Concurrent %d x FromCache(%q) -> fetched=%d", si, k, name, fetched)
	cached, has := s.cache[name]
	if !w.loadable(si, name) && (s.debug || !has) {
		for _, e := range errs {
			if e == nil {
				return fmt.Errorf("concurrent FromCache(%q) succeeded although the file cannot be loaded", name)
			}
		}
		return nil
	}
	for i, e := range errs {
		if e != nil {
			return fmt.Errorf("concurrent FromCache(%q) call %d: %v", name, i, e)
		}
	}
	if s.debug {
		if fetched != k {
			return fmt.Errorf("%d concurrent FromCache(%q) with Debug on fetched %d times, want %d", k, name, fetched, k)
		}
		return nil
	}
	want := 1
	if has {
		want = 0
	}
	if fetched != want {
		return fmt.Errorf("%d goroutines asked FromCache(%q) at the same time (entry cold: %v): the file was fetched %d times, want %d", k, name, !has, fetched, want)
	}
	for i := 1; i < k; i++ {
		if res[i] != res[0] {
			return fmt.Errorf("concurrent FromCache(%q) returned different instances to different goroutines", name)
		}
	}
	if has && res[0] != cached {
		return fmt.Errorf("concurrent FromCache(%q) returned an instance different from the cached one", name)
	}
	if !has {
		s.cache[name] = res[0]
		s.gen[res[0]] = w.gens[name]
	}
	return w.checkRender(s, name, res[0], s.gen[res[0]])
}

// mixed batch: FromCache and CleanCache race; only order-independent facts are asserted
func (w *c20World) concurrentMixed(si int, name string, k int) error {
	s := w.sets[si]
	if s.debug || !w.loadable(si, name) {
		return nil
	}
	c20Begin("set%d.ConcurrentMixed %d ops on %q", si, k, name)
	before := s.ld.hitCount(name)
	_, wasCached := s.cache[name]
	res := make([]*pongo2.Template, k)
	errs := make([]error, k)
	var wg sync.WaitGroup
	start := make(chan struct{})
	nFrom := 0
	for i := 0; i < k; i++ {
		wg.Add(1)
		clean := i%3 == 2
		if !clean {
			nFrom++
		}
		go func(i int, clean bool) {
			defer wg.Done()
			<-start
			if clean {
				if i%2 == 0 {
					s.set.CleanCache(name)
				} else {
					s.set.CleanCache()
				}
				return
			}
			res[i], errs[i] = s.set.FromCache(name)
		}(i, clean)
	}
	close(start)
	wg.Wait()
	fetched := s.ld.hitCount(name) - before
	w.logf("set%d.ConcurrentMixed %d ops on %q -> fetched=%d", si, k, name, fetched)
	lo := 0
	if !wasCached {
		lo = 1
	}
	if fetched < lo || fetched > nFrom {
		return fmt.Errorf("mixed batch on %q: %d fetches, must lie between %d and %d", name, fetched, lo, nFrom)
	}
	for i := 0; i < k; i++ {
		if errs[i] != nil {
			return fmt.Errorf("mixed batch: FromCache(%q) failed: %v", name, errs[i])
		}
		if res[i] != nil {
			gen := w.gens[name]
			if res[i] == s.cache[name] {
				gen = s.gen[res[i]]
			}
			if err := w.checkRender(s, name, res[i], gen); err != nil {
				return err
			}
		}
	}
	// the whole cache may have been cleaned: resynchronise the model through probes
	for _, n := range c20Names {
		delete(s.cache, n)
	}
	s.set.CleanCache()
	return nil
}

func (w *c20World) invariant() error {
	// every entry the model holds must still be served from the cache, without a fetch,
	// in every set (so no operation on one set may have disturbed another)
	for si, s := range w.sets {
		if s.debug {
			continue
		}
		for name, cached := range s.cache {
			before := s.ld.hitCount(name)
			tpl, err := s.set.FromCache(name)
			if err != nil || tpl != cached || s.ld.hitCount(name) != before {
				return fmt.Errorf("invariant: set%d lost or replaced its cached %s (err=%v, same instance=%v, extra fetches=%d)", si, name, err, tpl == cached, s.ld.hitCount(name)-before)
			}
		}
		if s.set.Globals["g"] != s.tag || s.set.Options.TrimBlocks != s.trim {
			return fmt.Errorf("invariant: globals/options of set%d changed", si)
		}
	}
	return nil
}

func c20Machine(t *rapid.T, report func(msg string, log []string)) {
	w := newC20World(drawInt(t, 1, 2, "nsets"))
	fail := func(err error) {
		if err != nil {
			report(err.Error(), append([]string(nil), w.log...))
			t.Fatalf("%v\n history:\n  %s", err, joinLines(w.log))
		}
	}
	pickSet := func() int { return drawInt(t, 0, len(w.sets)-1, "set") }
	pickName := func() string { return pick(t, "name", c20Names) }
	t.Repeat(map[string]func(*rapid.T){
		"FromCache": func(t *rapid.T) {
			n := pickName()
			fail(w.fromCache(pickSet(), n, c20Alias(t, n)))
		},
		"CleanAll": func(t *rapid.T) {
			si := pickSet()
			w.sets[si].set.CleanCache()
			w.sets[si].cache = map[string]*pongo2.Template{}
			w.logf("set%d.CleanCache()", si)
		},
		"CleanNames": func(t *rapid.T) {
			si := pickSet()
			k := drawInt(t, 1, 2, "nnames")
			var args []string
			for i := 0; i < k; i++ {
				n := pickName()
				args = append(args, c20Alias(t, n))
				delete(w.sets[si].cache, n)
			}
			c20Begin("set%d.CleanCache(%q)", si, args)
			w.sets[si].set.CleanCache(args...)
			w.logf("set%d.CleanCache(%q)", si, args)
		},
		"ToggleDebug": func(t *rapid.T) {
			si := pickSet()
			w.sets[si].debug = !w.sets[si].debug
			w.sets[si].set.Debug = w.sets[si].debug
			w.logf("set%d.Debug=%v", si, w.sets[si].debug)
		},
		"TouchOptions": func(t *rapid.T) {
			// options that do not show in these templates (nothing stands in front of a block tag):
			// changing them on the set, or on a template the cache handed out, is no reason to load
			// anything again
			si := pickSet()
			s := w.sets[si]
			if drawBool(t, "onset") {
				s.set.Options.LStripBlocks = !s.set.Options.LStripBlocks
				w.logf("set%d.Options.LStripBlocks=%v", si, s.set.Options.LStripBlocks)
				return
			}
			n := pickName()
			if tpl, ok := s.cache[n]; ok {
				tpl.Options.LStripBlocks = !tpl.Options.LStripBlocks
				w.logf("set%d: cached %s .Options.LStripBlocks=%v", si, n, tpl.Options.LStripBlocks)
			}
		},
		"ChangeContent": func(t *rapid.T) {
			n := pickName()
			w.gens[n]++
			for _, s := range w.sets {
				s.ld.set(n, c20Content(n, w.gens[n]))
			}
			w.logf("content of %s -> v%d", n, w.gens[n])
		},
		"Unloadable": func(t *rapid.T) {
			si, n := pickSet(), pickName()
			on := drawBool(t, "on")
			w.sets[si].ld.setFail(n, on)
			w.logf("set%d: %s unloadable=%v", si, n, on)
		},
		"RenderShortcut": func(t *rapid.T) {
			// the Render* shortcuts of a set work with THAT set's globals, options, bans and loader,
			// and they leave the cache alone
			si := pickSet()
			s := w.sets[si]
			kind := pick(t, "shortcut", []string{"String", "Bytes", "File"})
			n := pickName()
			var out string
			var err error
			c20Begin("set%d.RenderTemplate%s(%s)", si, kind, n)
			switch kind {
			case "String":
				out, err = s.set.RenderTemplateString(c20Content(n, 7), nil)
			case "Bytes":
				out, err = s.set.RenderTemplateBytes([]byte(c20Content(n, 7)), nil)
			default:
				out, err = s.set.RenderTemplateFile(n, nil)
			}
			w.logf("set%d.RenderTemplate%s(%s) -> err=%v", si, kind, n, err != nil)
			gen, ok := 7, !(si == 0 && n == "/c.tpl")
			if kind == "File" {
				gen, ok = w.gens[n], w.loadable(si, n)
			}
			switch {
			case !ok && err == nil:
				fail(fmt.Errorf("set%d.RenderTemplate%s(%s) rendered %q although this set cannot load / compile it", si, kind, n, out))
			case ok && err != nil:
				fail(fmt.Errorf("set%d.RenderTemplate%s(%s): %v", si, kind, n, err))
			case ok && out != c20Expect(s, n, gen):
				fail(fmt.Errorf("set%d.RenderTemplate%s(%s) rendered %q, want %q (this set's globals / options, content generation %d)", si, kind, n, out, c20Expect(s, n, gen), gen))
			}
		},
		"ConcurrentSame": func(t *rapid.T) {
			fail(w.concurrentSame(pickSet(), pickName(), drawInt(t, 2, 16, "k")))
		},
		"ConcurrentMixed": func(t *rapid.T) {
			fail(w.concurrentMixed(pickSet(), pickName(), drawInt(t, 3, 12, "k")))
		},
		"": func(t *rapid.T) { fail(w.invariant()) },
	})
	c20Stats.add(w)
}

func joinLines(xs []string) string {
	out := ""
	for _, x := range xs {
		out += x + "\n  "
	}
	return out
}

// statistics for evidence (rapid's state machine has no case object of its own)
type c20StatT struct {
	mu        sync.Mutex
	histories int
	nt        map[uint64]struct{}
	samples   [][]string
	ops       int
}

var c20Stats = &c20StatT{nt: map[uint64]struct{}{}}

func (st *c20StatT) add(w *c20World) {
	st.mu.Lock()
	defer st.mu.Unlock()
	st.histories++
	st.ops += len(w.log)
	// non-trivial: FromCache after a clean affecting the name, a concurrent batch, or a failed load followed by a retry
	nontrivial := false
	cleaned := false
	for _, l := range w.log {
		if len(l) > 5 && (contains(l, "CleanCache") || contains(l, "unloadable=true")) {
			cleaned = true
		}
		if cleaned && contains(l, "FromCache") {
			nontrivial = true
		}
		if contains(l, "Concurrent") {
			nontrivial = true
		}
	}
	if nontrivial {
		h := hash64(joinLines(w.log))
		if _, seen := st.nt[h]; !seen {
			st.nt[h] = struct{}{}
			if len(st.samples) < 4 {
				st.samples = append(st.samples, append([]string(nil), w.log...))
			}
		}
	}
}

func contains(s, sub string) bool {
	return len(sub) == 0 || (len(s) >= len(sub) && indexOf(s, sub) >= 0)
}

func indexOf(s, sub string) int {
	for i := 0; i+len(sub) <= len(s); i++ {
		if s[i:i+len(sub)] == sub {
			return i
		}
	}
	return -1
}

type c20Dummy struct {
	History []string `json:"history"`
}

var c20Spec = register(&propSpec{
	ID:   "C20.cache",
	Rule: "rapid state machine over 1-2 template sets (own recording loader, globals, TrimBlocks option, set 0 bans a filter) x 3 names addressed through aliases that resolve to the same file: FromCache, CleanCache(), CleanCache(names), toggle Debug, touch an option on the set or on a cached template, RenderTemplateString/Bytes/File (this set's globals, options, bans, loader), change content, make a file unloadable/restore, k=2-16 goroutines issuing the same FromCache behind a barrier (exact oracle: one fetch, one instance), mixed FromCache/CleanCache batches (order-independent bounds); after every step every entry the model holds must still be served without a fetch in every set. Compared with a map model incl. loader fetch counts and rendered content generation. Non-trivial: FromCache after a clean / failed load, or a concurrent batch; distinct by operation log.",
	New:  func() any { return &c20Dummy{} },
	Check: func(c any, r *Rec) error {
		return skipf("histories are replayed through rapid's fail file, not through a descriptor")
	},
})

func TestC20Cache(t *testing.T) {
	rec := newRec(c20Spec)
	var lastFail *c20Dummy
	var lastMsg string
	t.Cleanup(func() {
		c20Stats.mu.Lock()
		rec.evals = c20Stats.histories
		for h := range c20Stats.nt {
			rec.nt[h] = struct{}{}
		}
		for _, s := range c20Stats.samples {
			b, _ := jsonString(s)
			rec.samples = append(rec.samples, []byte(b))
		}
		rec.extra["operations"] = c20Stats.ops
		c20Stats.mu.Unlock()
		rec.flush("rapid")
		if lastFail != nil {
			p := writeReplay(c20Spec, lastFail, lastMsg)
			fmt.Printf("VERIF-VIOLATION property=C20 spec=C20.cache replay=%s msg=%q\n", p, firstLine(lastMsg))
		}
	})
	c20MonitorOnce.Do(func() { go c20StallMonitor() })
	c20Live.mu.Lock()
	c20Live.active = true
	c20Live.mu.Unlock()
	defer func() {
		c20Live.mu.Lock()
		c20Live.active = false
		c20Live.mu.Unlock()
	}()
	rapid.Check(t, func(rt *rapid.T) {
		// rapid re-runs the shrunk history last, so the last report is the minimal one
		c20Machine(rt, func(msg string, log []string) {
			lastFail = &c20Dummy{History: log}
			lastMsg = msg
		})
	})
}

func firstLine(s string) string {
	if i := indexOf(s, "\n"); i >= 0 {
		return s[:i]
	}
	return s
}

// ---- C20.many: the cache has no capacity at which it forgets ---------------------------------

type c20Many struct {
	N      int   `json:"n"`      // distinct names cached
	Probes []int `json:"probes"` // names asked again afterwards (indices)
}

func checkC20Many(c any, r *Rec) error {
	cs := c.(*c20Many)
	files := map[string]string{}
	for i := 0; i < cs.N; i++ {
		files[fmt.Sprintf("/m/t%d.tpl", i)] = fmt.Sprintf("t%d", i)
	}
	ld := newMemLoader(files)
	set := pongo2.NewSet("c20many", ld)
	first := make([]*pongo2.Template, cs.N)
	for i := 0; i < cs.N; i++ {
		tpl, err := set.FromCache(fmt.Sprintf("/m/t%d.tpl", i))
		if err != nil {
			return fmt.Errorf("FromCache of name %d of %d: %v", i, cs.N, err)
		}
		first[i] = tpl
	}
	for _, p := range cs.Probes {
		i := p % cs.N
		name := fmt.Sprintf("/m/t%d.tpl", i)
		before := ld.hitCount(name)
		tpl, err := set.FromCache(name)
		if err != nil {
			return fmt.Errorf("FromCache(%s) again: %v", name, err)
		}
		if tpl != first[i] || ld.hitCount(name) != before {
			return fmt.Errorf("after %d distinct names were cached, FromCache(%s) returned another instance (same: %v) / fetched again (%d extra) although CleanCache was never called", cs.N, name, tpl == first[i], ld.hitCount(name)-before)
		}
	}
	r.Class(fmt.Sprintf("names>=%d", cs.N/500*500))
	r.NonTrivial(fmt.Sprint(cs.N, cs.Probes))
	return nil
}

var _ = register(&propSpec{
	ID:   "C20.many",
	Rule: "one set caches N distinct names (N drawn from 2..2500, biased to the hundreds and to just above 1000 / 2000) and is then asked again for 1-6 of them (the first, the last, random ones): same instance, no fetch - the statement knows no capacity. Non-trivial: every case.",
	Gen: func(t *rapid.T) any {
		n := pick(t, "n", []int{2, 17, 100, 255, 256, 257, 500, 999, 1000, 1001, 1024, 1025, 1500, 2047, 2048, 2049, 2500})
		if drawBool(t, "jitter") {
			n += drawInt(t, 0, 40, "j")
		}
		cs := &c20Many{N: n, Probes: []int{0, n - 1}}
		for i := drawInt(t, 0, 4, "np"); i > 0; i-- {
			cs.Probes = append(cs.Probes, drawInt(t, 0, n-1, "p"))
		}
		return cs
	},
	New:   func() any { return &c20Many{} },
	Check: checkC20Many,
})

func TestC20Many(t *testing.T) { runProp(t, "C20.many") }
