package props

// C03: a banned tag or filter cannot be used by any route; bans only before
// the first template.

import (
	"fmt"
	"regexp"
	"sort"
	"strings"
	"sync"
	"sync/atomic"
	"testing"
	"time"

	"github.com/flosch/pongo2/v6"
	"pgregory.net/rapid"
)

// ---- probes: a tag and a filter of our own whose use is observable -------------

var probeTagParsed, probeTagExecuted, probeFilterCalled int64

type probeTagNode struct{}

func (probeTagNode) Execute(ctx *pongo2.ExecutionContext, w pongo2.TemplateWriter) *pongo2.Error {
	atomic.AddInt64(&probeTagExecuted, 1)
	w.WriteString("PROBE-TAG")
	return nil
}

func probeTagParser(doc *pongo2.Parser, start *pongo2.Token, args *pongo2.Parser) (pongo2.INodeTag, *pongo2.Error) {
	atomic.AddInt64(&probeTagParsed, 1)
	for args.Remaining() > 0 {
		args.Consume()
	}
	return probeTagNode{}, nil
}

func probeFilterFn(in, param *pongo2.Value) (*pongo2.Value, *pongo2.Error) {
	atomic.AddInt64(&probeFilterCalled, 1)
	return pongo2.AsValue("PROBE-FILTER(" + in.String() + ")"), nil
}

func init() {
	_ = pongo2.RegisterTag("verif_probe_tag", probeTagParser)
	_ = pongo2.RegisterFilter("verif_probe_filter", probeFilterFn)
}

func probeCounters() [3]int64 {
	return [3]int64{atomic.LoadInt64(&probeTagParsed), atomic.LoadInt64(&probeTagExecuted), atomic.LoadInt64(&probeFilterCalled)}
}

// ---- usage snippets ---------------------------------------------------------------

var c03TagSnippets = map[string]string{
	"autoescape":      `{% autoescape on %}x{% endautoescape %}`,
	"block":           `{% block bq %}x{% endblock %}`,
	"comment":         `{% comment %}x{% endcomment %}`,
	"cycle":           `{% cycle "a" "b" %}`,
	"filter":          `{% filter lower %}X{% endfilter %}`,
	"firstof":         `{% firstof 0 "f" %}`,
	"for":             `{% for i in "ab" %}{{ i }}{% endfor %}`,
	"if":              `{% if 1 %}y{% endif %}`,
	"ifchanged":       `{% ifchanged %}c{% endifchanged %}`,
	"ifequal":         `{% ifequal 1 1 %}e{% endifequal %}`,
	"ifnotequal":      `{% ifnotequal 1 2 %}n{% endifnotequal %}`,
	"import":          `{% import "/lib/macros.tpl" imp_box %}{{ imp_box(1) }}`,
	"include":         `{% include "/lib/part.tpl" %}`,
	"lorem":           `{% lorem 2 w %}`,
	"macro":           `{% macro mq(a) %}{{ a }}{% endmacro %}{{ mq(1) }}`,
	"now":             `{% now "2006" fake %}`,
	"set":             `{% set q = 1 %}{{ q }}`,
	"spaceless":       `{% spaceless %}<a> </a>{% endspaceless %}`,
	"ssi":             `{% ssi "/lib/plain.txt" %}`,
	"templatetag":     `{% templatetag openblock %}`,
	"widthratio":      `{% widthratio 1 2 100 %}`,
	"with":            `{% with a=1 %}{{ a }}{% endwith %}`,
	"verif_probe_tag": `{% verif_probe_tag %}`,
	// "extends" is only valid as the first thing of a file: handled by its own route
}

// statement wrappers: name -> (tag the wrapper itself needs, format)
type c03Wrap struct{ name, needs, format string }

var c03Wrappers = []c03Wrap{
	{"if-body", "if", `{% if 1 %}%s{% endif %}`},
	{"else-body", "if", `{% if 0 %}a{% else %}%s{% endif %}`},
	{"elif-body", "if", `{% if 0 %}a{% elif 1 %}%s{% endif %}`},
	{"for-body", "for", `{% for wi in "a" %}%s{% endfor %}`},
	{"for-empty", "for", `{% for wi in "" %}a{% empty %}%s{% endfor %}`},
	{"with-body", "with", `{% with wa=1 %}%s{% endwith %}`},
	{"macro-body", "macro", `{% macro wm() %}%s{% endmacro %}{{ wm() }}`},
	{"block-body", "block", `{% block wb %}%s{% endblock %}`},
	{"autoescape-body", "autoescape", `{% autoescape off %}%s{% endautoescape %}`},
	{"spaceless-body", "spaceless", `{% spaceless %}%s{% endspaceless %}`},
	{"filtertag-body", "filter", `{% filter safe %}%s{% endfilter %}`},
	{"ifchanged-body", "ifchanged", `{% ifchanged %}%s{% endifchanged %}`},
	{"ifequal-body", "ifequal", `{% ifequal 1 1 %}%s{% endifequal %}`},
	{"ifnotequal-else", "ifnotequal", `{% ifnotequal 1 1 %}a{% else %}%s{% endifnotequal %}`},
}

// expression positions (filter targets): name -> (needs tag, format around E)
var c03ExprRoutes = []c03Wrap{
	{"output", "", `{{ %s }}`},
	{"operand", "", `{{ 1 + %s }}`},
	{"if-arg", "if", `{% if %s %}t{% endif %}`},
	{"elif-arg", "if", `{% if 0 %}a{% elif %s %}t{% endif %}`},
	{"for-arg", "for", `{% for fi in %s %}{{ fi }}{% endfor %}`},
	{"with-arg", "with", `{% with fa=%s %}{{ fa }}{% endwith %}`},
	{"with-as-arg", "with", `{% with %s as fa %}{{ fa }}{% endwith %}`},
	{"set-arg", "set", `{% set fs = %s %}{{ fs }}`},
	{"include-with", "include", `{% include "/lib/part.tpl" with x=%s %}`},
	{"firstof-arg", "firstof", `{% firstof 0 %s %}`},
	{"cycle-arg", "cycle", `{% cycle %s "b" %}`},
	{"widthratio-arg", "widthratio", `{% widthratio %s 2 100 %}`},
	{"ifequal-arg", "ifequal", `{% ifequal %s 1 %}e{% endifequal %}`},
	{"ifnotequal-arg", "ifnotequal", `{% ifnotequal 1 %s %}e{% endifnotequal %}`},
	{"ifchanged-arg", "ifchanged", `{% ifchanged %s %}c{% endifchanged %}`},
	{"macro-default", "macro", `{% macro dm(a=%s) %}{{ a }}{% endmacro %}{{ dm() }}`},
	{"macro-call-arg", "macro", `{% macro cm(a) %}{{ a }}{% endmacro %}{{ cm(%s) }}`},
	{"func-call-arg", "", `{{ ident(%s) }}`},
	{"subscript", "", `{{ items[%s] }}`},
	{"array-literal", "", `{{ [%s, 1]|length }}`},
	{"later-in-chain", "", `{{ "x"|lower|%s }}`},   // E is inserted as the bare filter name here
	{"earlier-in-chain", "", `{{ "x"|%s|lower }}`}, // the banned filter is followed by others
	{"middle-of-chain", "", `{{ "x"|lower|%s|title|lower }}`},
	{"filter-tag-chain-first", "filter", `{% filter %s|lower %}body{% endfilter %}`},
	{"filter-tag", "filter", `{% filter %s %}body{% endfilter %}`},
	{"filter-tag-chain", "filter", `{% filter lower|%s %}body{% endfilter %}`},
	// speculative: not valid syntax today; if a change makes it valid the ban must still hold
	{"paren-then-filter?", "", `{{ (1 + 2)|%s }}`},
}

var c03FileRoutes = []string{"none", "static-include", "lazy-include", "extends-parent-block", "extends-parent-top", "extends-child-block", "import-macro", "ssi-parsed", "include-of-include",
	// if_exists forgives a missing file, not a file that uses something banned
	"static-include-if_exists", "lazy-include-if_exists", "lazy-include-of-include-if_exists"}

var c03FileRouteNeeds = map[string]string{"static-include": "include", "lazy-include": "include", "extends-parent-block": "extends", "extends-parent-top": "extends",
	"extends-child-block": "extends", "import-macro": "import", "ssi-parsed": "ssi", "include-of-include": "include",
	"static-include-if_exists": "include", "lazy-include-if_exists": "include", "lazy-include-of-include-if_exists": "include"}

func c03Lib() map[string]string {
	return map[string]string{
		"/lib/macros.tpl": `{% macro imp_box(v) export %}[{{ v }}]{% endmacro %}`,
		"/lib/part.tpl":   `part<{{ x }}>`,
		"/lib/plain.txt":  `plain`,
	}
}

// c03Files places statement s according to the file route.
func c03Files(route, s string) (map[string]string, bool) {
	f := c03Lib()
	lazy := false
	switch route {
	case "none":
		f["/root.tpl"] = "A" + s + "Z"
	case "static-include":
		f["/d/u.tpl"] = s
		f["/root.tpl"] = `A{% include "/d/u.tpl" %}Z`
	case "include-of-include":
		f["/d/u.tpl"] = s
		f["/d/mid.tpl"] = `{% include "u.tpl" %}`
		f["/root.tpl"] = `A{% include "/d/mid.tpl" %}Z`
	case "lazy-include":
		f["/d/u.tpl"] = s
		f["/root.tpl"] = `A{% include lazyname %}Z`
		lazy = true
	case "static-include-if_exists":
		f["/d/u.tpl"] = s
		f["/root.tpl"] = `A{% include "/d/u.tpl" if_exists %}Z`
	case "lazy-include-if_exists":
		f["/d/u.tpl"] = s
		f["/root.tpl"] = `A{% include lazyname if_exists %}Z`
		lazy = true
	case "lazy-include-of-include-if_exists":
		f["/d/inner.tpl"] = s
		f["/d/u.tpl"] = `{% include "inner.tpl" if_exists %}`
		f["/root.tpl"] = `A{% include lazyname if_exists %}Z`
		lazy = true
	case "extends-parent-block":
		f["/base.tpl"] = `B{% block pb %}` + s + `{% endblock %}E`
		f["/root.tpl"] = `{% extends "/base.tpl" %}{% block other %}o{% endblock %}`
	case "extends-parent-top":
		f["/base.tpl"] = `B` + s + `{% block pb %}p{% endblock %}E`
		f["/root.tpl"] = `{% extends "/base.tpl" %}{% block pb %}child{% endblock %}`
	case "extends-child-block":
		f["/base.tpl"] = `B{% block pb %}p{% endblock %}E`
		f["/root.tpl"] = `{% extends "/base.tpl" %}{% block pb %}` + s + `{% endblock %}`
	case "import-macro":
		f["/d/mac.tpl"] = `{% macro im() export %}` + s + `{% endmacro %}`
		f["/root.tpl"] = `A{% import "/d/mac.tpl" im %}{{ im() }}Z`
	case "ssi-parsed":
		f["/d/u.tpl"] = s
		f["/root.tpl"] = `A{% ssi "/d/u.tpl" parsed %}Z`
	}
	return f, lazy
}

type c03Case struct {
	Kind      string   `json:"kind"` // tag | filter
	Target    string   `json:"target"`
	Expr      string   `json:"expr_route,omitempty"` // for filters: name of the expression position
	WithParam bool     `json:"with_param,omitempty"`
	Wraps     []string `json:"wraps"` // statement wrappers, outermost first
	File      string   `json:"file_route"`
}

func findWrap(list []c03Wrap, name string) (c03Wrap, bool) {
	for _, w := range list {
		if w.name == name {
			return w, true
		}
	}
	return c03Wrap{}, false
}

// c03Build returns the statement using `name` in place of the target.
func c03Build(cs *c03Case, name string) (string, []string, error) {
	var needs []string
	var stmt string
	if cs.Kind == "tag" {
		if name == "extends" {
			return "", nil, skipf("extends has its own route")
		}
		sn, ok := c03TagSnippets[name]
		if !ok {
			sn = "{% " + name + " %}" // a tag this table does not know
		}
		stmt = sn
	} else {
		er, ok := findWrap(c03ExprRoutes, cs.Expr)
		if !ok {
			return "", nil, fmt.Errorf("unknown expression route %s", cs.Expr)
		}
		if er.needs != "" {
			needs = append(needs, er.needs)
		}
		use := name
		if cs.WithParam {
			use += ":1"
		}
		switch cs.Expr {
		case "later-in-chain", "earlier-in-chain", "middle-of-chain", "filter-tag-chain-first", "filter-tag", "filter-tag-chain", "paren-then-filter?":
			stmt = strings.Replace(er.format, "%s", use, 1)
		default:
			stmt = strings.Replace(er.format, "%s", `"ab"|`+use, 1)
		}
	}
	for i := len(cs.Wraps) - 1; i >= 0; i-- {
		w, ok := findWrap(c03Wrappers, cs.Wraps[i])
		if !ok {
			return "", nil, fmt.Errorf("unknown wrapper %s", cs.Wraps[i])
		}
		needs = append(needs, w.needs)
		// unique block / macro names per nesting level
		f := strings.ReplaceAll(strings.ReplaceAll(w.format, "wb", fmt.Sprintf("wb%d", i)), "wm", fmt.Sprintf("wm%d", i))
		stmt = strings.Replace(f, "%s", stmt, 1)
	}
	if n := c03FileRouteNeeds[cs.File]; n != "" {
		needs = append(needs, n)
	}
	return stmt, needs, nil
}

var c03TagRe = regexp.MustCompile(`\{%-?\s*([A-Za-z_0-9]+)`)
var c03FilterRe = regexp.MustCompile(`(?:\||\{%-?\s*filter\s+)\s*([A-Za-z_0-9]+)`)

func c03Ctx() pongo2.Context {
	return pongo2.Context{"lazyname": "/d/u.tpl", "items": []int{1, 2, 3}, "ident": func(v *pongo2.Value) *pongo2.Value { return v }}
}

func c03NewSet(files map[string]string, banKind, ban string) (*pongo2.TemplateSet, *memLoader, error) {
	ld := newMemLoader(copyFiles(files))
	set := pongo2.NewSet("c03", ld)
	var err error
	if ban != "" {
		if banKind == "tag" {
			err = set.BanTag(ban)
		} else {
			err = set.BanFilter(ban)
		}
	}
	return set, ld, err
}

func checkC03Route(c any, r *Rec) error {
	cs := c.(*c03Case)
	stmt, needs, err := c03Build(cs, cs.Target)
	if err != nil {
		return err
	}
	_ = needs
	// names the route's own scaffolding uses: build it around a placeholder and scan
	scaffold, _, _ := c03Build(cs, "zzplaceholder")
	sfiles, _ := c03Files(cs.File, scaffold)
	for fname, src := range sfiles {
		if strings.HasPrefix(fname, "/lib/") {
			continue
		}
		var re *regexp.Regexp
		if cs.Kind == "tag" {
			re = c03TagRe
		} else {
			re = c03FilterRe
		}
		for _, m := range re.FindAllStringSubmatch(src, -1) {
			if m[1] == cs.Target {
				return skipf("the route itself needs the banned name")
			}
		}
	}
	files, lazy := c03Files(cs.File, stmt)
	desc := fmt.Sprintf("%s %q via %v/%s/%s: root=%q stmt=%q", cs.Kind, cs.Target, cs.Wraps, cs.Expr, cs.File, files["/root.tpl"], stmt)
	speculative := strings.HasSuffix(cs.Expr, "?")

	// B: the unbanned set. The route must be usable there, otherwise a failure in A proves nothing.
	setB, _, _ := c03NewSet(files, "", "")
	tplB, errB := setB.FromFile("/root.tpl")
	if errB != nil {
		if speculative {
			r.Class("speculative-route-invalid-today")
		} else if _, known := c03TagSnippets[cs.Target]; cs.Kind == "tag" && !known {
			r.Class("unknown-tag-syntax")
		} else {
			return fmt.Errorf("route is not usable even without a ban (harness or engine problem): %s: %v", desc, errB)
		}
	}
	// A: the set with the ban
	before := probeCounters()
	setA, ldA, banErr := c03NewSet(files, cs.Kind, cs.Target)
	if banErr != nil {
		return fmt.Errorf("banning registered %s %q refused: %v", cs.Kind, cs.Target, banErr)
	}
	tplA, errA := setA.FromFile("/root.tpl")
	if lazy {
		if errA != nil {
			return fmt.Errorf("root with a lazy include must compile: %s: %v", desc, errA)
		}
		out, xerr := tplA.Execute(c03Ctx())
		if xerr == nil && !(errB != nil) {
			return fmt.Errorf("banned %s was compiled through a lazy include and rendered %q: %s", cs.Kind, out, desc)
		}
	} else if errA == nil {
		if errB == nil {
			out, xerr := tplA.Execute(c03Ctx())
			return fmt.Errorf("template using banned %s compiled (rendered %q, err %v): %s", cs.Kind, out, xerr, desc)
		}
		// speculative route that started to compile in A but not in B: still must not run the banned code
		_, _ = tplA.Execute(c03Ctx())
	}
	after := probeCounters()
	if after != before {
		return fmt.Errorf("banned probe ran (parsed/executed/filter-called %v -> %v): %s", before, after, desc)
	}
	if cs.Kind == "tag" && cs.Target == "include" {
		for _, g := range ldA.getLog() {
			if g == "/lib/part.tpl" {
				return fmt.Errorf("banned include still fetched its file: %s", desc)
			}
		}
	}
	if errB != nil {
		return nil
	}
	// twin: the same route with an unbanned stand-in must work in A exactly as in B
	twinName := "lorem"
	if cs.Kind == "filter" {
		twinName = "upper"
		if cs.Target == "upper" {
			twinName = "lower"
		}
	} else if cs.Target == "lorem" {
		twinName = "now"
	}
	twinStmt, _, _ := c03Build(cs, twinName)
	twinFiles, _ := c03Files(cs.File, twinStmt)
	setA2, _, _ := c03NewSet(twinFiles, cs.Kind, cs.Target)
	setB2, _, _ := c03NewSet(twinFiles, "", "")
	tA, eA := setA2.FromFile("/root.tpl")
	tB, eB := setB2.FromFile("/root.tpl")
	if (eA == nil) != (eB == nil) {
		return fmt.Errorf("unbanned twin (%s) behaves differently in the banning set: errA=%v errB=%v (%s)", twinName, eA, eB, twinFiles["/root.tpl"])
	}
	if eA == nil {
		oA, xA := tA.Execute(c03Ctx())
		oB, xB := tB.Execute(c03Ctx())
		if oA != oB || errText(xA) != errText(xB) {
			return fmt.Errorf("unbanned twin (%s) renders %q/%v in the banning set but %q/%v elsewhere", twinName, oA, xA, oB, xB)
		}
	}
	// spelling the banned name in another case is no way round the ban: either the engine does not
	// know the variant (error) or it takes it for the banned name (error)
	for _, variant := range []string{strings.ToUpper(cs.Target[:1]) + cs.Target[1:], strings.ToUpper(cs.Target)} {
		if variant == cs.Target {
			continue
		}
		vStmt, _, verr := c03Build(cs, variant)
		if verr != nil {
			continue
		}
		vFiles, _ := c03Files(cs.File, vStmt)
		setV, _, _ := c03NewSet(vFiles, cs.Kind, cs.Target)
		tplV, errV := setV.FromFile("/root.tpl")
		if errV == nil {
			// (unknown names may surface only at execution time: lazy includes, the filter tag)
			out, xerrV := tplV.Execute(c03Ctx())
			if xerrV == nil {
				return fmt.Errorf("%s %q is banned, but written as %q it compiled and rendered %q: %s", cs.Kind, cs.Target, variant, out, vFiles["/root.tpl"]+" | "+vStmt)
			}
		}
	}
	// the original still works in B
	if _, xerr := tplB.Execute(c03Ctx()); xerr != nil {
		r.Class("original-fails-at-runtime-in-B(allowed)")
	}
	r.Class("kind:" + cs.Kind)
	r.Class("file:" + cs.File)
	if len(cs.Wraps) > 0 || cs.File != "none" || (cs.Kind == "filter" && cs.Expr != "output") {
		r.NonTrivial(fmt.Sprintf("%s|%s|%s|%v|%v|%s", cs.Kind, cs.Target, cs.Expr, cs.WithParam, cs.Wraps, cs.File))
	}
	return nil
}

func c03Targets() (tags, filters []string) {
	return pongo2.VerifRegisteredTags(), pongo2.VerifRegisteredFilters()
}

func genC03Route(t *rapid.T) *c03Case {
	tags, filters := c03Targets()
	cs := &c03Case{}
	if drawBool(t, "isfilter") {
		cs.Kind = "filter"
		cs.Target = pick(t, "filter", filters)
		names := make([]string, len(c03ExprRoutes))
		for i, e := range c03ExprRoutes {
			names[i] = e.name
		}
		cs.Expr = pick(t, "expr", names)
		cs.WithParam = drawBool(t, "param")
	} else {
		cs.Kind = "tag"
		cs.Target = pick(t, "tag", tags)
	}
	n := drawInt(t, 0, 3, "nwraps")
	for i := 0; i < n; i++ {
		cs.Wraps = append(cs.Wraps, pick(t, "wrap", c03Wrappers).name)
	}
	cs.File = pick(t, "file", c03FileRoutes)
	return cs
}

var _ = register(&propSpec{
	ID:    "C03.route",
	Rule:  "ban target = every registered tag / filter (read through the hook, plus an observable probe tag and probe filter); one route = expression position (27 kinds incl. every tag argument, macro defaults/arguments, subscripts, array literals, first / in the middle / later in a chain, the filter tag, one speculative form) x 0-3 nested statement wrappers (14 body kinds) x file route (same file, static / nested / lazy include, extends parent block / parent top / child block, imported macro, ssi parsed). Oracle: with the ban the template fails to compile (lazy include: fails to execute), probe counters stay 0, a banned include fetches nothing; the same route is usable in an unbanned set; an unbanned twin renders identically in both sets. Non-trivial: route is not the bare top-level use; distinct by (target, route).",
	Gen:   func(t *rapid.T) any { return genC03Route(t) },
	New:   func() any { return &c03Case{} },
	Check: checkC03Route,
})

func TestC03Route(t *testing.T) { runProp(t, "C03.route") }

// all targets x all single-wrapper routes x all file routes
func TestC03RouteEnum(t *testing.T) {
	tags, filters := c03Targets()
	enumerate(t, "C03.route", "enum", func(yield func(any) bool) {
		wraps := [][]string{nil}
		for _, w := range c03Wrappers {
			wraps = append(wraps, []string{w.name})
		}
		for _, file := range c03FileRoutes {
			for _, ws := range wraps {
				for _, tg := range tags {
					if !yield(&c03Case{Kind: "tag", Target: tg, Wraps: ws, File: file}) {
						return
					}
				}
			}
			for _, f := range filters {
				for _, er := range c03ExprRoutes {
					for _, ws := range [][]string{nil, {"for-body"}, {"macro-body"}} {
						if !yield(&c03Case{Kind: "filter", Target: f, Expr: er.name, Wraps: ws, File: file}) {
							return
						}
					}
				}
			}
		}
	})
}

// extends itself as ban target
func TestC03BanExtends(t *testing.T) {
	files := c03Lib()
	files["/base.tpl"] = "B{% block b %}p{% endblock %}"
	files["/root.tpl"] = `{% extends "/base.tpl" %}{% block b %}c{% endblock %}`
	files["/outer.tpl"] = `{% include "/root.tpl" %}`
	for _, entry := range []string{"/root.tpl", "/outer.tpl"} {
		set, ld, err := c03NewSet(files, "tag", "extends")
		if err != nil {
			t.Fatal(err)
		}
		if _, err := set.FromFile(entry); err == nil {
			fmt.Printf("VERIF-VIOLATION property=C03 spec=C03.route replay=- msg=%q\n", "banned extends compiled via "+entry)
			t.Fatalf("banned extends compiled via %s", entry)
		}
		for _, g := range ld.getLog() {
			if g == "/base.tpl" {
				fmt.Printf("VERIF-VIOLATION property=C03 spec=C03.route replay=- msg=%q\n", "banned extends fetched its parent")
				t.Fatalf("banned extends fetched its parent")
			}
		}
	}
}

// ---- histories -------------------------------------------------------------------

type c03Op struct {
	Op   string `json:"op"`
	Set  int    `json:"set"`
	Name string `json:"name,omitempty"`
}

type c03Hist struct {
	Ops []c03Op `json:"ops"`
}

type c03Model struct {
	tags, filters map[string]bool
	frozen        bool
	// maybe: a From* call FAILED before any template existed. The property freezes a set once it
	// "has created its first template"; whether a failed attempt counts is not stated, so a ban
	// that follows may be accepted or refused.
	maybe bool
}

func c03ProbeSrc(kind, name string) string {
	if kind == "filter" {
		return `{{ "v"|` + name + ` }}`
	}
	if sn, ok := c03TagSnippets[name]; ok {
		return sn
	}
	return "{% " + name + " %}"
}

func checkC03Hist(c any, r *Rec) error {
	cs := c.(*c03Hist)
	tags, filters := c03Targets()
	isTag := map[string]bool{}
	isFilter := map[string]bool{}
	for _, x := range tags {
		isTag[x] = true
	}
	for _, x := range filters {
		isFilter[x] = true
	}
	files := c03Lib()
	files["/ok.tpl"] = "ok {{ 1 }}"
	files["/bad.tpl"] = "{% if %}"
	sets := []*pongo2.TemplateSet{}
	models := []*c03Model{}
	for i := 0; i < 2; i++ {
		s, _, _ := c03NewSet(files, "", "")
		sets = append(sets, s)
		models = append(models, &c03Model{tags: map[string]bool{}, filters: map[string]bool{}})
	}
	var log []string
	fail := func(format string, a ...any) error {
		return fmt.Errorf("%s\n history so far:\n  %s", fmt.Sprintf(format, a...), strings.Join(log, "\n  "))
	}
	refusedAfterFreeze := false
	probe := func(si int, kind, name string) error {
		m := models[si]
		_, err := sets[si].FromString(c03ProbeSrc(kind, name))
		if err == nil {
			m.frozen = true
		} else {
			m.maybe = true
		}
		banned := m.tags[name]
		if kind == "filter" {
			banned = m.filters[name]
		}
		known := isTag[name]
		if kind == "filter" {
			known = isFilter[name]
		}
		if !known {
			return nil
		}
		if banned && err == nil {
			return fail("set%d: %s %q is banned according to the history but a template using it compiled", si, kind, name)
		}
		// the probe snippets of two tags use another registered name themselves
		depBanned := kind == "tag" && (name == "filter" && m.filters["lower"] || name == "import" && m.tags["macro"])
		if !banned && !depBanned && err != nil && name != "extends" {
			return fail("set%d: %s %q was never (successfully) banned here but is refused: %v", si, kind, name, err)
		}
		return nil
	}
	for _, op := range cs.Ops {
		si := op.Set % 2
		s, m := sets[si], models[si]
		log = append(log, fmt.Sprintf("set%d.%s(%s)", si, op.Op, op.Name))
		switch op.Op {
		case "BanTag", "BanFilter":
			known, already := isTag[op.Name], m.tags[op.Name]
			var err error
			if op.Op == "BanTag" {
				err = s.BanTag(op.Name)
			} else {
				known, already = isFilter[op.Name], m.filters[op.Name]
				err = s.BanFilter(op.Name)
			}
			wantErr := !known || m.frozen || already
			if !m.frozen && (!known || already) {
				// banning an unknown name or banning twice before the freeze: refused today, but the
				// statement only says that late bans are refused - either outcome is admitted
				wantErr = err != nil
			}
			if m.maybe && !m.frozen && known && !already {
				wantErr = err != nil // either outcome is admitted; a refusal settles that the set is frozen
				if err != nil {
					m.frozen = true
				}
			}
			if wantErr != (err != nil) {
				return fail("%s(%q) on set%d returned %v; known=%v frozen=%v already-banned=%v", op.Op, op.Name, si, err, known, m.frozen, already)
			}
			if err == nil {
				if op.Op == "BanTag" {
					m.tags[op.Name] = true
				} else {
					m.filters[op.Name] = true
				}
			} else if m.frozen && known && !already {
				refusedAfterFreeze = true
			}
		case "FromString":
			_, ferr := s.FromString(op.Name)
			if ferr == nil {
				m.frozen = true
			} else {
				m.maybe = true
			}
		case "FromBytes":
			_, ferr := s.FromBytes([]byte(op.Name))
			if ferr == nil {
				m.frozen = true
			} else {
				m.maybe = true
			}
		case "FromFile":
			_, ferr := s.FromFile(op.Name)
			if ferr == nil {
				m.frozen = true
			} else {
				m.maybe = true
			}
		case "FromCache":
			_, ferr := s.FromCache(op.Name)
			if ferr == nil {
				m.frozen = true
			} else {
				m.maybe = true
			}
		case "RenderTemplateString", "RenderTemplateBytes", "RenderTemplateFile":
			var rerr error
			switch {
			case op.Op == "RenderTemplateString" && op.Name == "":
				_, rerr = s.RenderTemplateString("r {{ 2 }}", nil)
			case op.Op == "RenderTemplateString":
				_, rerr = s.RenderTemplateString(op.Name, nil)
			case op.Op == "RenderTemplateBytes" && op.Name == "":
				_, rerr = s.RenderTemplateBytes([]byte("r {{ 3 }}"), nil)
			case op.Op == "RenderTemplateBytes":
				_, rerr = s.RenderTemplateBytes([]byte(op.Name), nil)
			case op.Name == "":
				_, rerr = s.RenderTemplateFile("/ok.tpl", nil)
			default:
				_, rerr = s.RenderTemplateFile(op.Name, nil)
			}
			// the sources used here never fail at execution time: an error is a failed compilation
			if rerr == nil {
				m.frozen = true
			} else {
				m.maybe = true
			}
		case "Debug":
			// a debugging switch is no way back either
			s.Debug = op.Name == "on"
		case "ReplaceProbe":
			// bans go by name: replacing the implementation registered under a banned name lifts nothing
			_ = pongo2.ReplaceTag("verif_probe_tag", probeTagParser)
			_ = pongo2.ReplaceFilter("verif_probe_filter", probeFilterFn)
		case "CleanCache":
			// cache maintenance is no way back: the set has created templates and stays frozen
			if op.Name == "" {
				s.CleanCache()
			} else {
				s.CleanCache(op.Name)
			}
		case "ProbeTag":
			if err := probe(si, "tag", op.Name); err != nil {
				return err
			}
		case "ProbeFilter":
			if err := probe(si, "filter", op.Name); err != nil {
				return err
			}
		}
	}
	// final sweep: every name, both sets (sets never influence each other)
	for si := range sets {
		names := []string{}
		for n := range models[si].tags {
			names = append(names, n)
		}
		sort.Strings(names)
		for _, n := range append(names, "if", "for", "lorem", "verif_probe_tag") {
			log = append(log, fmt.Sprintf("final set%d.ProbeTag(%s)", si, n))
			if err := probe(si, "tag", n); err != nil {
				return err
			}
		}
		fnames := []string{}
		for n := range models[si].filters {
			fnames = append(fnames, n)
		}
		sort.Strings(fnames)
		for _, n := range append(fnames, "upper", "safe", "verif_probe_filter") {
			log = append(log, fmt.Sprintf("final set%d.ProbeFilter(%s)", si, n))
			if err := probe(si, "filter", n); err != nil {
				return err
			}
		}
	}
	if refusedAfterFreeze {
		r.Class("refused-ban-after-freeze")
		r.NonTrivial(strings.Join(log, ";"))
	}
	return nil
}

func genC03Hist(t *rapid.T) *c03Hist {
	tags, filters := c03Targets()
	n := drawInt(t, 1, 12, "nops")
	h := &c03Hist{}
	for i := 0; i < n; i++ {
		op := c03Op{Set: drawInt(t, 0, 1, "set")}
		op.Op = pickW(t, "op", []string{"BanTag", "BanFilter", "FromString", "FromBytes", "FromFile", "FromCache", "RenderTemplateString", "RenderTemplateBytes", "RenderTemplateFile", "ProbeTag", "ProbeFilter", "CleanCache", "Debug", "ReplaceProbe"},
			[]int{5, 5, 1, 1, 1, 1, 1, 1, 1, 2, 2, 2, 2, 2})
		switch op.Op {
		case "BanTag", "ProbeTag":
			op.Name = pick(t, "tagname", append([]string{"nosuchtag", "if", "if", "lorem", "for", "verif_probe_tag", "verif_probe_tag"}, tags...))
		case "BanFilter", "ProbeFilter":
			op.Name = pick(t, "filtername", append([]string{"nosuchfilter", "upper", "upper", "safe", "verif_probe_filter", "verif_probe_filter"}, filters...))
		case "FromString", "FromBytes", "RenderTemplateString", "RenderTemplateBytes":
			op.Name = pick(t, "src", []string{"plain", "{{ 1 }}", "{% if %}", "{% lorem %}", `{{ "x"|upper }}`})
		case "FromFile", "FromCache", "RenderTemplateFile":
			op.Name = pick(t, "file", []string{"/ok.tpl", "/bad.tpl", "/missing.tpl"})
		case "CleanCache":
			op.Name = pick(t, "cleanname", []string{"", "", "/ok.tpl", "/missing.tpl"})
		case "Debug":
			op.Name = pick(t, "dbg", []string{"on", "on", "off"})
		}
		h.Ops = append(h.Ops, op)
	}
	return h
}

var _ = register(&propSpec{
	ID:    "C03.history",
	Rule:  "call histories (1-12 operations on 2 sets) over BanTag, BanFilter, FromString, FromBytes, FromFile, FromCache (valid, broken and missing sources), RenderTemplateString/Bytes/File, CleanCache() / CleanCache(name) and switching Debug on / off (neither may thaw a set), and probes that compile a one-tag / one-filter template; names drawn from registered, unregistered and already banned ones. Model per set: banned tags, banned filters, frozen flag. Ban* must succeed for a known, not yet banned name before the freeze and must be refused after it (unknown names and duplicates before the freeze may go either way); a refused ban changes nothing; every From*/Render* freezes (also when it fails); probes fail iff the model says banned; a final sweep probes every banned name and controls in both sets. Non-trivial: a ban of a known, not yet banned name refused after the freeze.",
	Gen:   func(t *rapid.T) any { return genC03Hist(t) },
	New:   func() any { return &c03Hist{} },
	Check: checkC03Hist,
})

func TestC03History(t *testing.T) { runProp(t, "C03.history") }

// ---- C03.concurrent: a ban that arrives while the first template is being compiled -----------
// Whatever BanTag / BanFilter answers in that window, the guarantee must hold afterwards: if the
// ban was accepted, no template of the set uses the banned name.

type c03Conc struct {
	Kind    string `json:"kind"`     // tag | filter
	UseHead bool   `json:"use_head"` // the banned construct stands before (true) or behind the slow include
	DelayMs int    `json:"delay_ms"`
	BanAtMs int    `json:"ban_at_ms"`
}

func checkC03Conc(c any, r *Rec) error {
	cs := c.(*c03Conc)
	use, name := "{% lorem 2 w %}", "lorem"
	if cs.Kind == "filter" {
		use, name = `{{ "x"|upper }}`, "upper"
	}
	root := `A{% include "/slow.tpl" %}` + use + "Z"
	if cs.UseHead {
		root = "A" + use + `{% include "/slow.tpl" %}Z`
	}
	ld := newMemLoader(map[string]string{"/root.tpl": root, "/slow.tpl": "slow"})
	set := pongo2.NewSet("c03conc", ld)
	ld.setDelay(time.Duration(cs.DelayMs) * time.Millisecond)
	var tpl *pongo2.Template
	var cerr, banErr error
	done := make(chan struct{})
	go func() {
		defer close(done)
		tpl, cerr = set.FromFile("/root.tpl")
	}()
	time.Sleep(time.Duration(cs.BanAtMs) * time.Millisecond)
	if cs.Kind == "filter" {
		banErr = set.BanFilter(name)
	} else {
		banErr = set.BanTag(name)
	}
	<-done
	ld.setDelay(0)
	if banErr == nil && cerr == nil {
		out, xerr := tpl.Execute(nil)
		return fmt.Errorf("Ban%s(%q) was accepted %d ms after FromFile had started (loader delay %d ms) and the template using it still compiled (renders %q, err %v): the set has banned %q and has a template that uses it\n root=%q", strings.Title(cs.Kind), name, cs.BanAtMs, cs.DelayMs, out, xerr, name, root)
	}
	// later templates obey whatever was decided
	_, perr := set.FromString(use)
	if (banErr == nil) != (perr != nil) {
		return fmt.Errorf("Ban%s(%q) returned %v, but a template using it compiled afterwards: %v", strings.Title(cs.Kind), name, banErr, perr == nil)
	}
	if banErr == nil {
		r.Class("ban-won")
	} else {
		r.Class("ban-refused")
	}
	r.NonTrivial(fmt.Sprint(*cs))
	return nil
}

var _ = register(&propSpec{
	ID:   "C03.concurrent",
	Rule: "while the first FromFile of a set is inside a slow loader (5-25 ms per fetch; the banned construct written before or behind the slow include) another goroutine calls BanTag / BanFilter at a drawn moment (before, during, after). Oracle, independent of who wins: an accepted ban and a compiled template that uses the banned name must not coexist, and templates compiled afterwards obey the answer the ban got. Non-trivial: every case.",
	Gen: func(t *rapid.T) any {
		d := drawInt(t, 5, 25, "delay")
		return &c03Conc{Kind: pick(t, "kind", []string{"tag", "filter"}), UseHead: drawBool(t, "head"), DelayMs: d, BanAtMs: drawInt(t, 0, 3*d, "banat")}
	},
	New:   func() any { return &c03Conc{} },
	Check: checkC03Conc,
})

func TestC03Concurrent(t *testing.T) { runProp(t, "C03.concurrent") }

// ---- C03.creators: the first templates of a set are created by several goroutines at once -------
// (a web server compiles on first use). Bans added before must hold for every one of them, the set
// must be frozen afterwards, and - under the race detector - the bookkeeping that freezes it must
// not be a data race.

type c03Creators struct {
	Kind   string   `json:"kind"`   // tag | filter
	Routes []string `json:"routes"` // one per goroutine
	Lazy   bool     `json:"lazy"`   // the executed templates include another file by a computed name
}

func checkC03Creators(c any, r *Rec) error {
	cs := c.(*c03Creators)
	use, name, other := "{% lorem 2 w %}", "lorem", "{% templatetag openblock %}"
	if cs.Kind == "filter" {
		use, name, other = `{{ "x"|upper }}`, "upper", `{{ "X"|lower }}`
	}
	good := "[" + other + "{% include part %}]"
	if !cs.Lazy {
		good = "[" + other + `{% include "/part.tpl" %}]`
	}
	ld := newMemLoader(map[string]string{"/good.tpl": good, "/bad.tpl": "A" + use + "Z", "/part.tpl": "{{ n }}", "/badpart.tpl": use})
	set := pongo2.NewSet("c03creators", ld)
	var err error
	if cs.Kind == "filter" {
		err = set.BanFilter(name)
	} else {
		err = set.BanTag(name)
	}
	if err != nil {
		return fmt.Errorf("ban before the first template refused: %v", err)
	}
	wantGood := "[{%0]"
	if cs.Kind == "filter" {
		wantGood = "[x0]"
	}
	errs := make([]error, len(cs.Routes))
	var wg sync.WaitGroup
	start := make(chan struct{})
	for g, route := range cs.Routes {
		wg.Add(1)
		go func(g int, route string) {
			defer wg.Done()
			<-start
			ctx := pongo2.Context{"part": "/part.tpl", "n": 0}
			var tpl *pongo2.Template
			var cerr error
			switch route {
			case "FromString":
				tpl, cerr = set.FromString(good)
			case "FromBytes":
				tpl, cerr = set.FromBytes([]byte(good))
			case "FromFile":
				tpl, cerr = set.FromFile("/good.tpl")
			case "FromCache":
				tpl, cerr = set.FromCache("/good.tpl")
			case "Render":
				out, rerr := set.RenderTemplateString(good, ctx)
				if rerr != nil || out != wantGood {
					errs[g] = fmt.Errorf("RenderTemplateString of a template without the banned name: %q, %v", out, rerr)
				}
				return
			case "bad-FromString":
				if _, berr := set.FromString("A" + use + "Z"); berr == nil {
					errs[g] = fmt.Errorf("a template using the banned %s %q compiled (FromString, while other goroutines create templates)", cs.Kind, name)
				}
				return
			case "bad-FromFile":
				if _, berr := set.FromFile("/bad.tpl"); berr == nil {
					errs[g] = fmt.Errorf("a template using the banned %s %q compiled (FromFile, while other goroutines create templates)", cs.Kind, name)
				}
				return
			case "bad-lazy":
				btpl, berr := set.FromString("[{% include part %}]")
				if berr != nil {
					errs[g] = berr
					return
				}
				if out, xerr := btpl.Execute(pongo2.Context{"part": "/badpart.tpl"}); xerr == nil {
					errs[g] = fmt.Errorf("a lazily included file using the banned %s %q rendered %q", cs.Kind, name, out)
				}
				return
			}
			if cerr != nil {
				errs[g] = fmt.Errorf("%s of a template without the banned name: %v", route, cerr)
				return
			}
			if out, xerr := tpl.Execute(ctx); xerr != nil || out != wantGood {
				errs[g] = fmt.Errorf("%s: rendered %q, %v; want %q", route, out, xerr, wantGood)
			}
		}(g, route)
	}
	close(start)
	wg.Wait()
	for _, e := range errs {
		if e != nil {
			return e
		}
	}
	// frozen: a further ban is refused and changes nothing
	if cs.Kind == "filter" {
		err = set.BanFilter("lower")
	} else {
		err = set.BanTag("templatetag")
	}
	if err == nil {
		return fmt.Errorf("a ban after %d goroutines had created templates was accepted", len(cs.Routes))
	}
	if _, perr := set.FromString(other); perr != nil {
		return fmt.Errorf("the refused ban took effect: %v", perr)
	}
	if _, perr := set.FromString(use); perr == nil {
		return fmt.Errorf("the banned %s %q compiles after the concurrent phase", cs.Kind, name)
	}
	r.NonTrivial(fmt.Sprint(*cs))
	return nil
}

var _ = register(&propSpec{
	ID:   "C03.creators",
	Rule: "a set with one ban (tag or filter) whose first templates are created by 2-8 goroutines at once behind a barrier, each by one route (FromString, FromBytes, FromFile, FromCache, RenderTemplateString on a template that does not use the banned name and includes a file statically or by a computed name; FromString / FromFile / a lazy include of a template that uses it): the ban holds in every goroutine, everything else works, afterwards a further ban is refused and changes nothing. Run under the race detector as well: a report in the engine's own frames is a violation. Non-trivial: every case.",
	Gen: func(t *rapid.T) any {
		cs := &c03Creators{Kind: pick(t, "kind", []string{"tag", "filter"}), Lazy: drawBool(t, "lazy")}
		for n := drawInt(t, 2, 8, "g"); n > 0; n-- {
			cs.Routes = append(cs.Routes, pick(t, "route", []string{"FromString", "FromBytes", "FromFile", "FromCache", "Render", "bad-FromString", "bad-FromFile", "bad-lazy"}))
		}
		return cs
	},
	New:   func() any { return &c03Creators{} },
	Check: checkC03Creators,
})

func TestC03Creators(t *testing.T) { runProp(t, "C03.creators") }
