package props

// C20.composed: cached templates that are made of other templates (extends, include, import).
// A cache entry is one compiled template: asking for it again gives the same instance, which
// keeps rendering what it was compiled from - whatever else was compiled, cached or cleaned in
// between (a parent that is cached itself, children of the same parent, ...).

import (
	"fmt"
	"strings"
	"testing"

	"github.com/flosch/pongo2/v6"
	"pgregory.net/rapid"
)

func init() {
	// a global of the DEFAULT set: invisible to the templates of every other set
	pongo2.Globals["verif_dg"] = "DEFAULT-SET-GLOBAL"
}

var c20cNames = []string{"/base.tpl", "/kid1.tpl", "/kid2.tpl", "/grand.tpl", "/part.tpl", "/page.tpl", "/lib.tpl", "/user.tpl"}

// files a template is compiled from besides its own
var c20cDeps = map[string][]string{
	"/kid1.tpl": {"/base.tpl"}, "/kid2.tpl": {"/base.tpl"}, "/grand.tpl": {"/kid1.tpl", "/base.tpl"},
	"/page.tpl": {"/part.tpl"}, "/user.tpl": {"/lib.tpl"},
}

func c20cContent(name string, gen int) string {
	switch name {
	case "/base.tpl":
		return fmt.Sprintf("B%d{{ g }}{{ verif_dg }}[{%% block c %%}b%d{%% endblock %%}]", gen, gen)
	case "/kid1.tpl", "/kid2.tpl":
		return fmt.Sprintf(`{%% extends "/base.tpl" %%}{%% block c %%}%sv%d{%% endblock %%}`, name[1:5], gen)
	case "/grand.tpl":
		return fmt.Sprintf(`{%% extends "/kid1.tpl" %%}{%% block c %%}g%d+{{ block.Super }}{%% endblock %%}`, gen)
	case "/part.tpl":
		return fmt.Sprintf("P%d{{ g }}", gen)
	case "/page.tpl":
		return fmt.Sprintf(`G%d<{%% include "/part.tpl" %%}>`, gen)
	case "/lib.tpl":
		return fmt.Sprintf("{%% macro m() export %%}L%d{%% endmacro %%}", gen)
	case "/user.tpl":
		return fmt.Sprintf(`U%d:{%% import "/lib.tpl" m %%}{{ m() }}`, gen)
	}
	panic(name)
}

// what a template compiled from the given generations renders in a set whose global g is tag
func c20cRender(name, tag string, gens map[string]int) string {
	switch name {
	case "/base.tpl":
		return fmt.Sprintf("B%d%s[b%d]", gens[name], tag, gens[name])
	case "/kid1.tpl", "/kid2.tpl":
		return fmt.Sprintf("B%d%s[%sv%d]", gens["/base.tpl"], tag, name[1:5], gens[name])
	case "/grand.tpl":
		return fmt.Sprintf("B%d%s[g%d+kid1v%d]", gens["/base.tpl"], tag, gens[name], gens["/kid1.tpl"])
	case "/part.tpl":
		return fmt.Sprintf("P%d%s", gens[name], tag)
	case "/page.tpl":
		return fmt.Sprintf("G%d<P%d%s>", gens[name], gens["/part.tpl"], tag)
	case "/lib.tpl":
		return ""
	case "/user.tpl":
		return fmt.Sprintf("U%d:L%d", gens[name], gens["/lib.tpl"])
	}
	panic(name)
}

type c20cOp struct {
	Op   string `json:"op"` // from clean cleanall touch debug
	Set  int    `json:"set"`
	Name string `json:"name,omitempty"`
}

type c20cCase struct {
	Ops []c20cOp `json:"ops"`
}

type c20cEntry struct {
	tpl  *pongo2.Template
	gens map[string]int // generations it was compiled from
}

type c20cSet struct {
	set   *pongo2.TemplateSet
	ld    *memLoader
	tag   string
	cache map[string]*c20cEntry
	debug bool
}

func checkC20Composed(c any, r *Rec) error {
	cs := c.(*c20cCase)
	cur := map[string]int{}
	sets := make([]*c20cSet, 2)
	for i := range sets {
		s := &c20cSet{ld: newMemLoader(map[string]string{}), tag: fmt.Sprintf("S%d", i), cache: map[string]*c20cEntry{}}
		s.set = pongo2.NewSet("c20c-"+s.tag, s.ld)
		s.set.Globals["g"] = s.tag
		sets[i] = s
	}
	for _, n := range c20cNames {
		cur[n] = 1
		for _, s := range sets {
			s.ld.set(n, c20cContent(n, 1))
		}
	}
	var log []string
	fail := func(format string, a ...any) error {
		return fmt.Errorf("%s\n history:\n  %s", fmt.Sprintf(format, a...), strings.Join(log, "\n  "))
	}
	// every entry the model holds: still the same instance, no fetch, same rendering
	verifyAll := func() error {
		for si, s := range sets {
			if s.debug {
				continue
			}
			for _, n := range c20cNames {
				e, ok := s.cache[n]
				if !ok {
					continue
				}
				before := len(s.ld.getLog())
				tpl, err := s.set.FromCache(n)
				if err != nil || tpl != e.tpl {
					return fail("set%d.FromCache(%q): the cached entry is gone or replaced (err %v) although nothing cleaned it", si, n, err)
				}
				if after := s.ld.getLog(); len(after) != before {
					return fail("set%d.FromCache(%q) on a cached entry asked the loader for %v", si, n, after[before:])
				}
				out, xerr := tpl.Execute(nil)
				if want := c20cRender(n, s.tag, e.gens); xerr != nil || out != want {
					return fail("set%d: the cached template %q now renders %q (err %v); it was compiled from generations %v and rendered %q then", si, n, out, xerr, e.gens, want)
				}
			}
		}
		return nil
	}
	composedHit, crossed := false, false
	for _, op := range cs.Ops {
		s := sets[op.Set]
		switch op.Op {
		case "touch":
			cur[op.Name]++
			for _, x := range sets {
				x.ld.set(op.Name, c20cContent(op.Name, cur[op.Name]))
			}
			log = append(log, fmt.Sprintf("content of %s changes (generation %d)", op.Name, cur[op.Name]))
		case "debug":
			s.debug = !s.debug
			s.set.Debug = s.debug
			log = append(log, fmt.Sprintf("set%d.Debug = %v", op.Set, s.debug))
		case "clean":
			s.set.CleanCache(op.Name)
			delete(s.cache, op.Name)
			log = append(log, fmt.Sprintf("set%d.CleanCache(%q)", op.Set, op.Name))
		case "cleanall":
			s.set.CleanCache()
			s.cache = map[string]*c20cEntry{}
			log = append(log, fmt.Sprintf("set%d.CleanCache()", op.Set))
		case "from":
			n := op.Name
			before := s.ld.hitCount(n)
			tpl, err := s.set.FromCache(n)
			fetched := s.ld.hitCount(n) - before
			log = append(log, fmt.Sprintf("set%d.FromCache(%q) -> err=%v fetched=%d", op.Set, n, err != nil, fetched))
			if err != nil {
				return fail("set%d.FromCache(%q): %v", op.Set, n, err)
			}
			e, has := s.cache[n]
			if has && !s.debug {
				if tpl != e.tpl || fetched != 0 {
					return fail("set%d.FromCache(%q) on a cached entry: same instance %v, fetched %d times", op.Set, n, tpl == e.tpl, fetched)
				}
				if len(c20cDeps[n]) > 0 || n == "/base.tpl" {
					composedHit = true
				}
				break // rendering is checked by verifyAll
			}
			if fetched < 1 || (fetched != 1 && !s.debug) {
				return fail("set%d.FromCache(%q) on a cold entry (Debug %v) fetched the file %d times, want exactly 1 (with Debug on: at least 1)", op.Set, n, s.debug, fetched)
			}
			if has && tpl == e.tpl {
				return fail("set%d.FromCache(%q) with Debug on returned the cached instance", op.Set, n)
			}
			// which generations may the new template be made of? its own file: the current one.
			// the files it refers to: the current one - or, should an implementation take them
			// from this set's cache, the one a cached entry was compiled from (after
			// CleanCache() or with Debug on there is no such entry)
			out, xerr := tpl.Execute(nil)
			if xerr != nil {
				return fail("set%d: executing the fresh %q: %v", op.Set, n, xerr)
			}
			options := []map[string]int{{n: cur[n]}}
			for _, d := range c20cDeps[n] {
				var next []map[string]int
				for _, o := range options {
					alts := map[int]bool{cur[d]: true}
					if !s.debug {
						for _, holder := range append([]string{d}, c20cNames...) {
							if he, ok := s.cache[holder]; ok {
								if g, knows := he.gens[d]; knows {
									alts[g] = true
								}
							}
						}
					}
					for g := range alts {
						m := map[string]int{d: g}
						for k, v := range o {
							m[k] = v
						}
						next = append(next, m)
					}
				}
				options = next
			}
			var snapshot map[string]int
			for _, o := range options {
				if c20cRender(n, s.tag, o) == out {
					snapshot = o
					break
				}
			}
			if snapshot == nil {
				return fail("set%d: the freshly compiled %q renders %q; current generations %v give %q", op.Set, n, out, cur, c20cRender(n, s.tag, cur))
			}
			if !s.debug {
				s.cache[n] = &c20cEntry{tpl: tpl, gens: snapshot}
			}
			if op.Set == 1 && len(sets[0].cache) > 0 {
				crossed = true
			}
		}
		if err := verifyAll(); err != nil {
			return err
		}
	}
	if composedHit {
		r.Class("hit-on-composed-entry")
	}
	if crossed {
		r.Class("two-sets")
	}
	if composedHit {
		r.NonTrivial(strings.Join(log, "|"))
	}
	return nil
}

var _ = register(&propSpec{
	ID:   "C20.composed",
	Rule: "histories of 3-14 operations {FromCache(n), CleanCache(n), CleanCache(), change the content of a file, toggle Debug} over two sets (own loader and global each; a global of the DEFAULT set must stay invisible in both) and 8 names that are made of each other: a base, two children and a grandchild (extends), a page including a part, a template importing a macro library. Model: name -> (instance, generations of all files it was compiled from). After every operation every entry the model holds is asked for again: same instance, no loader access, and the instance still renders what it was compiled from - compiling, caching or cleaning a parent, a sibling, a child or the same name in the other set changes nothing. A cold FromCache fetches the named file exactly once and renders its current content (the files it refers to: current content, or what a cached entry of this set holds). Non-trivial: a cache hit on a template that is part of / made of others; distinct by history.",
	Gen: func(t *rapid.T) any {
		cs := &c20cCase{}
		n := drawInt(t, 3, 14, "nops")
		for i := 0; i < n; i++ {
			op := c20cOp{Op: pick(t, "op", []string{"from", "from", "from", "from", "clean", "cleanall", "touch", "touch", "debug"}), Set: pickW(t, "set", []int{0, 1}, []int{3, 1}), Name: pick(t, "name", c20cNames)}
			if op.Op == "debug" && drawInt(t, 0, 2, "rare") > 0 {
				op.Op = "from"
			}
			cs.Ops = append(cs.Ops, op)
		}
		return cs
	},
	New:   func() any { return &c20cCase{} },
	Check: checkC20Composed,
})

func TestC20Composed(t *testing.T) { runProp(t, "C20.composed") }
