package props

// C18: built-in data filters vs small independent reference functions.

import (
	"fmt"
	"math"
	"math/big"
	"strconv"
	"strings"
	"testing"
	"unicode"
	"unicode/utf8"

	"github.com/flosch/pongo2/v6"
	"pgregory.net/rapid"
)

type c18Case struct {
	Filter   string `json:"filter"`
	In       Val    `json:"in"`
	Param    Val    `json:"param"`
	HasParam bool   `json:"has_param"`
}

var c18Set = pongo2.NewSet("c18", &memLoader{})

// ---- reference helpers -----------------------------------------------------

func seqKind(v Val) bool {
	switch v.K {
	case "strs", "ints", "anys", "f64s", "arrI", "arrS", "parrI", "parrS":
		return true
	}
	return false
}

// refItems: the items of a sliceable descriptor, each as its printed form
func refItems(v Val) ([]string, bool) {
	if v.K == "str" {
		var out []string
		for _, r := range v.Str() {
			out = append(out, string(r))
		}
		return out, true
	}
	if !seqKind(v) {
		return nil, false
	}
	var out []string
	for _, e := range v.E {
		s, ok := refPrintScalar(e)
		if !ok {
			return nil, false
		}
		out = append(out, s)
	}
	return out, true
}

func pySlice(n int, fromS, toS string) (int, int, bool) {
	from, to := 0, n
	if fromS != "" {
		f, err := strconv.Atoi(fromS)
		if err != nil {
			return 0, 0, false
		}
		from = f
	}
	if toS != "" {
		t, err := strconv.Atoi(toS)
		if err != nil {
			return 0, 0, false
		}
		to = t
	}
	if from < 0 {
		from += n
		if from < 0 {
			from = 0
		}
	}
	if to < 0 {
		to += n
		if to < 0 {
			to = 0
		}
	}
	if from > n {
		from = n
	}
	if to > n {
		to = n
	}
	if to < from {
		to = from
	}
	return from, to, true
}

func refFields(s string) []string {
	var out []string
	cur := []rune{}
	for _, r := range s {
		if unicode.IsSpace(r) {
			if len(cur) > 0 {
				out = append(out, string(cur))
				cur = cur[:0]
			}
			continue
		}
		cur = append(cur, r)
	}
	if len(cur) > 0 {
		out = append(out, string(cur))
	}
	return out
}

func refSplit(s, sep string) []string {
	var out []string
	for {
		i := strings.Index(s, sep)
		if i < 0 {
			return append(out, s)
		}
		out = append(out, s[:i])
		s = s[i+len(sep):]
	}
}

func spacesOnly(s string) bool { return strings.Trim(s, " ") == "" }

// decimal rounding on a decimal string like "-12.3456" to d digits (no ties:
// caller guarantees the first dropped digit is not 5)
func refRoundDecimal(dec string, d int) string {
	neg := strings.HasPrefix(dec, "-")
	dec = strings.TrimPrefix(dec, "-")
	ip, fp := dec, ""
	if i := strings.IndexByte(dec, '.'); i >= 0 {
		ip, fp = dec[:i], dec[i+1:]
	}
	for len(fp) < d+1 {
		fp += "0"
	}
	digits := []byte(ip + fp[:d])
	up := fp[d] > '5'
	if up {
		i := len(digits) - 1
		for ; i >= 0; i-- {
			if digits[i] == '9' {
				digits[i] = '0'
				continue
			}
			digits[i]++
			break
		}
		if i < 0 {
			digits = append([]byte{'1'}, digits...)
			ip = "1" + ip // one more integer digit
		}
	}
	il := len(digits) - d
	res := string(digits[:il])
	if d > 0 {
		res += "." + string(digits[il:])
	}
	allZero := strings.Trim(res, "0.") == ""
	if neg && !allZero {
		res = "-" + res
	}
	return res
}

// ---- the check ---------------------------------------------------------------

func c18Apply(cs *c18Case) (*pongo2.Value, string, error) {
	in := Build(cs.In)
	var param *pongo2.Value
	var pv any
	if cs.HasParam {
		pv = Build(cs.Param)
		param = pongo2.AsValue(pv)
	}
	v, ferr := pongo2.ApplyFilter(cs.Filter, pongo2.AsValue(in), param)
	src := "{% autoescape off %}{{ v|" + cs.Filter
	if cs.HasParam {
		src += ":p"
	}
	src += " }}{% endautoescape %}"
	tpl, err := c18Set.FromString(src)
	if err != nil {
		return nil, "", fmt.Errorf("compile %q: %v", src, err)
	}
	tout, terr := tpl.Execute(pongo2.Context{"v": in, "p": pv})
	if (ferr == nil) != (terr == nil) {
		return nil, "", fmt.Errorf("ApplyFilter err=%v but template err=%v", ferr, terr)
	}
	if ferr == nil && v.String() != tout {
		return nil, "", fmt.Errorf("ApplyFilter result prints %q, template route prints %q", v.String(), tout)
	}
	// third route: input and parameter written into the template as literals
	if lit, ok := c18Literal(in); ok {
		lsrc := "{% autoescape off %}{{ " + lit + "|" + cs.Filter
		plit, pok := "", true
		if cs.HasParam {
			plit, pok = c18Literal(pv)
			lsrc += ":" + plit
		}
		lsrc += " }}{% endautoescape %}"
		if pok {
			ltpl, lerr := c18Set.FromString(lsrc)
			if lerr != nil {
				if ferr == nil {
					return nil, "", fmt.Errorf("compile %q: %v", lsrc, lerr)
				}
			} else {
				lout, lxerr := ltpl.Execute(pongo2.Context{})
				if (ferr == nil) != (lxerr == nil) {
					return nil, "", fmt.Errorf("ApplyFilter err=%v but %s err=%v", ferr, lsrc, lxerr)
				}
				if ferr == nil && lout != tout {
					return nil, "", fmt.Errorf("%s prints %q, the same values taken from the context print %q", lsrc, lout, tout)
				}
			}
		}
		if f, isF := in.(float64); isF {
			// a number written in the template is the number handed in from outside, to the last bit
			ftpl, ferr2 := c18Set.FromString(`{{ ` + lit + `|stringformat:"%.17g" }}`)
			if ferr2 != nil {
				return nil, "", fmt.Errorf("compile literal %s: %v", lit, ferr2)
			}
			fout, fx := ftpl.Execute(pongo2.Context{})
			if want := fmt.Sprintf("%.17g", f); fx != nil || fout != want {
				return nil, "", fmt.Errorf(`{{ %s|stringformat:"%%.17g" }} prints %q (err %v), the float64 nearest to the literal prints %q`, lit, fout, fx, want)
			}
		}
	}
	if ferr != nil {
		return nil, "", errFilter{ferr}
	}
	return v, tout, nil
}

// c18Literal writes a plain value as a template literal where there is one (non-negative int,
// non-negative decimal float, string without quotes / backslashes / delimiters / control characters)
func c18Literal(x any) (string, bool) {
	switch t := x.(type) {
	case int:
		if t >= 0 {
			return strconv.Itoa(t), true
		}
	case float64:
		if t >= 0 && t < 1e15 {
			lit := strconv.FormatFloat(t, 'f', -1, 64)
			if !strings.Contains(lit, ".") {
				lit += ".0"
			}
			if back, err := strconv.ParseFloat(lit, 64); err == nil && back == t && len(lit) <= 22 {
				return lit, true
			}
		}
	case string:
		if !utf8.ValidString(t) {
			return "", false
		}
		for _, r := range t {
			if r < ' ' || r == 0x7f || strings.ContainsRune("\"\\{}%#", r) {
				return "", false
			}
		}
		return `"` + t + `"`, true
	}
	return "", false
}

type errFilter struct{ err error }

func (e errFilter) Error() string { return "filter error: " + e.err.Error() }

// elements of a sequence-valued filter result, via the public Value API
func valueItems(v *pongo2.Value) []string {
	var out []string
	v.Iterate(func(idx, count int, key, value *pongo2.Value) bool {
		out = append(out, goPrint(key.Interface()))
		return true
	}, func() {})
	return out
}

// goPrint: canonical printed form of a plain Go value (harness side)
func goPrint(x any) string {
	switch t := x.(type) {
	case nil:
		return ""
	case string:
		return t
	case int:
		return strconv.Itoa(t)
	case float64:
		return fmt.Sprintf("%f", t)
	case bool:
		if t {
			return "True"
		}
		return "False"
	}
	return pongo2.AsValue(x).String()
}

func eqStrs(a, b []string) bool {
	if len(a) != len(b) {
		return false
	}
	for i := range a {
		if a[i] != b[i] {
			return false
		}
	}
	return true
}

func checkC18(c any, r *Rec) error {
	cs := c.(*c18Case)
	f := cs.Filter
	in, p := cs.In, cs.Param
	desc := fmt.Sprintf("%s(in=%s param=%s)", f, descVal(in), descVal(p))
	v, out, err := c18Apply(cs)
	var ferr error
	if fe, ok := err.(errFilter); ok {
		ferr = fe.err
	} else if err != nil {
		return fmt.Errorf("%s: %v", desc, err)
	}
	fail := func(format string, a ...any) error {
		return fmt.Errorf("%s: got %q; %s", desc, out, fmt.Sprintf(format, a...))
	}
	noErr := func() error {
		if ferr != nil {
			return fmt.Errorf("%s: unexpected error %v", desc, ferr)
		}
		return nil
	}
	boundary := false
	switch f {
	case "slice":
		ps := p.Str()
		parts := strings.Split(ps, ":")
		if len(parts) != 2 {
			// refused today; Django / Python also read "N" as [:N] and an empty argument as the
			// whole sequence, and "a:b:c" has a step - none of this is stated, so it is not asserted
			if ferr == nil {
				r.Class("slice:other-format-accepted")
			} else {
				r.Class("slice:bad-format-rejected")
			}
			return nil
		}
		if e := noErr(); e != nil {
			return e
		}
		items, ok := refItems(in)
		if !ok { // not sliceable: input comes back unchanged
			if want, ok2 := refPrintScalar(in); ok2 && out != want {
				return fail("non-sliceable input must be returned unchanged (%q)", want)
			}
			break
		}
		from, to, okb := pySlice(len(items), parts[0], parts[1])
		if !okb {
			return skipf("non-numeric bound")
		}
		want := items[from:to]
		var got []string
		if in.K == "str" {
			got, _ = refItems(vStr(v.String()))
		} else {
			got = valueItems(v)
		}
		if !eqStrs(got, want) {
			return fail("Python slicing [%s] of %v gives %v, got %v", ps, items, want, got)
		}
		n := len(items)
		for _, b := range parts {
			if b != "" {
				x, _ := strconv.Atoi(b)
				if x < 0 || x == 0 || x >= n {
					boundary = true
				}
			} else {
				boundary = true
			}
		}
	case "first", "last":
		if e := noErr(); e != nil {
			return e
		}
		items, ok := refItems(in)
		want := ""
		if ok && len(items) > 0 {
			want = items[0]
			if f == "last" {
				want = items[len(items)-1]
			}
		}
		if out != want {
			return fail("want %q", want)
		}
		boundary = !ok || len(items) <= 1
	case "length", "length_is":
		if e := noErr(); e != nil {
			return e
		}
		n := 0
		if items, ok := refItems(in); ok {
			n = len(items)
		} else if strings.HasPrefix(in.K, "map") {
			n = len(in.Ks)
		}
		if f == "length" {
			if out != strconv.Itoa(n) {
				return fail("want %d", n)
			}
		} else {
			want := "False"
			if int64(n) == p.Int() {
				want = "True"
			}
			if out != want {
				return fail("length is %d, want %s", n, want)
			}
		}
		boundary = n == 0 || in.K == "str" && len(in.Str()) != n
	case "join":
		if e := noErr(); e != nil {
			return e
		}
		items, ok := refItems(in)
		if !ok {
			if want, ok2 := refPrintScalar(in); ok2 && out != want {
				return fail("non-sequence input must be returned unchanged")
			}
			break
		}
		if in.K == "str" && !utf8.ValidString(in.Str()) {
			return skipf("invalid UTF-8")
		}
		if want := strings.Join(items, p.Str()); out != want {
			return fail("want %q", want)
		}
		boundary = p.Str() == "" || len(items) <= 1
	case "split":
		if e := noErr(); e != nil {
			return e
		}
		got := valueItems(v)
		sep := p.Str()
		if sep == "" {
			if strings.Join(got, "") != in.Str() {
				return fail("pieces %v do not concatenate to the input", got)
			}
		} else {
			if want := refSplit(in.Str(), sep); !eqStrs(got, want) {
				return fail("want pieces %q, got %q", want, got)
			}
			if strings.Join(got, sep) != in.Str() {
				return fail("split/join round trip lost text")
			}
		}
		boundary = sep == "" || !strings.Contains(in.Str(), sep)
	case "make_list":
		if e := noErr(); e != nil {
			return e
		}
		s, ok := refPrintScalar(in)
		if !ok || !utf8.ValidString(s) {
			return skipf("not a scalar / invalid UTF-8")
		}
		want, _ := refItems(vStr(s))
		if got := valueItems(v); !eqStrs(got, want) {
			return fail("want %q got %q", want, got)
		}
		boundary = len(s) != len(want) || len(want) == 0
	case "cut":
		if e := noErr(); e != nil {
			return e
		}
		want := in.Str()
		if p.Str() != "" {
			want = strings.Join(refSplit(in.Str(), p.Str()), "")
		}
		if out != want {
			return fail("want %q", want)
		}
		boundary = p.Str() == "" || len(p.Str()) > 1
	case "truncatechars":
		if e := noErr(); e != nil {
			return e
		}
		s := in.Str()
		if !utf8.ValidString(s) {
			return skipf("invalid UTF-8")
		}
		rs := []rune(s)
		n := int(p.Int())
		switch {
		case n <= 0:
			// neither Django 1.7 nor a fixture fixes this: kept text must still be a prefix
			if !strings.HasPrefix(s, strings.TrimSuffix(out, "...")) {
				return fail("kept text is not a prefix of the input")
			}
		case len(rs) <= n:
			if out != s {
				return fail("text fits into %d characters and must be unchanged", n)
			}
		case n >= 3:
			if want := string(rs[:n-3]) + "..."; out != want {
				return fail("want %q (prefix + ellipsis, %d characters in total)", want, n)
			}
		default: // fixture: no room for the ellipsis
			if want := string(rs[:n]); out != want {
				return fail("want %q", want)
			}
		}
		boundary = n <= 3 || n >= len(rs)-1 || len(s) != len(rs)
	case "truncatewords":
		if e := noErr(); e != nil {
			return e
		}
		words := refFields(in.Str())
		n := int(p.Int())
		if n <= 0 {
			if out != "" && out != "..." {
				return fail("with a count <= 0 nothing of the text may be kept")
			}
			boundary = true
			break
		}
		k := n
		if k > len(words) {
			k = len(words)
		}
		want := strings.Join(words[:k], " ")
		if n < len(words) {
			want += " ..."
		}
		if out != want {
			return fail("want %q", want)
		}
		boundary = n >= len(words)-1
	case "center", "ljust", "rjust":
		// like Django's @stringfilter: the text of any input is what gets padded
		s, isScalar := refPrintScalar(in)
		if !isScalar {
			return skipf("non-scalar input")
		}
		if in.K != "str" {
			r.Class(f + ":non-string-input")
		}
		if !utf8.ValidString(s) {
			return skipf("invalid UTF-8")
		}
		n := utf8.RuneCountInString(s)
		w := int(p.Int())
		if ferr != nil {
			if w-n > 10000 || w > 10000 {
				r.Class(f + ":padding-cap-error")
				return nil
			}
			return fmt.Errorf("%s: unexpected error %v", desc, ferr)
		}
		total := n
		if w > n {
			total = w
		}
		if utf8.RuneCountInString(out) != total {
			return fail("output must have max(width,len)=%d characters, has %d", total, utf8.RuneCountInString(out))
		}
		i := strings.Index(out, s)
		if s == "" {
			i = 0
		}
		if i < 0 {
			return fail("the text itself was altered")
		}
		left, right := out[:i], out[i+len(s):]
		if s == "" {
			left, right = out, ""
			if f == "ljust" {
				left, right = "", out
			}
			if f == "center" {
				left, right = out[:(len(out)+1)/2], out[(len(out)+1)/2:]
			}
		} else if f == "rjust" || f == "center" {
			// the text may itself start with spaces: take the split that puts the text rightmost for rjust
			if f == "rjust" {
				j := strings.LastIndex(out, s)
				left, right = out[:j], out[j+len(s):]
			}
		}
		if !spacesOnly(left) || !spacesOnly(right) {
			return fail("padding must consist of spaces only")
		}
		switch f {
		case "ljust":
			if strings.TrimRight(s, " ") == s && left != "" {
				return fail("ljust must not pad on the left")
			}
			if !strings.HasPrefix(out, s) {
				return fail("ljust output must start with the text")
			}
		case "rjust":
			if !strings.HasSuffix(out, s) {
				return fail("rjust output must end with the text")
			}
		case "center":
			if !strings.Contains(s, " ") {
				d := len(left) - len(right)
				if d < 0 || d > 1 {
					return fail("center: left padding %d, right padding %d (odd space goes left)", len(left), len(right))
				}
			}
		}
		boundary = w <= n || w < 0
	case "wordcount":
		if e := noErr(); e != nil {
			return e
		}
		if want := strconv.Itoa(len(refFields(in.Str()))); out != want {
			return fail("want %s", want)
		}
		boundary = strings.TrimSpace(in.Str()) == ""
	case "wordwrap":
		if e := noErr(); e != nil {
			return e
		}
		n := int(p.Int())
		if n <= 0 {
			if out != in.Str() {
				return fail("a width <= 0 leaves the text unchanged")
			}
			boundary = true
			break
		}
		words := refFields(in.Str())
		var lines []string
		for i := 0; i < len(words); i += n {
			j := i + n
			if j > len(words) {
				j = len(words)
			}
			lines = append(lines, strings.Join(words[i:j], " "))
		}
		if want := strings.Join(lines, "\n"); out != want {
			return fail("want %q (lines of %d words)", want, n)
		}
		boundary = len(words)%n == 0 || n >= len(words)
	case "linenumbers":
		if e := noErr(); e != nil {
			return e
		}
		var lines []string
		for i, l := range refSplit(in.Str(), "\n") {
			lines = append(lines, fmt.Sprintf("%d. %s", i+1, l))
		}
		if want := strings.Join(lines, "\n"); out != want {
			return fail("want %q", want)
		}
		boundary = strings.HasSuffix(in.Str(), "\n") || in.Str() == ""
	case "linebreaksbr":
		if e := noErr(); e != nil {
			return e
		}
		if want := strings.Join(refSplit(in.Str(), "\n"), "<br />"); out != want {
			return fail("want %q", want)
		}
		boundary = strings.Contains(in.Str(), "\n")
	case "capfirst", "upper", "lower":
		if e := noErr(); e != nil {
			return e
		}
		s := in.Str()
		if !utf8.ValidString(s) {
			return skipf("invalid UTF-8")
		}
		rs := []rune(s)
		var want []rune
		for i, x := range rs {
			switch {
			case f == "upper", f == "capfirst" && i == 0:
				want = append(want, unicode.ToUpper(x))
			case f == "lower":
				want = append(want, unicode.ToLower(x))
			default:
				want = append(want, x)
			}
		}
		if out != string(want) {
			return fail("want %q", string(want))
		}
		boundary = len(rs) != len(s) || len(rs) <= 1
	case "add":
		if e := noErr(); e != nil {
			return e
		}
		var want string
		switch {
		case in.IsIntKind() && p.IsIntKind():
			sum := in.Int() + p.Int()
			if (in.Int() > 0 && p.Int() > 0 && sum < 0) || (in.Int() < 0 && p.Int() < 0 && sum >= 0) {
				return skipf("sum outside int64 (Python would not wrap, Go does)")
			}
			want = strconv.FormatInt(sum, 10)
		case (in.IsIntKind() || in.IsFloatKind()) && (p.IsIntKind() || p.IsFloatKind()):
			a, b := in.Float(), p.Float()
			if in.IsIntKind() {
				a = float64(in.Int())
			}
			if p.IsIntKind() {
				b = float64(p.Int())
			}
			want = fmt.Sprintf("%f", a+b)
		default:
			a, _ := refPrintScalar(in)
			b, _ := refPrintScalar(p)
			want = a + b
		}
		if out != want {
			return fail("want %q", want)
		}
		boundary = in.K != p.K
	case "divisibleby":
		if e := noErr(); e != nil {
			return e
		}
		ni, di := in.Int(), p.Int()
		if in.IsFloatKind() {
			ni = int64(in.Float())
		}
		if p.IsFloatKind() {
			di = int64(p.Float())
		}
		if di == 0 {
			return skipf("divisor 0 is outside the reference's domain")
		}
		want := "False"
		if ni%di == 0 {
			want = "True"
		}
		if out != want {
			return fail("want %s", want)
		}
		boundary = in.Int() <= 0 || p.Int() < 0
	case "get_digit":
		if e := noErr(); e != nil {
			return e
		}
		// a whole number (given as an integer of any size or as its decimal text): the digit at
		// the position counted from the right; everything else - positions outside the number
		// (fixture; the sign is not a digit), input that is no whole number - is handed back as it is
		text, ok := refPrintScalar(in)
		if !ok {
			return skipf("not a scalar")
		}
		digits := strings.TrimPrefix(text, "-")
		whole := digits != "" && (in.IsIntKind() || in.K == "str")
		for _, ch := range digits {
			if ch < '0' || ch > '9' {
				whole = false
			}
		}
		if whole && in.K == "str" && len(digits) > 1 && digits[0] == '0' {
			return skipf("numeric text with leading zeros: counted as written or as a number - not fixed")
		}
		if in.IsFloatKind() {
			return skipf("a float is no whole number; truncating it first (Django) or handing it back are both admitted")
		}
		i := int(p.Int())
		want := text
		if whole && i >= 1 && i <= len(digits) {
			want = string(digits[len(digits)-i])
		}
		if out != want {
			return fail("want %q", want)
		}
		boundary = i <= 1 || i >= len(digits) || !whole || text != digits
	case "floatformat":
		if e := noErr(); e != nil {
			return e
		}
		dec := in.F // decimal literal like "12.3400"
		d := -1
		if cs.HasParam {
			d = int(p.Int())
		}
		trim := d <= 0
		if d < 0 {
			d = -d
		}
		fpart := ""
		if i := strings.IndexByte(dec, '.'); i >= 0 {
			fpart = dec[i+1:]
		}
		whole := strings.Trim(fpart, "0") == ""
		if len(fpart) > d && fpart[d] == '5' {
			return skipf("tie")
		}
		var want string
		if trim && whole {
			want = refRoundDecimal(dec, 0)
		} else {
			want = refRoundDecimal(dec, d)
		}
		if strings.HasPrefix(dec, "-") && strings.Trim(want, "0.") == "" {
			return skipf("negative value rounding to zero: the sign of zero is not fixed by the reference")
		}
		if out != want {
			// huge whole values: pongo2 keeps ".0"-style zero decimals where Django trims them;
			// no fixture pins it, so only the digits are required to be the value's own
			if huge := len(strings.TrimPrefix(dec, "-")) > 15; !(huge && strings.HasPrefix(out, want) && strings.Trim(out[len(want):], "0") == ".") {
				return fail("want %q", want)
			}
		}
		boundary = !cs.HasParam || int(p.Int()) <= 0 || whole
	case "pluralize":
		n := in.Int()
		one := n == 1
		if in.IsFloatKind() {
			one = in.Float() == 1 // "a plural suffix if the value is not 1": 1.5 is not 1
		}
		arg := ""
		if cs.HasParam {
			arg = p.Str()
		}
		parts := strings.Split(arg, ",")
		if arg != "" && len(parts) > 2 {
			if ferr == nil {
				return fail("more than two endings must be an error")
			}
			return nil
		}
		if e := noErr(); e != nil {
			return e
		}
		sing, plur := "", "s"
		if arg != "" {
			if len(parts) == 1 {
				plur = parts[0]
			} else {
				sing, plur = parts[0], parts[1]
			}
		}
		want := plur
		if one {
			want = sing
		}
		if out != want {
			return fail("want %q", want)
		}
		boundary = n == 0 || n == 1 || n < 0 || in.IsFloatKind()
	case "yesno":
		arg := ""
		if cs.HasParam {
			arg = p.Str()
		}
		choices := []string{"yes", "no", "maybe"}
		if arg != "" {
			parts := strings.Split(arg, ",")
			if len(parts) < 2 || len(parts) > 3 {
				if ferr == nil {
					return fail("%d choices must be an error", len(parts))
				}
				return nil
			}
			copy(choices, parts)
		}
		if e := noErr(); e != nil {
			return e
		}
		want := choices[1]
		if in.K == "nil" {
			want = choices[2]
		} else if refTruthy(in) {
			want = choices[0]
		}
		if out != want {
			return fail("want %q", want)
		}
		boundary = in.K == "nil" || arg != ""
	case "default", "default_if_none":
		if e := noErr(); e != nil {
			return e
		}
		use := in
		if f == "default" && !refTruthy(in) || f == "default_if_none" && in.K == "nil" {
			use = p
		}
		want, ok := refPrintScalar(use)
		if !ok {
			return skipf("non-scalar")
		}
		if out != want {
			return fail("want %q", want)
		}
		boundary = !refTruthy(in)
	case "integer", "float":
		if e := noErr(); e != nil {
			return e
		}
		var fv float64
		switch {
		case in.IsIntKind():
			fv = float64(in.Int())
		case in.IsFloatKind():
			fv = in.Float()
		case in.K == "str":
			x, perr := strconv.ParseFloat(in.Str(), 64)
			if perr == nil {
				fv = x
			}
		}
		if math.IsNaN(fv) || math.IsInf(fv, 0) || math.Abs(fv) > 1e15 {
			return skipf("out of the exact domain")
		}
		want := fmt.Sprintf("%f", fv)
		if f == "integer" {
			want = strconv.FormatInt(int64(fv), 10)
		}
		if out != want {
			return fail("want %q", want)
		}
		boundary = in.K == "str"
	case "stringformat":
		if e := noErr(); e != nil {
			return e
		}
		if want := fmt.Sprintf(p.Str(), Build(in)); out != want {
			return fail("want %q", want)
		}
	case "date", "time":
		if in.K != "time" {
			if ferr == nil {
				return fail("a non-time input must be an error")
			}
			r.Class(f + ":non-time-rejected")
			return nil
		}
		if e := noErr(); e != nil {
			return e
		}
		if want := zTime.Add(timeSeconds(in.I)).Format(p.Str()); out != want {
			return fail("want %q", want)
		}
	default:
		return fmt.Errorf("no reference for filter %s", f)
	}
	r.Class("filter:" + f)
	multi := in.K == "str" && len(in.Str()) != utf8.RuneCountInString(in.Str())
	if boundary || multi {
		pj, _ := jsonString(cs)
		r.NonTrivial(pj)
	}
	return nil
}

// ---- generators ------------------------------------------------------------

var c18Words = []string{"a", "bc", "déf", "über", "x", "世界", "Ω", "жук", "Hello", "wörld", "i", "ǅ", "ß", "😀", "K"}

func genC18Text(t *rapid.T, label string, maxRunes int) string {
	n := drawInt(t, 0, maxRunes, label+".n")
	var sb strings.Builder
	alpha := []rune("ab cdé ü世Ω ж\nZ .-<&\tK😀")
	for i := 0; i < n; i++ {
		sb.WriteRune(pick(t, label+".r", alpha))
	}
	return sb.String()
}

func genC18Seq(t *rapid.T, label string) Val {
	n := drawInt(t, 0, 6, label+".len")
	kind := pick(t, label+".kind", []string{"str", "strs", "ints", "arrI", "arrS", "parrS", "parrI", "anys", "f64s"})
	if kind == "str" {
		return vStr(genC18Text(t, label+".s", 6))
	}
	v := Val{K: kind}
	for i := 0; i < n; i++ {
		switch kind {
		case "strs", "arrS", "parrS":
			v.E = append(v.E, vStr(pick(t, label+".w", c18Words)))
		case "ints", "arrI", "parrI":
			v.E = append(v.E, vInt(drawInt(t, -9, 99, label+".i")))
		case "f64s":
			v.E = append(v.E, vF64(float64(drawInt(t, -8, 8, label+".f"))/4))
		default:
			if drawBool(t, label+".anystr") {
				v.E = append(v.E, vStr(pick(t, label+".w", c18Words)))
			} else {
				v.E = append(v.E, vInt(drawInt(t, -9, 99, label+".i")))
			}
		}
	}
	return v
}

func sliceBound(t *rapid.T, label string) string {
	if drawInt(t, 0, 4, label+".blank") == 0 {
		return ""
	}
	return strconv.Itoa(drawInt(t, -9, 9, label))
}

func genC18Scalar(t *rapid.T, label string) Val {
	switch drawInt(t, 0, 7, label+".k") {
	case 0:
		return vNil()
	case 1:
		return vStr(genC18Text(t, label+".s", 5))
	case 2:
		return vInt(drawInt(t, -3, 12, label+".i"))
	case 3:
		return vBool(drawBool(t, label+".b"))
	case 4:
		return vF64(float64(drawInt(t, -8, 8, label+".f")) / 4)
	case 5:
		return vStr("")
	case 6:
		return vInt(0)
	default:
		return vUintK("uint8", uint64(drawInt(t, 0, 255, label+".u")))
	}
}

var c18Filters = []string{"slice", "first", "last", "length", "length_is", "join", "split", "make_list", "cut", "truncatechars",
	"truncatewords", "center", "ljust", "rjust", "wordcount", "wordwrap", "linenumbers", "linebreaksbr", "capfirst", "upper", "lower",
	"add", "divisibleby", "get_digit", "floatformat", "pluralize", "yesno", "default", "default_if_none", "integer", "float",
	"stringformat", "date", "time"}

func genC18(t *rapid.T) *c18Case {
	f := pick(t, "filter", c18Filters)
	cs := &c18Case{Filter: f, HasParam: true}
	switch f {
	case "slice":
		cs.In = genC18Seq(t, "in")
		if drawInt(t, 0, 9, "nonseq") == 0 {
			cs.In = vInt(drawInt(t, 0, 99, "n"))
		}
		if drawInt(t, 0, 19, "badfmt") == 0 {
			cs.Param = vStr(pick(t, "bad", []string{"", "1", "1:2:3", "x"}))
		} else {
			cs.Param = vStr(sliceBound(t, "from") + ":" + sliceBound(t, "to"))
		}
	case "first", "last", "length":
		cs.In = genC18Seq(t, "in")
		cs.HasParam = false
		if f == "length" && drawInt(t, 0, 5, "map") == 0 {
			cs.In = Val{K: "mapSI", Ks: []Val{vStr("a"), vStr("b")}, E: []Val{vInt(1), vInt(2)}}
		}
		if drawInt(t, 0, 9, "nonseq") == 0 {
			cs.In = genC18Scalar(t, "sc")
			if cs.In.K == "str" {
				cs.In = vInt(7)
			}
		}
	case "length_is":
		cs.In = genC18Seq(t, "in")
		cs.Param = vInt(drawInt(t, -1, 7, "n"))
	case "join":
		cs.In = genC18Seq(t, "in")
		cs.Param = vStr(pick(t, "sep", []string{"", ",", ", ", "—", "ab", " "}))
	case "split":
		cs.In = vStr(genC18Text(t, "in", 10))
		cs.Param = vStr(pick(t, "sep", []string{"", " ", "a", "b ", "é", "\n", "ab"}))
	case "make_list":
		cs.HasParam = false
		if drawBool(t, "int") {
			cs.In = vInt(drawInt(t, -5, 99999, "i"))
		} else {
			cs.In = vStr(genC18Text(t, "in", 8))
		}
	case "cut":
		cs.In = vStr(genC18Text(t, "in", 10))
		cs.Param = vStr(pick(t, "what", []string{"", " ", "a", "ab", "é", "世", "\n", "aa", "b c"}))
	case "truncatechars":
		cs.In = vStr(genC18Text(t, "in", 12))
		cs.Param = vInt(drawInt(t, -2, 15, "n"))
	case "truncatewords", "wordwrap":
		n := drawInt(t, 0, 8, "nw")
		var ws []string
		for i := 0; i < n; i++ {
			ws = append(ws, pick(t, "w", c18Words))
		}
		sep := pick(t, "sep", []string{" ", "  ", "\n", "\t "})
		s := strings.Join(ws, sep)
		if drawBool(t, "lead") {
			s = " " + s + " "
		}
		cs.In = vStr(s)
		cs.Param = vInt(drawInt(t, -2, 9, "n"))
	case "center", "ljust", "rjust":
		cs.In = vStr(strings.ReplaceAll(genC18Text(t, "in", 12), "\n", "x"))
		switch drawInt(t, 0, 9, "nonstring") {
		case 0:
			cs.In = vInt(pick(t, "ji", []int{0, 7, 42, -5, 123456}))
		case 1:
			cs.In = vF64(pick(t, "jf", []float64{0.5, -2.25, 10}))
		case 2:
			cs.In = vBool(drawBool(t, "jb"))
		}
		cs.Param = vInt(drawInt(t, -3, 20, "w"))
		if drawInt(t, 0, 39, "huge") == 0 {
			cs.Param = vInt(pick(t, "hw", []int{9999, 10000, 10001, 10002, 10012, 20000}))
		}
	case "wordcount", "linenumbers", "linebreaksbr":
		cs.HasParam = false
		cs.In = vStr(genC18Text(t, "in", 14))
	case "capfirst", "upper", "lower":
		cs.HasParam = false
		n := drawInt(t, 0, 8, "n")
		var sb strings.Builder
		for i := 0; i < n; i++ {
			sb.WriteRune(pick(t, "r", []rune("abzAZ éÉüÜñàöÖ αβγΩΣ жЖяЯ 09-_ 世")))
		}
		cs.In = vStr(sb.String())
	case "add":
		gen := func(l string) Val {
			switch drawInt(t, 0, 3, l+".k") {
			case 0, 1:
				if drawInt(t, 0, 5, l+".huge") == 0 {
					// integers that float64 cannot hold exactly (beyond 2^53) and the int64 extremes
					return Val{K: "int64", I: pick(t, l+".h", []int64{9007199254740993, -9007199254740993, 1 << 62, -(1 << 62), 9223372036854775807, -9223372036854775808, 4611686018427387905, 3, -2})}
				}
				return vInt(drawInt(t, -50, 50, l))
			case 2:
				return vF64(float64(drawInt(t, -40, 40, l)) / 8)
			default:
				return vStr(pick(t, l, []string{"", "x", "12", "é"}))
			}
		}
		cs.In, cs.Param = gen("a"), gen("b")
	case "divisibleby":
		cs.In = vInt(drawInt(t, -30, 60, "n"))
		cs.Param = vInt(drawInt(t, -7, 9, "d"))
		// floats count with their integer part (Django: int(value) % int(arg))
		if drawInt(t, 0, 3, "fin") == 0 {
			cs.In = vF64(float64(drawInt(t, -30, 60, "nf")) + pick(t, "frac", []float64{0.5, 0.25, 0.0}))
		}
		if drawInt(t, 0, 3, "fparam") == 0 {
			cs.Param = vF64(float64(drawInt(t, 1, 9, "df")) + pick(t, "dfrac", []float64{0.5, 0.0, 0.75}))
		}
	case "get_digit":
		cs.In = vInt(pick(t, "n", []int{0, 7, 10, 123, 9876543210, 55, 1000000, 42, -1, -1193, -50, -9876543210}))
		if drawInt(t, 0, 3, "text") == 0 {
			// numbers too big for an int (as their decimal text), and text that is no number
			cs.In = vStr(pick(t, "ntext", []string{"98765432109876543210987", "-12345678901234567890", "7", "120", "abc", "12a", "", "-", "1 2", "٣٤", "x9"}))
		}
		cs.Param = vInt(drawInt(t, -2, 25, "pos"))
	case "floatformat":
		ip := drawInt(t, 0, 1234, "ip")
		nd := drawInt(t, 0, 5, "nd")
		dec := strconv.Itoa(ip)
		if nd > 0 {
			dec += "."
			for i := 0; i < nd; i++ {
				// binary-exact tails are not required: the tie rule excludes the ambiguous digit
				dec += strconv.Itoa(pick(t, "d", []int{0, 1, 2, 3, 4, 5, 6, 7, 8, 9, 0, 9, 5}))
			}
		}
		if drawInt(t, 0, 9, "huge") == 0 {
			// exactly representable huge whole numbers: 2^k
			dec = new(big.Int).Lsh(big.NewInt(1), uint(drawInt(t, 50, 100, "pow"))).String()
		}
		if drawBool(t, "neg") && strings.Trim(dec, "0.") != "" {
			dec = "-" + dec
		}
		cs.In = Val{K: "f64", F: dec}
		if drawInt(t, 0, 3, "noparam") == 0 {
			cs.HasParam = false
		} else {
			cs.Param = vInt(drawInt(t, -4, 4, "prec"))
		}
	case "pluralize":
		cs.In = vInt(drawInt(t, -2, 5, "n"))
		if drawInt(t, 0, 3, "fl") == 0 {
			cs.In = vF64(pick(t, "pf", []float64{1, 1.5, 0.5, 2, 0, -1, 1.0000001, 0.999}))
		}
		if drawBool(t, "noparam") {
			cs.HasParam = false
		} else {
			cs.Param = vStr(pick(t, "arg", []string{"es", "y,ies", "", "a,b,c", ",s", "x,"}))
		}
	case "yesno":
		cs.In = genC18Scalar(t, "in")
		if drawBool(t, "noparam") {
			cs.HasParam = false
		} else {
			cs.Param = vStr(pick(t, "arg", []string{"ja,nein", "ja,nein,vielleicht", "x", "a,b,c,d", "", ",,"}))
		}
	case "default", "default_if_none":
		cs.In = genC18Scalar(t, "in")
		cs.Param = genC18Scalar(t, "p")
	case "integer", "float":
		cs.HasParam = false
		switch drawInt(t, 0, 3, "k") {
		case 0:
			cs.In = vInt(drawInt(t, -1000, 1000, "i"))
		case 1:
			cs.In = vF64(float64(drawInt(t, -4000, 4000, "f")) / 8)
		case 2:
			cs.In = vStr(pick(t, "s", []string{"12", "-3.75", "abc", "", "1e3", " 5", "0x10", "7.5"}))
		default:
			cs.In = vUintK("uint16", uint64(drawInt(t, 0, 65535, "u")))
		}
	case "stringformat":
		switch drawInt(t, 0, 2, "k") {
		case 0:
			cs.In, cs.Param = vInt(drawInt(t, -99, 999, "i")), vStr(pick(t, "fmt", []string{"%d", "%05d", "%x", "<%3d>"}))
		case 1:
			cs.In, cs.Param = vF64(float64(drawInt(t, -99, 99, "f"))/4), vStr(pick(t, "fmt", []string{"%.2f", "%6.1f", "%e"}))
		default:
			cs.In, cs.Param = vStr(pick(t, "s", c18Words)), vStr(pick(t, "fmt", []string{"%s", "%5s", "%q", "[%-4s]"}))
		}
	case "date", "time":
		if drawInt(t, 0, 5, "nontime") == 0 {
			cs.In = genC18Scalar(t, "in")
		} else {
			cs.In = Val{K: "time", I: int64(drawInt(t, 0, 90000000, "sec"))}
		}
		cs.Param = vStr(pick(t, "layout", []string{"2006-01-02", "15:04:05", "Mon Jan _2", "Jan 2006", "02.01.06 15h"}))
	}
	return cs
}

var _ = register(&propSpec{
	ID:    "C18.filter",
	Rule:  "one data filter applied (ApplyFilter and {{ v|f:p }} must agree) to generated strings (multi-byte), sequences of every sliceable kind incl. by-value arrays, numbers; parameters passed as context values (so negatives are reachable); compared with small independent reference functions / shape predicates. Non-trivial: parameter on or beyond a boundary (negative, 0, =len, >len, blank, empty separator...) or multi-byte input; distinct by whole case.",
	Gen:   func(t *rapid.T) any { return genC18(t) },
	New:   func() any { return &c18Case{} },
	Check: checkC18,
})

func TestC18Filter(t *testing.T) { runProp(t, "C18.filter") }

// exhaustive integer windows
func TestC18Enum(t *testing.T) {
	wide := tierThorough()
	lo, hi, maxLen := -8, 8, 6
	if wide {
		lo, hi, maxLen = -12, 12, 9
	}
	words := []string{"a", "é", "世", "bc", "Ω", "d", "e", "f", "g"}
	enumerate(t, "C18.filter", "enum", func(yield func(any) bool) {
		// slice windows over every sliceable kind
		for n := 0; n <= maxLen; n++ {
			seqs := []Val{vStr(strings.Join(words[:n], ""))}
			for _, k := range []string{"strs", "arrS", "parrS"} {
				v := Val{K: k}
				for i := 0; i < n; i++ {
					v.E = append(v.E, vStr(words[i]))
				}
				seqs = append(seqs, v)
			}
			for _, k := range []string{"ints", "arrI", "parrI"} {
				v := Val{K: k}
				for i := 0; i < n; i++ {
					v.E = append(v.E, vInt(i*3-2))
				}
				seqs = append(seqs, v)
			}
			bounds := []string{""}
			for b := lo; b <= hi; b++ {
				bounds = append(bounds, strconv.Itoa(b))
			}
			for _, s := range seqs {
				for _, a := range bounds {
					for _, b := range bounds {
						if !yield(&c18Case{Filter: "slice", In: s, Param: vStr(a + ":" + b), HasParam: true}) {
							return
						}
					}
				}
				for _, f := range []string{"first", "last", "length"} {
					if !yield(&c18Case{Filter: f, In: s}) {
						return
					}
				}
				for _, sep := range []string{"", ",", "ab"} {
					if !yield(&c18Case{Filter: "join", In: s, Param: vStr(sep), HasParam: true}) {
						return
					}
				}
				for k := -1; k <= maxLen+1; k++ {
					if !yield(&c18Case{Filter: "length_is", In: s, Param: vInt(k), HasParam: true}) {
						return
					}
				}
			}
		}
		// widths and truncation lengths over strings of 0..12 runes
		long := []rune("aé世bΩcdefghij")
		for n := 0; n <= 12; n++ {
			s := string(long[:n])
			for w := -3; w <= 20; w++ {
				for _, f := range []string{"center", "ljust", "rjust", "truncatechars"} {
					if !yield(&c18Case{Filter: f, In: vStr(s), Param: vInt(w), HasParam: true}) {
						return
					}
				}
			}
		}
		// word-based filters
		for n := 0; n <= 9; n++ {
			s := strings.Join(words[:n], " ")
			for w := -2; w <= 11; w++ {
				for _, f := range []string{"truncatewords", "wordwrap"} {
					if !yield(&c18Case{Filter: f, In: vStr(s), Param: vInt(w), HasParam: true}) {
						return
					}
				}
			}
		}
		// digit positions
		for _, n := range []int{0, 5, 10, 123, 9876543210, 1000000, -1, -7, -10, -1193, -9876543210} {
			for pos := -2; pos <= 12; pos++ {
				if !yield(&c18Case{Filter: "get_digit", In: vInt(n), Param: vInt(pos), HasParam: true}) {
					return
				}
			}
		}
		// divisibleby window
		for a := -12; a <= 24; a++ {
			for d := -6; d <= 6; d++ {
				if !yield(&c18Case{Filter: "divisibleby", In: vInt(a), Param: vInt(d), HasParam: true}) {
					return
				}
			}
		}
	})
}

// ---- widthratio tag ---------------------------------------------------------

type c18WR struct {
	V, Max, W int
	As        bool
}

func checkC18WR(c any, r *Rec) error {
	cs := c.(*c18WR)
	if cs.Max == 0 {
		// nothing can be a part of nothing: Django answers 0
		src := "{% widthratio v m w %}"
		tpl, err := c18Set.FromString(src)
		if err != nil {
			return err
		}
		out, err := tpl.Execute(pongo2.Context{"v": cs.V, "m": 0, "w": cs.W})
		if err != nil || out != "0" {
			return fmt.Errorf("widthratio %d 0 %d rendered %q (err %v), the reference gives 0 for a maximum of 0", cs.V, cs.W, out, err)
		}
		r.NonTrivial(fmt.Sprint(*cs))
		return nil
	}
	num := int64(cs.V) * int64(cs.W)
	den := int64(cs.Max)
	if (2*num)%den == 0 && (2*num/den)%2 != 0 {
		return skipf("tie")
	}
	want := int64(math.Floor(float64(num)/float64(den) + 0.5))
	src := "{% widthratio v m w %}"
	if cs.As {
		src = "{% widthratio v m w as q %}[{{ q }}]"
	}
	tpl, err := c18Set.FromString(src)
	if err != nil {
		return err
	}
	out, err := tpl.Execute(pongo2.Context{"v": cs.V, "m": cs.Max, "w": cs.W})
	if err != nil {
		return fmt.Errorf("widthratio %d %d %d: %v", cs.V, cs.Max, cs.W, err)
	}
	exp := strconv.FormatInt(want, 10)
	if cs.As {
		exp = "[" + exp + "]"
	}
	if out != exp {
		return fmt.Errorf("widthratio %d %d %d rendered %q, round-to-nearest of v/max*w is %s", cs.V, cs.Max, cs.W, out, exp)
	}
	if num%den != 0 || cs.V > cs.Max {
		r.NonTrivial(fmt.Sprint(*cs))
	}
	return nil
}

var _ = register(&propSpec{
	ID:   "C18.widthratio",
	Rule: "widthratio v max w (also with 'as') for integers, compared with round-to-nearest of v/max*w on non-tie inputs; a maximum of 0 gives 0 (Django). Non-trivial: inexact ratio or v > max or max = 0.",
	Gen: func(t *rapid.T) any {
		return &c18WR{V: drawInt(t, 0, 400, "v"), Max: drawInt(t, 0, 400, "max"), W: pick(t, "w", []int{100, 50, 1, 7, 200, 1000}), As: drawBool(t, "as")}
	},
	New:   func() any { return &c18WR{} },
	Check: checkC18WR,
})

// widthratio over floats, including huge and tiny ones: the ratio is formed first (v/max stays
// small when v and max are of the same magnitude), the reference is exact rational arithmetic
type c18WRF struct {
	V, Max, W float64
	As        bool
}

var c18WRFloats = []float64{0, 0.5, 1.5, 2.25, 0.1, 3, 7, 10, 45, 175, 200, 100, -7, -2.5, 1e15, 1e300, 1e308, 1.5e308, 1e-300, 1e-308, 3e-308}

func checkC18WRF(c any, r *Rec) error {
	cs := c.(*c18WRF)
	if cs.Max == 0 {
		return skipf("max 0")
	}
	rv, rm, rw := new(big.Rat).SetFloat64(cs.V), new(big.Rat).SetFloat64(cs.Max), new(big.Rat).SetFloat64(cs.W)
	if rv == nil || rm == nil || rw == nil {
		return skipf("not finite")
	}
	// the documented formula forms v/max first: where that quotient leaves the float range the
	// reference implementations do not produce a number either
	if q := cs.V / cs.Max; math.IsInf(q, 0) || q == 0 && cs.V != 0 || q != 0 && math.Abs(q) < 1e-300 || math.IsInf(q*cs.W, 0) {
		return skipf("quotient outside the float range")
	}
	exact := new(big.Rat).Mul(new(big.Rat).Quo(rv, rm), rw)
	if new(big.Rat).Abs(exact).Cmp(big.NewRat(1e9, 1)) > 0 {
		return skipf("result too large for the 1e-6 tie margin to cover float rounding")
	}
	// distance to the nearest tie (k + 1/2): float evaluation may land on either side there
	twice := new(big.Rat).Mul(exact, big.NewRat(2, 1))
	fl := new(big.Int).Div(twice.Num(), twice.Denom()) // floor(2x)
	frac := new(big.Rat).Sub(twice, new(big.Rat).SetInt(fl))
	if fl.Bit(0) == 1 && frac.Cmp(big.NewRat(1, 1000000)) < 0 || fl.Bit(0) == 0 && frac.Cmp(big.NewRat(999999, 1000000)) > 0 {
		return skipf("tie or next to a tie")
	}
	half := new(big.Rat).Add(exact, big.NewRat(1, 2))
	want := new(big.Int).Div(half.Num(), half.Denom()) // floor(x + 1/2)
	src := "{% widthratio v m w %}"
	if cs.As {
		src = "{% widthratio v m w as q %}[{{ q }}]"
	}
	tpl, err := c18Set.FromString(src)
	if err != nil {
		return err
	}
	out, err := tpl.Execute(pongo2.Context{"v": cs.V, "m": cs.Max, "w": cs.W})
	if err != nil {
		return fmt.Errorf("widthratio %v %v %v: %v", cs.V, cs.Max, cs.W, err)
	}
	exp := want.String()
	if cs.As {
		exp = "[" + exp + "]"
	}
	if out != exp {
		return fmt.Errorf("widthratio %v %v %v rendered %q, round-to-nearest of v/max*w is %s", cs.V, cs.Max, cs.W, out, exp)
	}
	if math.Abs(cs.V) >= 1e300 || math.Abs(cs.V) <= 1e-300 && cs.V != 0 || cs.V < 0 {
		r.Class("huge/tiny/negative")
	}
	r.NonTrivial(fmt.Sprint(*cs))
	return nil
}

var _ = register(&propSpec{
	ID:   "C18.widthratiof",
	Rule: "widthratio v max w (also with 'as') over float arguments from a pool with fractions, negatives, 1e15, 1e300, 1e308, 1e-300, 1e-308; compared with round-to-nearest of the exact rational v/max*w; skipped: max = 0, a quotient v/max (or its product with w) outside the float range, results beyond 1e9 (where float rounding may cross a tie), inputs within 1e-6 of a tie. Non-trivial: every evaluated case.",
	Gen: func(t *rapid.T) any {
		return &c18WRF{V: pick(t, "v", c18WRFloats), Max: pick(t, "max", c18WRFloats), W: pick(t, "w", c18WRFloats), As: drawBool(t, "as")}
	},
	New:   func() any { return &c18WRF{} },
	Check: checkC18WRF,
})

func TestC18WidthratioFloat(t *testing.T) { runProp(t, "C18.widthratiof") }

func TestC18Widthratio(t *testing.T) { runProp(t, "C18.widthratio") }

func TestC18WidthratioEnum(t *testing.T) {
	enumerate(t, "C18.widthratio", "enum", func(yield func(any) bool) {
		for v := 0; v <= 40; v++ {
			for m := 1; m <= 40; m++ {
				for _, w := range []int{100, 7} {
					if !yield(&c18WR{V: v, Max: m, W: w}) {
						return
					}
				}
			}
		}
	})
}
