package props

// C11: templates are composed only through the set's loaders, by the names written.

import (
	"fmt"
	"os"
	"path/filepath"
	"sort"
	"strings"
	"sync"
	"testing"

	"github.com/flosch/pongo2/v6"
	"pgregory.net/rapid"
)

type c11Item struct {
	Kind     string   `json:"kind"`            // text probe set include lazy lazyloop import ssi ssiparsed
	Names    []string `json:"names,omitempty"` // lazyloop: rooted names visited by one include node, in order
	Text     string   `json:"text,omitempty"`
	Ref      string   `json:"ref,omitempty"`  // the name as written in the template
	Pair     string   `json:"pair,omitempty"` // include: with pv="<Pair>"
	Only     bool     `json:"only,omitempty"`
	IfExists bool     `json:"if_exists,omitempty"`
}

type c11File struct {
	Extends string    `json:"extends,omitempty"` // name as written; items then live inside {% block main %}
	Items   []c11Item `json:"items"`
	IsBase  bool      `json:"is_base,omitempty"` // has a {% block main %} around its "block" item position
	Macro   bool      `json:"macro,omitempty"`   // file exports a macro mk() printing its marker
	Plain   bool      `json:"plain,omitempty"`   // plain text file (for ssi): content is Items[0].Text, never parsed
}

type c11Case struct {
	Loaders []map[string]c11File `json:"loaders"`
	Root    string               `json:"root"`
	// ReadFault: the first loader that has this name delivers a reader that breaks half way. A
	// loader that has a name has won; its failure is an error, not a reason to ask the next one.
	ReadFault string `json:"read_fault,omitempty"`
}

// all names live in this small universe (same base names in different directories)
// the last two virtual names coincide with real files of the machine (written by c11Canary): a
// rooted name is a name for the loaders, not a path of the operating system
var c11Names = []string{"/x.tpl", "/y.tpl", "/d1/x.tpl", "/d1/y.tpl", "/d1/d2/x.tpl", "/d1/d2/z.tpl", "/e/y.tpl", "/e/z.tpl", c11RealDir + "/x.tpl", c11RealDir + "/d1/y.tpl"}

const c11RealDir = "/tmp/verif-c11-canary"

var c11CanaryOnce sync.Once

// the worker chdirs into a scratch directory holding canary files at the same
// relative paths as the virtual names; no loader serves them.
func c11Canary() {
	c11CanaryOnce.Do(func() {
		dir := filepath.Join(outDir(), fmt.Sprintf("canary-%d", os.Getpid()))
		for _, n := range c11Names {
			p := filepath.Join(dir, strings.TrimPrefix(n, "/"))
			_ = os.MkdirAll(filepath.Dir(p), 0o755)
			_ = os.WriteFile(p, []byte("CANARY("+n+"){{ 7 }}"), 0o644)
			if strings.HasPrefix(n, c11RealDir) {
				// the same name as an absolute path of the real file system (several workers may do
				// this at once: write aside, then rename)
				_ = os.MkdirAll(filepath.Dir(n), 0o755)
				tmp := fmt.Sprintf("%s.%d", n, os.Getpid())
				if os.WriteFile(tmp, []byte("CANARY-ABS("+n+"){{ 7 }}"), 0o644) == nil {
					_ = os.Rename(tmp, n)
				}
			}
		}
		_ = os.Chdir(dir)
	})
}

func c11ListLiteral(names []string) string {
	var qs []string
	for _, n := range names {
		qs = append(qs, `"`+n+`"`)
	}
	return "[" + strings.Join(qs, ", ") + "]"
}

func (f c11File) source() string { return f.sourceWith(nil) }

// sourceWith prints the file with every written name passed through tr (nil = as written)
func (f c11File) sourceWith(tr func(ref string) string) string {
	if f.Plain {
		return f.Items[0].Text
	}
	if tr != nil {
		g := f
		g.Extends = ""
		if f.Extends != "" {
			g.Extends = tr(f.Extends)
		}
		g.Items = append([]c11Item(nil), f.Items...)
		for i := range g.Items {
			if g.Items[i].Ref != "" {
				g.Items[i].Ref = tr(g.Items[i].Ref)
			}
			if len(g.Items[i].Names) > 0 {
				ns := make([]string, len(g.Items[i].Names))
				for k, n := range g.Items[i].Names {
					ns[k] = tr(n)
				}
				g.Items[i].Names = ns
			}
		}
		return g.sourceWith(nil)
	}
	var sb strings.Builder
	if f.Extends != "" {
		sb.WriteString(`{% extends "` + f.Extends + `" %}{% block main %}`)
	}
	for _, it := range f.Items {
		switch it.Kind {
		case "text":
			sb.WriteString(it.Text)
		case "probe":
			sb.WriteString("({{ cv }}/{{ sv }}/{{ pv }})")
		case "set":
			sb.WriteString(`{% set sv = "` + it.Text + `" %}`)
		case "setpv":
			// the includer binds the very name a later include passes as a pair: the pair wins
			sb.WriteString(`{% set pv = "` + it.Text + `" %}`)
		case "noise":
			sb.WriteString(c11Noise[it.Text][0])
		case "include", "lazy", "lazyrel":
			switch it.Kind {
			case "include":
				sb.WriteString(`{% include "` + it.Ref + `"`)
			case "lazy":
				sb.WriteString(`{% include lazy_` + it.Text)
			default:
				// a name computed at run time and written relative to this file
				sb.WriteString(`{% set lzr = "` + it.Ref + `" %}{% include lzr`)
			}
			if it.IfExists {
				sb.WriteString(" if_exists")
			}
			if it.Pair != "" {
				sb.WriteString(` with pv="` + it.Pair + `"`)
				if it.Only {
					sb.WriteString(" only")
				}
			}
			sb.WriteString(" %}")
		case "lazyloop":
			sb.WriteString(`{% for ln in ` + c11ListLiteral(it.Names) + ` %}<{% include ln if_exists %}>{% endfor %}`)
		case "import":
			sb.WriteString(`{% import "` + it.Ref + `" mk %}{{ mk() }}`)
		case "ssi":
			sb.WriteString(`{% ssi "` + it.Ref + `" %}`)
		case "ssiparsed":
			sb.WriteString(`{% ssi "` + it.Ref + `" parsed %}`)
		case "blockhere":
			sb.WriteString("{% block main %}" + it.Text + "{% endblock %}")
		}
	}
	if f.Extends != "" {
		sb.WriteString("{% endblock %}")
	}
	if f.Macro {
		sb.WriteString("{% macro mk() export %}MACRO[" + f.Items[0].Text + "]{% endmacro %}")
	}
	return sb.String()
}

// tags that stand before a reference: source and what they render (constant, whatever their state)
var c11Noise = map[string][2]string{
	"cycle":      {`{% cycle "cy" "cy" %}`, "cy"},
	"cycle-as":   {`{% cycle "cy" "cy" as cyv silent %}`, ""},
	"for":        {`{% for nz in "ab" %}{% cycle "k" "k" %}{% endfor %}`, "kk"},
	"with":       {`{% with nw=1 %}{% endwith %}`, ""},
	"firstof":    {`{% firstof "" "fo" %}`, "fo"},
	"widthratio": {`{% widthratio 1 2 100 as wr %}`, ""},
	"macro":      {`{% macro nm() %}m{% endmacro %}{{ nm() }}`, "m"},
	"filter":     {`{% filter upper %}x{% endfilter %}`, "X"},
	"ifchanged":  {`{% ifchanged "c" %}{% endifchanged %}`, ""},
	"spaceless":  {`{% spaceless %}<a> <b>{% endspaceless %}`, "<a><b>"},
}

var c11NoiseKeys = []string{"cycle", "cycle-as", "for", "with", "firstof", "widthratio", "macro", "filter", "ifchanged", "spaceless"}

// ---- reference composition ---------------------------------------------------------

type c11Env struct{ cv, sv, pv string }

type c11Ref struct {
	cs      *c11Case
	visited map[string]bool // every resolved name the composition needs
	lazyVar map[string]string
}

func (r *c11Ref) lookup(name string) (c11File, bool) {
	r.visited[name] = true
	for _, ld := range r.cs.Loaders {
		if f, ok := ld[name]; ok {
			return f, true
		}
	}
	return c11File{}, false
}

type c11Missing struct {
	name string
	lazy bool
}

func (e c11Missing) Error() string { return "missing " + e.name }

// compileCheck walks everything that is fetched at compile time (static refs,
// transitively) and reports the first missing name.
func (r *c11Ref) compileCheck(name string, f c11File, seen map[string]bool) error {
	if f.Plain {
		return nil
	}
	if f.Extends != "" {
		bn := vfsAbs(name, f.Extends)
		b, ok := r.lookup(bn)
		if !ok {
			return c11Missing{name: bn}
		}
		if err := r.compileCheck(bn, b, seen); err != nil {
			return err
		}
	}
	for _, it := range f.Items {
		switch it.Kind {
		case "include", "import", "ssi", "ssiparsed":
			tn := vfsAbs(name, it.Ref)
			t, ok := r.lookup(tn)
			if !ok {
				if it.Kind == "include" && it.IfExists {
					continue
				}
				return c11Missing{name: tn}
			}
			if it.Kind != "ssi" {
				if err := r.compileCheck(tn, t, seen); err != nil {
					return err
				}
			}
		}
	}
	return nil
}

func (r *c11Ref) render(name string, f c11File, env *c11Env, sb *strings.Builder, childBlock func(env *c11Env, sb *strings.Builder) error) error {
	if f.Plain {
		sb.WriteString(f.Items[0].Text)
		return nil
	}
	if f.Extends != "" {
		bn := vfsAbs(name, f.Extends)
		b, _ := r.lookup(bn)
		// the child's items are its override of block "main"; they run in the base's execution (same variables)
		return r.render(bn, b, env, sb, func(env *c11Env, sb *strings.Builder) error {
			return r.items(name, f.Items, env, sb, nil)
		})
	}
	return r.items(name, f.Items, env, sb, childBlock)
}

func (r *c11Ref) items(name string, items []c11Item, env *c11Env, sb *strings.Builder, childBlock func(env *c11Env, sb *strings.Builder) error) error {
	for _, it := range items {
		switch it.Kind {
		case "text":
			sb.WriteString(it.Text)
		case "probe":
			sb.WriteString("(" + env.cv + "/" + env.sv + "/" + env.pv + ")")
		case "set":
			env.sv = it.Text
		case "setpv":
			env.pv = it.Text
		case "noise":
			sb.WriteString(c11Noise[it.Text][1])
		case "blockhere":
			if childBlock != nil {
				if err := childBlock(env, sb); err != nil {
					return err
				}
			} else {
				sb.WriteString(it.Text)
			}
		case "include", "lazy", "lazyrel":
			var tn string
			if it.Kind == "include" || it.Kind == "lazyrel" {
				tn = vfsAbs(name, it.Ref)
			} else {
				tn = r.lazyVar[it.Text] // rooted by construction
			}
			t, ok := r.lookup(tn)
			if !ok {
				if it.IfExists {
					continue
				}
				return c11Missing{name: tn, lazy: true}
			}
			if it.Kind == "lazy" || it.Kind == "lazyrel" {
				if err := r.compileCheck(tn, t, map[string]bool{}); err != nil {
					if m, ok := err.(c11Missing); ok {
						m.lazy = true
						return m
					}
					return err
				}
			}
			sub := *env
			if it.Pair != "" {
				sub.pv = it.Pair
				if it.Only {
					sub.cv, sub.sv = "", ""
				}
			}
			var b strings.Builder
			if err := r.render(tn, t, &sub, &b, nil); err != nil {
				return err
			}
			sb.WriteString(b.String())
		case "lazyloop":
			// one include node, executed once per name: every pass is on its own
			for _, tn := range it.Names {
				sb.WriteString("<")
				t, ok := r.lookup(tn)
				if ok {
					if err := r.compileCheck(tn, t, map[string]bool{}); err != nil {
						if m, isM := err.(c11Missing); isM {
							m.lazy = true
							return m
						}
						return err
					}
					sub := *env
					var b strings.Builder
					if err := r.render(tn, t, &sub, &b, nil); err != nil {
						return err
					}
					sb.WriteString(b.String())
				}
				sb.WriteString(">")
			}
		case "import":
			tn := vfsAbs(name, it.Ref)
			t, _ := r.lookup(tn)
			sb.WriteString("MACRO[" + t.Items[0].Text + "]")
		case "ssi":
			tn := vfsAbs(name, it.Ref)
			t, _ := r.lookup(tn)
			sb.WriteString(t.source())
		case "ssiparsed":
			tn := vfsAbs(name, it.Ref)
			t, _ := r.lookup(tn)
			sub := *env
			var b strings.Builder
			if err := r.render(tn, t, &sub, &b, nil); err != nil {
				return err
			}
			sb.WriteString(b.String())
		}
	}
	return nil
}

func checkC11(c any, r *Rec) error {
	cs := c.(*c11Case)
	c11Canary()
	var lds []*memLoader
	var tls []pongo2.TemplateLoader
	for _, m := range cs.Loaders {
		files := map[string]string{}
		for n, f := range m {
			files[n] = f.source()
		}
		ld := newMemLoader(files)
		lds = append(lds, ld)
		tls = append(tls, ld)
	}
	set := pongo2.NewSet("c11", tls...)
	ctx := pongo2.Context{"cv": "C"}
	ref := &c11Ref{cs: cs, visited: map[string]bool{}, lazyVar: map[string]string{}}
	for i, n := range c11Names {
		v := fmt.Sprintf("n%d", i)
		set.Globals["lazy_"+v] = n // globals: visible in every template of the set, also behind "only"
		ref.lazyVar[v] = n
	}
	desc := func() string {
		var sb strings.Builder
		for i, m := range cs.Loaders {
			names := make([]string, 0, len(m))
			for n := range m {
				names = append(names, n)
			}
			sort.Strings(names)
			for _, n := range names {
				fmt.Fprintf(&sb, "\n   loader%d %s: %q", i, n, m[n].source())
			}
		}
		return "root=" + cs.Root + sb.String()
	}
	if cs.ReadFault != "" {
		// what must happen is what would happen if no loader had the name (an error, or nothing
		// behind if_exists): in particular no other loader's file of that name may be used instead
		gone := &c11Case{Root: cs.Root}
		for _, m := range cs.Loaders {
			m2 := map[string]c11File{}
			for n, f := range m {
				if n != cs.ReadFault {
					m2[n] = f
				}
			}
			gone.Loaders = append(gone.Loaders, m2)
		}
		ref.cs = gone
	}
	rootFile, ok := ref.lookup(cs.Root)
	if !ok {
		return skipf("root not present")
	}
	var want strings.Builder
	werr := ref.compileCheck(cs.Root, rootFile, map[string]bool{})
	if werr == nil {
		werr = ref.render(cs.Root, rootFile, &c11Env{cv: "C"}, &want, nil)
	}
	if cs.ReadFault != "" {
		for i, m := range cs.Loaders {
			if _, has := m[cs.ReadFault]; has {
				lds[i].setFailRead(cs.ReadFault)
				break
			}
		}
	}
	tpl, cerr := set.FromFile(cs.Root)
	var got string
	var xerr error
	if cerr == nil {
		got, xerr = tpl.Execute(ctx)
	}
	if cs.ReadFault != "" {
		if werr != nil {
			if cerr == nil && xerr == nil {
				return fmt.Errorf("the first loader that has %s failed while it was read (and the name is not guarded by if_exists), yet the template rendered %q\n %s", cs.ReadFault, got, desc())
			}
		} else if cerr == nil && xerr == nil && got != want.String() {
			return fmt.Errorf("the first loader that has %s failed while it was read; the template rendered %q, without that name it renders %q (was another loader's file used instead?)\n %s", cs.ReadFault, got, want.String(), desc())
		}
		if ref.visited[cs.ReadFault] {
			r.Class("read-fault-on-a-used-name")
			r.NonTrivial(desc() + cs.ReadFault)
		}
		return nil
	}
	if strings.Contains(got, "CANARY") || strings.Contains(errText(cerr)+errText(xerr), "CANARY") {
		return fmt.Errorf("content of a file on the real file system (served by no loader) was used: %q\n %s", got, desc())
	}
	if werr != nil {
		m := werr.(c11Missing)
		if cerr == nil && xerr == nil {
			return fmt.Errorf("name %s is served by no loader (and not guarded by if_exists) but the template rendered %q\n %s", m.name, got, desc())
		}
		// (whether a statically written name is missed when compiling or only when executing is not
		// stated: "a missing name is an error")
		r.Class("missing-name-error")
	} else {
		if cerr != nil || xerr != nil {
			return fmt.Errorf("unexpected error (compile: %v, execute: %v)\n reference output %q\n %s", cerr, xerr, want.String(), desc())
		}
		if got != want.String() {
			return fmt.Errorf("composition differs\n got  %q\n want %q\n %s", got, want.String(), desc())
		}
		// the same compiled template executed again without the caller's entry, and then with it
		// again: an included template sees the includer's variables of THIS execution
		var wantNo strings.Builder
		if e := ref.render(cs.Root, rootFile, &c11Env{}, &wantNo, nil); e == nil {
			gotNo, errNo := tpl.Execute(pongo2.Context{})
			gotAgain, errAgain := tpl.Execute(ctx)
			if errNo != nil || gotNo != wantNo.String() {
				return fmt.Errorf("second execution, with a context that lacks the entry cv: got %q (err %v), want %q\n %s", gotNo, errNo, wantNo.String(), desc())
			}
			if errAgain != nil || gotAgain != want.String() {
				return fmt.Errorf("third execution, with the first context again: got %q (err %v), want %q\n %s", gotAgain, errAgain, want.String(), desc())
			}
		}
	}
	// the loaders' content changes: what is compiled afresh afterwards shows the new content by
	// every route - literal names as well as names computed at run time
	if werr == nil {
		cs2 := &c11Case{Root: cs.Root}
		for i, m := range cs.Loaders {
			m2 := map[string]c11File{}
			for n, f := range m {
				g := f
				g.Items = append([]c11Item(nil), f.Items...)
				for k := range g.Items {
					if g.Items[k].Kind == "text" || g.Items[k].Kind == "blockhere" {
						g.Items[k].Text += "~v2"
					}
				}
				m2[n] = g
				lds[i].set(n, g.source())
			}
			cs2.Loaders = append(cs2.Loaders, m2)
		}
		ref2 := &c11Ref{cs: cs2, visited: map[string]bool{}, lazyVar: ref.lazyVar}
		root2, _ := ref2.lookup(cs2.Root)
		var want2 strings.Builder
		if e := ref2.render(cs2.Root, root2, &c11Env{cv: "C"}, &want2, nil); e == nil {
			tpl2, cerr2 := set.FromFile(cs.Root)
			var got2 string
			var xerr2 error
			if cerr2 == nil {
				got2, xerr2 = tpl2.Execute(ctx)
			}
			if cerr2 != nil || xerr2 != nil || got2 != want2.String() {
				return fmt.Errorf("after the content of every file changed, a fresh FromFile of the root renders\n got  %q (compile: %v, execute: %v)\n want %q\n %s", got2, cerr2, xerr2, want2.String(), desc())
			}
			r.Class("content-changed-and-recompiled")
		}
	}
	// loader traffic: nothing may be fetched that the composition does not reference,
	// and what it uses must have come through a loader
	for i, ld := range lds {
		for _, g := range ld.getLog() {
			if !ref.visited[g] {
				return fmt.Errorf("loader%d was asked for %q, which none of the templates involved references (referenced: %v)\n %s", i, g, keysOf(ref.visited), desc())
			}
		}
	}
	if werr == nil {
		for n := range ref.visited {
			hits := 0
			for _, ld := range lds {
				hits += ld.hitCount(n)
			}
			_, exists := ref.lookup(n)
			if exists && hits == 0 {
				return fmt.Errorf("%s is part of the rendered composition but was never fetched through a loader\n %s", n, desc())
			}
		}
	}
	// classification
	multi := len(cs.Loaders) >= 2
	disagree := false
	if multi {
		for n, f := range cs.Loaders[0] {
			for _, other := range cs.Loaders[1:] {
				if g, ok := other[n]; ok && g.source() != f.source() {
					disagree = true
				}
			}
		}
	}
	relCross, special := false, false
	for _, m := range cs.Loaders {
		for n, f := range m {
			refs := []string{f.Extends}
			for _, it := range f.Items {
				refs = append(refs, it.Ref)
				if it.Only || it.IfExists {
					special = true
				}
			}
			for _, rf := range refs {
				if rf != "" && !strings.HasPrefix(rf, "/") && filepath.Dir(vfsAbs(n, rf)) != filepath.Dir(n) {
					relCross = true
				}
			}
		}
	}
	if disagree {
		r.Class("loaders-disagree")
	}
	if relCross {
		r.Class("relative-across-directories")
	}
	if special {
		r.Class("only/if_exists")
	}
	if disagree || relCross || special {
		r.NonTrivial(desc())
	}
	return nil
}

func keysOf(m map[string]bool) []string {
	var ks []string
	for k := range m {
		ks = append(ks, k)
	}
	sort.Strings(ks)
	return ks
}

// ---- generator -------------------------------------------------------------------------

// writeRef: how file `from` names file `to`
func c11WriteRef(t *rapid.T, from, to string) string {
	switch drawInt(t, 0, 2, "refstyle") {
	case 0:
		return to // rooted
	case 1:
		return relPath(from, to)
	default:
		// rooted with a detour
		return "/e/.." + to
	}
}

func genC11(t *rapid.T) *c11Case {
	nl := drawInt(t, 1, 3, "nloaders")
	cs := &c11Case{}
	for i := 0; i < nl; i++ {
		cs.Loaders = append(cs.Loaders, map[string]c11File{})
	}
	// pick the files in use, ordered: file i may only reference files with a higher index (acyclic)
	n := drawInt(t, 2, len(c11Names), "nfiles")
	perm := append([]string{}, c11Names...)
	for i := len(perm) - 1; i > 0; i-- {
		j := drawInt(t, 0, i, "perm")
		perm[i], perm[j] = perm[j], perm[i]
	}
	used := perm[:n]
	missing := perm[n:] // names that exist nowhere
	marker := 0
	for i, name := range used {
		// which loaders serve this name (at least one), each with its own content
		var holders []int
		for l := 0; l < nl; l++ {
			if drawBool(t, "holds") {
				holders = append(holders, l)
			}
		}
		if len(holders) == 0 {
			holders = []int{drawInt(t, 0, nl-1, "holder")}
		}
		// role of the file is the same in all loaders (so references stay meaningful); markers differ
		role := "tpl"
		if i > 0 {
			role = pickW(t, "role", []string{"tpl", "base", "macro", "plain"}, []int{5, 2, 1, 1})
		}
		later := used[i+1:]
		for _, l := range holders {
			marker++
			f := c11File{}
			mk := fmt.Sprintf("[%s@L%d#%d]", name, l, marker)
			switch role {
			case "plain":
				f.Plain = true
				f.Items = []c11Item{{Kind: "text", Text: "PLAIN" + mk + "{{ cv }}{% nope %}"}}
			case "macro":
				f.Macro = true
				f.Items = []c11Item{{Kind: "text", Text: mk}}
			default:
				f.Items = append(f.Items, c11Item{Kind: "text", Text: mk})
				if drawBool(t, "probe0") {
					f.Items = append(f.Items, c11Item{Kind: "probe"})
				}
				if role == "base" {
					f.IsBase = true
					f.Items = append(f.Items, c11Item{Kind: "blockhere", Text: "base-main" + mk})
				}
				nrefs := drawInt(t, 0, 3, "nrefs")
				for k := 0; k < nrefs; k++ {
					switch drawInt(t, 0, 7, "set") {
					case 0, 1:
						f.Items = append(f.Items, c11Item{Kind: "set", Text: fmt.Sprintf("S%d", marker)})
					case 2:
						f.Items = append(f.Items, c11Item{Kind: "setpv", Text: fmt.Sprintf("SP%d", marker)})
					case 3:
						// other tags executed before the reference: whatever they bind for themselves
						// is no business of the template referred to
						f.Items = append(f.Items, c11Item{Kind: "noise", Text: pick(t, "noise", c11NoiseKeys)})
					}
					// target: a later file, or (sometimes) a missing name
					var target string
					targetRole := ""
					if len(later) > 0 && drawInt(t, 0, 11, "tomissing") != 0 {
						target = pick(t, "target", later)
					} else if len(missing) > 0 {
						target = pick(t, "missing", missing)
						targetRole = "missing"
					} else {
						continue
					}
					_ = targetRole
					if drawInt(t, 0, 5, "lazyloop") == 0 {
						f.Items = append(f.Items, c11Item{Kind: "pendingloop"})
						continue
					}
					f.Items = append(f.Items, c11Item{Kind: "pendingref", Ref: target})
					if drawBool(t, "probeafter") {
						f.Items = append(f.Items, c11Item{Kind: "probe"})
					}
				}
			}
			cs.Loaders[l][name] = f
		}
	}
	// roles of all names (same in every loader)
	roleOf := func(name string) string {
		for _, m := range cs.Loaders {
			if f, ok := m[name]; ok {
				switch {
				case f.Plain:
					return "plain"
				case f.Macro:
					return "macro"
				case f.IsBase:
					return "base"
				}
				return "tpl"
			}
		}
		return "missing"
	}
	// turn pending references into concrete tags that fit the target's role
	for l := range cs.Loaders {
		for name, f := range cs.Loaders[l] {
			var items []c11Item
			for _, it := range f.Items {
				if it.Kind == "pendingloop" {
					// names of later plain templates and of missing files, in random order
					var names []string
					idx := 0
					for k, nn := range used {
						if nn == name {
							idx = k
						}
					}
					for _, cand := range append(append([]string{}, used[idx+1:]...), missing...) {
						if (roleOf(cand) == "tpl" || roleOf(cand) == "missing") && drawBool(t, "inloop") {
							names = append(names, cand)
						}
					}
					for k := len(names) - 1; k > 0; k-- {
						j := drawInt(t, 0, k, "loopperm")
						names[k], names[j] = names[j], names[k]
					}
					if len(names) > 0 {
						items = append(items, c11Item{Kind: "lazyloop", Names: names})
					}
					continue
				}
				if it.Kind != "pendingref" {
					items = append(items, it)
					continue
				}
				target := it.Ref
				switch roleOf(target) {
				case "plain":
					items = append(items, c11Item{Kind: "ssi", Ref: c11WriteRef(t, name, target)})
				case "macro":
					items = append(items, c11Item{Kind: "import", Ref: c11WriteRef(t, name, target)})
				case "base":
					// extends: only if this file has no extends yet and is a plain template; otherwise include it
					if f.Extends == "" && !f.IsBase && drawBool(t, "extend") {
						f.Extends = c11WriteRef(t, name, target)
						continue
					}
					fallthrough
				default: // tpl or missing
					kind := pickW(t, "refkind", []string{"include", "lazy", "ssiparsed"}, []int{5, 2, 1})
					if roleOf(target) == "missing" && drawBool(t, "missingkind") {
						// a name no loader serves can be asked for by every tag
						kind = pick(t, "refkind2", []string{"ssi", "import", "ssiparsed"})
					}
					ni := c11Item{Kind: kind}
					switch kind {
					case "include":
						ni.Ref = c11WriteRef(t, name, target)
						ni.IfExists = drawInt(t, 0, 2, "ifexists") == 0
					case "lazy":
						idx := 0
						for k, nn := range c11Names {
							if nn == target {
								idx = k
							}
						}
						ni.Text = fmt.Sprintf("n%d", idx)
						ni.IfExists = drawInt(t, 0, 2, "ifexists") == 0
						if !f.IsBase && !f.Macro && drawBool(t, "lazyrel") {
							// computed at run time AND written relative to the referring file (only in files
							// that are executed as templates of their own: root or included)
							ni.Kind, ni.Text = "lazyrel", ""
							ni.Ref = relPath(name, target)
						}
					case "ssiparsed", "ssi", "import":
						ni.Ref = c11WriteRef(t, name, target)
					}
					if (kind == "include" || kind == "lazy") && drawBool(t, "withpair") {
						// (ni.Kind may have become lazyrel)
						ni.Pair = fmt.Sprintf("P%d", len(items))
						ni.Only = drawBool(t, "only")
					}
					items = append(items, ni)
				}
			}
			if f.Extends != "" {
				for k := range items {
					if items[k].Kind == "lazyrel" {
						items[k].Ref = vfsAbs(name, items[k].Ref)
					}
				}
			}
			f.Items = items
			cs.Loaders[l][name] = f
		}
	}
	// if_exists forgives only that the named template itself is missing: now and then give the
	// target of an if_exists include a dangling reference of its own
	if len(missing) > 0 && drawInt(t, 0, 3, "dangling") == 0 {
		var guarded []string
		for l := range cs.Loaders {
			for name, f := range cs.Loaders[l] {
				for _, it := range f.Items {
					switch {
					case it.Kind == "include" && it.IfExists:
						guarded = append(guarded, vfsAbs(name, it.Ref))
					case it.Kind == "lazy" && it.IfExists:
						var idx int
						fmt.Sscanf(it.Text, "n%d", &idx)
						guarded = append(guarded, c11Names[idx])
					case it.Kind == "lazyloop":
						guarded = append(guarded, it.Names...)
					}
				}
			}
		}
		sortStringsInPlace(guarded)
		var cands []string
		for _, g := range guarded {
			if roleOf(g) == "tpl" && (len(cands) == 0 || cands[len(cands)-1] != g) {
				cands = append(cands, g)
			}
		}
		if len(cands) > 0 {
			victim := pick(t, "victim", cands)
			gone := pick(t, "gone", missing)
			kind := pick(t, "danglingkind", []string{"ssi", "ssiparsed", "include", "import", "lazy"})
			ni := c11Item{Kind: kind, Ref: gone}
			if kind == "lazy" {
				for k, nn := range c11Names {
					if nn == gone {
						ni.Text = fmt.Sprintf("n%d", k)
					}
				}
			}
			for l := range cs.Loaders {
				if f, ok := cs.Loaders[l][victim]; ok {
					f.Items = append(f.Items, ni)
					cs.Loaders[l][victim] = f
				}
			}
		}
	}
	cs.Root = used[0]
	if drawInt(t, 0, 7, "readfault") == 0 {
		cs.ReadFault = pick(t, "faultname", used)
	}
	return cs
}

var _ = register(&propSpec{
	ID:    "C11.compose",
	Rule:  "virtual file trees (10 names with equal base names in different directories up to 3 deep), 1-3 loaders serving overlapping names with different contents, acyclic reference graphs over include (static / lazy with rooted names / lazy with names relative to the referring file, with pair, only, if_exists), extends (+ block override), import (+ call), ssi plain (content never parsed) and ssi parsed; names written rooted, relative (incl. ..) and rooted with a detour; a reader that breaks half way in the first loader that has a name (must be an error, not a reason to ask the next loader); references to names no loader serves (by every tag; also from inside the target of an if_exists include, which if_exists does not forgive); includer variables (context, set, with pair, a set of the very name a pair passes) probed in every file; other tags executed before a reference (anonymous and named cycle, for, with, firstof, widthratio as, macro, filter, ifchanged, spaceless - what they bind for themselves is no business of the template referred to). The worker's working directory holds canary files at the same relative paths, and two of the virtual names also exist as absolute paths of the real file system (canary content); none of them is served by a loader. Oracle: reference composition (first loader having a name wins; relative names resolve against the referring file; missing => error, or nothing with if_exists; only hides includer variables), the loaders' Get logs contain no name outside the referenced set and everything used was fetched, no canary text ever appears; the compiled root is executed again without the caller's context entry and once more with it (an included template sees the variables of the execution it runs in); then the content of every file changes and a fresh FromFile of the root must show the new content by every route (literal and computed names alike). Non-trivial: loaders disagree on a name, or a relative reference crosses directories, or only / if_exists present.",
	Gen:   func(t *rapid.T) any { return genC11(t) },
	New:   func() any { return &c11Case{} },
	Check: checkC11,
})

func TestC11Compose(t *testing.T) { runProp(t, "C11.compose") }
