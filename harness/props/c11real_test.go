package props

// C11.shipped: the same compositions through the loaders pongo2 ships (template_loader.go), each
// with the name resolution its documentation states:
//   local      LocalFilesystemLoader without base directory: relative names against the referring
//              template, absolute names are paths of the file system
//   localbase  LocalFilesystemLoader with base directory: relative names against the base directory
//   fs         FSLoader over an fs.FS: names relative to the referring template
//   http       HttpFilesystemLoader: every name from the root of the http.FileSystem (plus baseDir)
// The virtual tree of a C11 case is materialised (real temporary directory / fstest.MapFS), every
// written name is re-written so that it denotes the same target under that loader's rule, and the
// rendering must equal the reference composition of the virtual case.

import (
	"fmt"
	"net/http"
	"os"
	"path/filepath"
	"sort"
	"strings"
	"sync/atomic"
	"testing"
	"testing/fstest"

	"github.com/flosch/pongo2/v6"
	"pgregory.net/rapid"
)

type c11RealCase struct {
	Case *c11Case `json:"case"` // single loader
	Kind string   `json:"kind"` // local | localbase | fs | http | httpbase | localbase+ | fs+ | http+ (one real loader per virtual loader)
	// localbase / http: write names with or without the leading slash (absolute path vs name under the base)
	Unrooted bool `json:"unrooted"`
}

var c11RealSeq int64

func checkC11Real(c any, r *Rec) error {
	cs := c.(*c11RealCase)
	vc := cs.Case
	files := vc.Loaders[0]
	if strings.HasSuffix(cs.Kind, "+") {
		return checkC11RealMulti(cs, r)
	}
	// reference on the virtual case
	ref := &c11Ref{cs: vc, visited: map[string]bool{}, lazyVar: map[string]string{}}
	for i, n := range c11Names {
		ref.lazyVar[fmt.Sprintf("n%d", i)] = n
	}
	rootFile, ok := ref.lookup(vc.Root)
	if !ok {
		return skipf("root not present")
	}
	var want strings.Builder
	werr := ref.compileCheck(vc.Root, rootFile, map[string]bool{})
	if werr == nil {
		werr = ref.render(vc.Root, rootFile, &c11Env{cv: "C"}, &want, nil)
	}
	// materialise
	root := ""
	if cs.Kind == "local" || cs.Kind == "localbase" {
		root = filepath.Join(outDir(), fmt.Sprintf("c11real-%d-%d", os.Getpid(), atomic.AddInt64(&c11RealSeq, 1)))
		defer os.RemoveAll(root)
	}
	// how a virtual target is written in a file that lives at virtual name `from`
	write := func(from, written string) string {
		target := vfsAbs(from, written)
		relative := !strings.HasPrefix(written, "/")
		switch cs.Kind {
		case "local":
			if relative {
				return written
			}
			if strings.HasPrefix(written, "/e/..") {
				return root + written // the detour goes through a directory that exists
			}
			return root + target
		case "localbase":
			if cs.Unrooted {
				return strings.TrimPrefix(target, "/")
			}
			return root + target
		case "fs":
			return relPath(from, target)
		case "http":
			if cs.Unrooted {
				return strings.TrimPrefix(target, "/")
			}
			return target
		default: // httpbase
			return strings.TrimPrefix(target, "/")
		}
	}
	srcs := map[string]string{}
	for n, f := range files {
		n := n
		srcs[n] = f.sourceWith(func(ref string) string { return write(n, ref) })
	}
	var loader pongo2.TemplateLoader
	var entry string
	switch cs.Kind {
	case "local", "localbase":
		for _, d := range []string{"/d1/d2", "/e", c11RealDir + "/d1"} {
			if err := os.MkdirAll(root+d, 0o755); err != nil {
				return skipf("cannot create %s: %v", root+d, err)
			}
		}
		for n, src := range srcs {
			if err := os.WriteFile(root+n, []byte(src), 0o644); err != nil {
				return skipf("cannot write: %v", err)
			}
		}
		base := ""
		entry = root + vc.Root
		if cs.Kind == "localbase" {
			base = root
			if cs.Unrooted {
				entry = strings.TrimPrefix(vc.Root, "/")
			}
		}
		l, err := pongo2.NewLocalFileSystemLoader(base)
		if err != nil {
			return fmt.Errorf("NewLocalFileSystemLoader(%q): %v", base, err)
		}
		loader = l
	case "fs":
		m := fstest.MapFS{}
		for n, src := range srcs {
			m[strings.TrimPrefix(n, "/")] = &fstest.MapFile{Data: []byte(src)}
		}
		loader = pongo2.NewFSLoader(m)
		entry = strings.TrimPrefix(vc.Root, "/")
	default:
		m := fstest.MapFS{}
		prefix := ""
		if cs.Kind == "httpbase" {
			prefix = "tpl/base/"
		}
		for n, src := range srcs {
			m[prefix+strings.TrimPrefix(n, "/")] = &fstest.MapFile{Data: []byte(src)}
		}
		l, err := pongo2.NewHttpFileSystemLoader(http.FS(m), strings.TrimSuffix(prefix, "/"))
		if err != nil {
			return fmt.Errorf("NewHttpFileSystemLoader: %v", err)
		}
		loader = l
		entry = vc.Root
		if cs.Unrooted || cs.Kind == "httpbase" {
			entry = strings.TrimPrefix(vc.Root, "/")
		}
	}
	set := pongo2.NewSet("c11real", loader)
	for i, n := range c11Names {
		set.Globals[fmt.Sprintf("lazy_n%d", i)] = write("/", n)
	}
	desc := func() string {
		var sb strings.Builder
		names := make([]string, 0, len(srcs))
		for n := range srcs {
			names = append(names, n)
		}
		sort.Strings(names)
		for _, n := range names {
			fmt.Fprintf(&sb, "\n   %s: %q", n, srcs[n])
		}
		return fmt.Sprintf("loader=%s unrooted=%v root dir=%q entry=%q%s", cs.Kind, cs.Unrooted, root, entry, sb.String())
	}
	tpl, cerr := set.FromFile(entry)
	var got string
	var xerr error
	if cerr == nil {
		got, xerr = tpl.Execute(pongo2.Context{"cv": "C"})
	}
	if werr != nil {
		m := werr.(c11Missing)
		if cerr == nil && xerr == nil {
			return fmt.Errorf("name %s does not exist (and is not guarded by if_exists) but the template rendered %q\n %s", m.name, got, desc())
		}
		r.Class("missing-name-error")
	} else {
		if cerr != nil || xerr != nil {
			return fmt.Errorf("unexpected error (compile: %v, execute: %v)\n reference output %q\n %s", cerr, xerr, want.String(), desc())
		}
		if got != want.String() {
			return fmt.Errorf("composition through the shipped loader differs\n got  %q\n want %q\n %s", got, want.String(), desc())
		}
	}
	r.Class("loader:" + cs.Kind)
	nrefs := 0
	for _, f := range files {
		if f.Extends != "" {
			nrefs++
		}
		for _, it := range f.Items {
			if it.Ref != "" || it.Kind == "lazy" || it.Kind == "lazyloop" {
				nrefs++
			}
		}
	}
	if nrefs >= 2 {
		r.NonTrivial(desc())
	}
	return nil
}

// several shipped loaders in one set: the first loader that has a name wins, for the entry as well
// as for every name a template refers to
func checkC11RealMulti(cs *c11RealCase, r *Rec) error {
	vc := cs.Case
	ref := &c11Ref{cs: vc, visited: map[string]bool{}, lazyVar: map[string]string{}}
	for i, n := range c11Names {
		ref.lazyVar[fmt.Sprintf("n%d", i)] = n
	}
	rootFile, ok := ref.lookup(vc.Root)
	if !ok {
		return skipf("root not present")
	}
	var want strings.Builder
	werr := ref.compileCheck(vc.Root, rootFile, map[string]bool{})
	if werr == nil {
		werr = ref.render(vc.Root, rootFile, &c11Env{cv: "C"}, &want, nil)
	}
	top := filepath.Join(outDir(), fmt.Sprintf("c11real-%d-%d", os.Getpid(), atomic.AddInt64(&c11RealSeq, 1)))
	if cs.Kind == "localbase+" {
		defer os.RemoveAll(top)
	}
	write := func(from, written string) string {
		target := vfsAbs(from, written)
		if cs.Kind == "fs+" {
			return relPath(from, target)
		}
		return strings.TrimPrefix(target, "/") // a name under the base directory / the http root
	}
	var loaders []pongo2.TemplateLoader
	var descs []string
	for i, files := range vc.Loaders {
		m := fstest.MapFS{}
		root := fmt.Sprintf("%s/L%d", top, i)
		if cs.Kind == "localbase+" {
			for _, d := range []string{"/d1/d2", "/e", c11RealDir + "/d1"} {
				if err := os.MkdirAll(root+d, 0o755); err != nil {
					return skipf("cannot create %s: %v", root+d, err)
				}
			}
		}
		names := make([]string, 0, len(files))
		for n := range files {
			names = append(names, n)
		}
		sort.Strings(names)
		for _, n := range names {
			n := n
			src := files[n].sourceWith(func(ref string) string { return write(n, ref) })
			descs = append(descs, fmt.Sprintf("loader%d %s: %q", i, n, src))
			if cs.Kind == "localbase+" {
				if err := os.WriteFile(root+n, []byte(src), 0o644); err != nil {
					return skipf("cannot write: %v", err)
				}
			} else {
				m[strings.TrimPrefix(n, "/")] = &fstest.MapFile{Data: []byte(src)}
			}
		}
		switch cs.Kind {
		case "localbase+":
			l, err := pongo2.NewLocalFileSystemLoader(root)
			if err != nil {
				return fmt.Errorf("NewLocalFileSystemLoader(%q): %v", root, err)
			}
			loaders = append(loaders, l)
		case "fs+":
			loaders = append(loaders, pongo2.NewFSLoader(m))
		default:
			l, err := pongo2.NewHttpFileSystemLoader(http.FS(m), "")
			if err != nil {
				return err
			}
			loaders = append(loaders, l)
		}
	}
	set := pongo2.NewSet("c11real+", loaders[0])
	set.AddLoader(loaders[1:]...)
	for i, n := range c11Names {
		set.Globals[fmt.Sprintf("lazy_n%d", i)] = write("/", n)
	}
	desc := fmt.Sprintf("loaders=%s entry=%q\n   %s", cs.Kind, strings.TrimPrefix(vc.Root, "/"), strings.Join(descs, "\n   "))
	var tpl *pongo2.Template
	var cerr error
	if cs.Unrooted {
		tpl, cerr = set.FromCache(strings.TrimPrefix(vc.Root, "/"))
	} else {
		tpl, cerr = set.FromFile(strings.TrimPrefix(vc.Root, "/"))
	}
	var got string
	var xerr error
	if cerr == nil {
		got, xerr = tpl.Execute(pongo2.Context{"cv": "C"})
	}
	if werr != nil {
		m := werr.(c11Missing)
		if cerr == nil && xerr == nil {
			return fmt.Errorf("name %s is in no loader (and is not guarded by if_exists) but the template rendered %q\n %s", m.name, got, desc)
		}
		r.Class("missing-name-error")
	} else {
		if cerr != nil || xerr != nil {
			return fmt.Errorf("unexpected error (compile: %v, execute: %v) although every name is in one of the loaders\n reference output %q\n %s", cerr, xerr, want.String(), desc)
		}
		if got != want.String() {
			return fmt.Errorf("composition through several shipped loaders differs (the first loader that has a name wins)\n got  %q\n want %q\n %s", got, want.String(), desc)
		}
	}
	// the cache of such a set: after the entry's file changed, CleanCache(name) makes the next
	// FromCache(name) show the new content (the name is spelled as the caller spells it)
	if cs.Unrooted && werr == nil && cerr == nil && cs.Kind == "localbase+" {
		entry := strings.TrimPrefix(vc.Root, "/")
		for i, files := range vc.Loaders {
			f, has := files[vc.Root]
			if !has {
				continue
			}
			if f.Extends != "" || f.Plain {
				break // text appended to a child outside its blocks is ignored anyway
			}
			src := f.sourceWith(func(ref string) string { return write(vc.Root, ref) }) + "~v2"
			path := fmt.Sprintf("%s/L%d%s", top, i, vc.Root)
			st, _ := os.Stat(path)
			if err := os.WriteFile(path, []byte(src), 0o644); err != nil {
				return skipf("cannot rewrite: %v", err)
			}
			if st != nil && len(src)%2 == 0 {
				// (a change that keeps the file's time stamp - cp -p, rsync -t, a coarse clock: what
				// counts is the content)
				_ = os.Chtimes(path, st.ModTime(), st.ModTime())
			}
			same, _ := set.FromCache(entry)
			if same != tpl {
				return fmt.Errorf("FromCache(%q) returned another instance although CleanCache was not called\n %s", entry, desc)
			}
			set.CleanCache(entry)
			tpl2, e2 := set.FromCache(entry)
			if e2 != nil {
				return fmt.Errorf("FromCache(%q) after CleanCache: %v\n %s", entry, e2, desc)
			}
			got2, x2 := tpl2.Execute(pongo2.Context{"cv": "C"})
			if x2 != nil || got2 != want.String()+"~v2" {
				return fmt.Errorf("the file of %q changed and CleanCache(%q) was called, but FromCache renders %q (err %v), want %q\n %s", entry, entry, got2, x2, want.String()+"~v2", desc)
			}
			r.Class("cleancache-by-name")
			break
		}
	}
	r.Class("loader:" + cs.Kind)
	if len(vc.Loaders) >= 2 {
		r.NonTrivial(desc)
	}
	return nil
}

var _ = register(&propSpec{
	ID:   "C11.shipped",
	Rule: "C11.compose's reference graphs (include static / lazy / looped lazy, extends, import, ssi plain and parsed, if_exists, only, missing names) flattened to one loader and run through the loaders pongo2 ships: LocalFilesystemLoader without base directory (real temporary tree; relative names against the referring template, absolute paths, detours through existing directories), LocalFilesystemLoader with base directory (names under the base or absolute), FSLoader over fstest.MapFS (names relative to the referring template; lazy names become static ones since a fixed value cannot be relative to several referrers), HttpFilesystemLoader over http.FS(MapFS) with and without baseDir (names from the root). Also with one shipped loader per virtual loader in one set (LocalFilesystemLoaders with different base directories, FSLoaders, HttpFilesystemLoaders; entry fetched with FromFile or FromCache): the first loader that has a name wins. Oracle: the reference composition of the virtual case; a name that does not exist is an error unless guarded by if_exists. Non-trivial: at least two references.",
	Gen: func(t *rapid.T) any {
		vc := genC11(t)
		// one loader: the first loader that has a name wins
		flat := map[string]c11File{}
		for i := len(vc.Loaders) - 1; i >= 0; i-- {
			for n, f := range vc.Loaders[i] {
				flat[n] = f
			}
		}
		cs := &c11RealCase{Case: &c11Case{Loaders: []map[string]c11File{flat}, Root: vc.Root}, Kind: pick(t, "kind", []string{"local", "localbase", "fs", "http", "httpbase", "localbase+", "fs+", "http+"}), Unrooted: drawBool(t, "unrooted")}
		if strings.HasSuffix(cs.Kind, "+") {
			cs.Case = vc // every virtual loader becomes a shipped loader of its own
		}
		for _, flat := range cs.Case.Loaders {
			if cs.Kind != "fs" && cs.Kind != "fs+" {
				break
			}
			for n, f := range flat {
				var items []c11Item
				for _, it := range f.Items {
					switch it.Kind {
					case "lazy":
						var idx int
						fmt.Sscanf(it.Text, "n%d", &idx)
						it.Kind, it.Ref, it.Text = "include", c11Names[idx], ""
					case "lazyrel":
						it.Kind = "include"
					case "lazyloop":
						continue
					}
					items = append(items, it)
				}
				f.Items = items
				flat[n] = f
			}
		}
		return cs
	},
	New:   func() any { return &c11RealCase{} },
	Check: checkC11Real,
})

func TestC11Shipped(t *testing.T) { runProp(t, "C11.shipped") }
