package props

// C19: filters are applied in written order, everywhere filters can be written.

import (
	"fmt"
	"math"
	"strconv"
	"strings"
	"sync"
	"testing"

	"github.com/flosch/pongo2/v6"
	"pgregory.net/rapid"
)

type c19P struct {
	K string `json:"k"` // int str name path bound sub subf call arr
	I int    `json:"i,omitempty"`
	S string `json:"s,omitempty"`
}

type c19F struct {
	Name     string `json:"name"`
	HasParam bool   `json:"has_param,omitempty"`
	P        c19P   `json:"p"`
}

type c19Case struct {
	In    c19P   `json:"in"` // int / str literal or name
	Chain []c19F `json:"chain"`
	Pos   string `json:"pos"`
	Bound string `json:"bound,omitempty"` // how the "bound" parameter name p1 is introduced: with for set
	BVal  c19P   `json:"bval"`            // its value (int / str literal)
	BVal2 c19P   `json:"bval2"`           // second value (Bound == "for2")
	Neg   bool   `json:"neg,omitempty"`   // unary minus in front (numeric positions only)
	Body  string `json:"body,omitempty"`  // filter tag: body kind
	// filter tag with literal parameters only: autoescaping left on (literals of the template are
	// not context text, the chain must still equal the ApplyFilter fold)
	AutoOn bool `json:"auto_on,omitempty"`
}

func c19Context() pongo2.Context {
	return pongo2.Context{
		"s": "Hello World", "e": "", "n": 5, "z": 0, "f": 2.5, "l": []string{"b", "a", "c"}, "li": []int{3, 1, 2}, "nilv": nil, "tm": zTime,
		"cfg": map[string]any{"sep": ", ", "w": 7, "fmt": "%v", "two": 2}, "html": "<b>x</b> & y", "items": []string{"i0", "i1", "i2", "i3"}, "plist": []int{4},
		"words": "the quick brown fox jumps", "seps": []string{",", " ", "o", "World"},
		// names are case-sensitive: these are ordinary names, not keywords
		"OR": "or-value", "IN": "in-value", "As": "as-value", "Not": "not-value", "TRUE": "true-value", "Export": "export-value", "AND": 7,
		"echo": func(v *pongo2.Value) *pongo2.Value { return v },
		"pick": func(i int) string {
			seps := []string{",", " ", "o", "World"}
			if i >= 0 && i < len(seps) {
				return seps[i]
			}
			return ""
		},
	}
}

func (p c19P) src() string {
	switch p.K {
	case "int":
		return strconv.Itoa(p.I)
	case "str":
		return `"` + p.S + `"`
	case "bound":
		return "p1"
	case "sub": // subscript with a literal index
		return fmt.Sprintf("seps[%d]", p.I)
	case "subf": // subscript whose index is itself a filtered expression
		return fmt.Sprintf("seps[z|add:%d]", p.I)
	case "call": // function call
		return fmt.Sprintf("pick(%d)", p.I)
	case "arr": // array literal naming the enclosing scope's variable
		return `[p1, "-"]`
	}
	return p.S // name or dotted path
}

// value of a parameter / input in the reference scope
func (cs *c19Case) value(p c19P) *pongo2.Value {
	ctx := c19Context()
	switch p.K {
	case "int":
		return pongo2.AsValue(p.I)
	case "str":
		return pongo2.AsValue(p.S)
	case "bound":
		return cs.value(cs.BVal)
	case "sub", "subf", "call":
		seps := []string{",", " ", "o", "World"}
		if p.I >= 0 && p.I < len(seps) {
			return pongo2.AsValue(seps[p.I])
		}
		return pongo2.AsValue(nil)
	case "arr":
		return pongo2.AsValue([]any{cs.value(cs.BVal).Interface(), "-"})
	case "path":
		parts := strings.Split(p.S, ".")
		m, _ := ctx[parts[0]].(map[string]any)
		return pongo2.AsValue(m[parts[1]])
	}
	return pongo2.AsValue(ctx[p.S])
}

func (cs *c19Case) chainSrc() string {
	var sb strings.Builder
	for i, f := range cs.Chain {
		if i > 0 {
			sb.WriteByte('|')
		}
		sb.WriteString(f.Name)
		if f.HasParam {
			sb.WriteString(":" + f.P.src())
		}
	}
	return sb.String()
}

func (cs *c19Case) exprSrc() string {
	s := cs.In.src()
	if len(cs.Chain) > 0 {
		s += "|" + cs.chainSrc()
	}
	return s
}

// fold: the reference — left-to-right composition through the public ApplyFilter
func (cs *c19Case) fold(start *pongo2.Value) (*pongo2.Value, error) {
	acc := start
	for _, f := range cs.Chain {
		var param *pongo2.Value
		if f.HasParam {
			param = cs.value(f.P)
		}
		v, err := pongo2.ApplyFilter(f.Name, acc, param)
		if err != nil {
			return nil, err
		}
		acc = v
	}
	return acc, nil
}

var c19Positions = []string{"output", "if", "elif", "for", "with", "with_rebind", "with_as", "set", "include_with", "firstof", "ifequal", "widthratio", "macro_arg", "macro_default", "subscript",
	"filter_tag", "plus_operand", "neg", "cycle", "ifchanged", "array_item", "array_index", "call_arg", "eq_operand", "not", "in_right", "macro_default_shadowed", "macro_arg_over_default"}

func printItems(v *pongo2.Value) string {
	var sb strings.Builder
	v.IterateOrder(func(idx, count int, key, value *pongo2.Value) bool {
		sb.WriteString("[" + pongo2.AsValue(key.Interface()).String() + "]")
		return true
	}, func() { sb.WriteString("EMPTY") }, false, false)
	return sb.String()
}

func (cs *c19Case) build() (files map[string]string, expect func(v *pongo2.Value) string, start *pongo2.Value) {
	e := cs.exprSrc()
	files = map[string]string{"/p.tpl": "{% autoescape off %}<{{ x }}>{% endautoescape %}"}
	start = cs.value(cs.In)
	var src string
	switch cs.Pos {
	case "output":
		src = "{{ " + e + " }}"
		expect = func(v *pongo2.Value) string { return v.String() }
	case "if":
		src = "{% if " + e + " %}T{% else %}F{% endif %}"
		expect = func(v *pongo2.Value) string { return map[bool]string{true: "T", false: "F"}[v.IsTrue()] }
	case "elif":
		src = "{% if 0 %}x{% elif " + e + " %}T{% else %}F{% endif %}"
		expect = func(v *pongo2.Value) string { return map[bool]string{true: "T", false: "F"}[v.IsTrue()] }
	case "for":
		src = "{% for it in " + e + " %}[{{ it }}]{% empty %}EMPTY{% endfor %}"
		expect = printItems
	case "with":
		src = "{% with w=" + e + " %}{{ w }}{% endwith %}"
		expect = func(v *pongo2.Value) string { return v.String() }
	case "with_rebind":
		// the same tag rebinds every name the expression may read: each pair is evaluated in the
		// scope the tag stands in, not in the one it builds
		src = `{% with s="RB" n=99 w=` + e + ` z=77 e="RB2" f=1 p1="RB3" html="RB4" l="RB5" words="RB6" nilv="RB7" li="RB8" %}{{ w }}{% endwith %}`
		expect = func(v *pongo2.Value) string { return v.String() }
	case "with_as":
		src = "{% with " + e + " as w %}{{ w }}{% endwith %}"
		expect = func(v *pongo2.Value) string { return v.String() }
	case "set":
		src = "{% set w = " + e + " %}{{ w }}"
		expect = func(v *pongo2.Value) string { return v.String() }
	case "include_with":
		src = `{% include "/p.tpl" with x=` + e + ` %}`
		expect = func(v *pongo2.Value) string { return "<" + v.String() + ">" }
	case "firstof":
		src = `{% firstof ` + e + ` "fallback" %}`
		expect = func(v *pongo2.Value) string {
			if v.IsTrue() {
				return v.String()
			}
			return "fallback"
		}
	case "ifequal":
		src = `{% ifequal ` + e + ` 5 %}EQ{% else %}NE{% endifequal %}`
		expect = func(v *pongo2.Value) string {
			return map[bool]string{true: "EQ", false: "NE"}[v.EqualValueTo(pongo2.AsValue(5))]
		}
	case "widthratio":
		src = `{% widthratio ` + e + ` 10 100 %}`
		expect = func(v *pongo2.Value) string {
			x := v.Float() / 10 * 100
			if math.IsNaN(x) || math.IsInf(x, 0) || math.Abs(x) > 1e15 {
				return "?"
			}
			return strconv.Itoa(int(math.Floor(x + 0.5)))
		}
	case "macro_arg":
		src = "{% macro m(a) %}{{ a }}{% endmacro %}{{ m(" + e + ") }}"
		expect = func(v *pongo2.Value) string { return pongo2.AsValue(v.Interface()).String() }
	case "macro_default":
		src = "{% macro m(a=" + e + ") %}{{ a }}{% endmacro %}{{ m() }}"
		expect = func(v *pongo2.Value) string { return v.String() }
	case "macro_arg_over_default":
		// an argument that is passed is the parameter's value, whatever it evaluates to (also nothing)
		src = `{% macro m(a="DEFAULT") %}{{ a }}{% endmacro %}{{ m(` + e + `) }}`
		expect = func(v *pongo2.Value) string { return pongo2.AsValue(v.Interface()).String() }
	case "macro_default_shadowed":
		// the scope the macro is defined and called in happens to use the parameter's name
		src = `{% set a = "OUTER" %}{% macro m(a=` + e + `) %}{{ a }}{% endmacro %}{% with a="OUTER2" %}{{ m() }}{% endwith %}`
		expect = func(v *pongo2.Value) string { return v.String() }
	case "subscript":
		src = "{{ items[" + e + "] }}"
		expect = func(v *pongo2.Value) string {
			items := []string{"i0", "i1", "i2", "i3"}
			if i := v.Integer(); i >= 0 && i < len(items) {
				return items[i]
			}
			return ""
		}
	case "cycle":
		src = "{% cycle " + e + " %}"
		expect = func(v *pongo2.Value) string { return v.String() }
	case "ifchanged":
		src = "{% ifchanged " + e + " %}C{% endifchanged %}"
		expect = func(v *pongo2.Value) string { return "C" }
	case "plus_operand":
		src = "{{ 1 + " + e + " }}"
		expect = func(v *pongo2.Value) string {
			switch {
			case v.IsString():
				return "1" + v.String()
			case v.IsFloat():
				return fmt.Sprintf("%f", 1+v.Float())
			}
			return strconv.Itoa(1 + v.Integer())
		}
	case "neg":
		src = "{{ -" + e + " }}"
		expect = func(v *pongo2.Value) string {
			switch {
			case v.IsFloat():
				return fmt.Sprintf("%f", -1*v.Float())
			case v.IsInteger():
				return strconv.Itoa(-1 * v.Integer())
			}
			return "!error"
		}
	case "array_item":
		// an item of an array literal is an expression position like any other
		src = `{% for it in [` + e + `, "-"] %}[{{ it }}]{% endfor %}`
		expect = func(v *pongo2.Value) string { return "[" + pongo2.AsValue(v.Interface()).String() + "][-]" }
	case "array_index":
		src = `{% with arr=[0, ` + e + `] %}{{ arr.1 }}{% endwith %}`
		expect = func(v *pongo2.Value) string { return pongo2.AsValue(v.Interface()).String() }
	case "call_arg":
		src = "{{ echo(" + e + ") }}"
		expect = func(v *pongo2.Value) string { return v.String() }
	case "eq_operand":
		src = "{{ 5 == " + e + " }}"
		expect = func(v *pongo2.Value) string {
			return map[bool]string{true: "True", false: "False"}[pongo2.AsValue(5).EqualValueTo(v)]
		}
	case "not":
		src = "{% if not " + e + " %}T{% else %}F{% endif %}"
		expect = func(v *pongo2.Value) string { return map[bool]string{true: "T", false: "F"}[!v.IsTrue()] }
	case "in_right":
		src = `{% if "o" in ` + e + ` %}T{% else %}F{% endif %}`
		expect = func(v *pongo2.Value) string {
			return map[bool]string{true: "T", false: "F"}[v.Contains(pongo2.AsValue("o"))]
		}
	case "filter_tag":
		body, rendered := "", ""
		switch cs.Body {
		case "text":
			body, rendered = "Body Text", "Body Text"
		case "markup":
			body, rendered = "a&b <br> 'q' & \"d\"", "a&b <br> 'q' & \"d\""
		case "var":
			body, rendered = "x{{ n }}y", "x5y"
		case "empty":
		case "emptyvar":
			body = "{{ e }}"
		case "loop":
			body, rendered = "{% for q in l %}{{ q }}{% endfor %}", "bac"
		}
		if cs.Body == "recursive" {
			// one filter tag entered again while it is being executed (through a recursive macro):
			// every level applies the chain to its own rendered body
			src = "{% macro rec(k) %}{% filter " + cs.chainSrc() + " %}<{{ k }}{% if k > 0 %}{{ rec(k-1) }}{% endif %}>{% endfilter %}{% endmacro %}{{ rec(2) }}"
			expect = func(v *pongo2.Value) string { return v.String() }
			break
		}
		src = "{% filter " + cs.chainSrc() + " %}" + body + "{% endfilter %}"
		start = pongo2.AsValue(rendered)
		expect = func(v *pongo2.Value) string { return v.String() }
	}
	// a parameter name bound by an enclosing construct
	switch cs.Bound {
	case "with":
		src = "{% with p1=" + cs.BVal.src() + " %}" + src + "{% endwith %}"
	case "set":
		src = "{% set p1 = " + cs.BVal.src() + " %}" + src
	case "for":
		// loop over a one-element literal list holding the value
		src = "{% for p1 in [" + cs.BVal.src() + "] %}" + src + "{% endfor %}"
	case "for2":
		// the same compiled expression evaluated twice, with two values of the bound name
		src = "{% for p1 in [" + cs.BVal.src() + ", " + cs.BVal2.src() + "] %}" + src + "|{% endfor %}"
	}
	files["/root.tpl"] = "{% autoescape off %}" + src + "{% endautoescape %}"
	if cs.AutoOn {
		files["/root.tpl"] = src
	}
	return files, expect, start
}

func checkC19(c any, r *Rec) error {
	cs := c.(*c19Case)
	if cs.Pos == "filter_tag" && len(cs.Chain) == 0 {
		return skipf("the filter tag needs at least one filter")
	}
	files, expect, start := cs.build()
	src := files["/root.tpl"]
	set := pongo2.NewSet("c19", newMemLoader(files))
	tpl, err := set.FromFile("/root.tpl")
	if err != nil {
		// what is bound to fail when executed (a filter that rejects its literal input, the negation
		// of a non-number) may as well be refused when compiled
		if w, ferr := cs.fold(start); ferr != nil || expect(w) == "!error" {
			r.Class("rejected-at-compile-time")
			return nil
		}
		return fmt.Errorf("does not compile: %v\n src=%q", err, src)
	}
	got, xerr := tpl.Execute(c19Context())
	if cs.Pos == "with_rebind" {
		// the pairs of a with tag have no order: render a few more times
		for i := 0; i < 8; i++ {
			g2, e2 := tpl.Execute(c19Context())
			if g2 != got || (e2 == nil) != (xerr == nil) {
				return fmt.Errorf("the same template and context rendered %q / %v and then %q / %v\n src=%q", got, xerr, g2, e2, src)
			}
		}
	}
	if cs.Bound == "for2" {
		// two passes of the loop: the expectation is computed pass by pass
		var exp strings.Builder
		anyErr := false
		for _, bv := range []c19P{cs.BVal, cs.BVal2} {
			one := *cs
			one.BVal = bv
			_, expect1, start1 := one.build()
			w, ferr := one.fold(start1)
			if ferr != nil {
				anyErr = true
				break
			}
			e := expect1(w)
			if e == "?" || e == "!error" {
				return skipf("not comparable")
			}
			exp.WriteString(e + "|")
		}
		if anyErr {
			if xerr == nil {
				return fmt.Errorf("ApplyFilter composition fails in one pass but the template rendered %q\n src=%q", got, src)
			}
			return nil
		}
		if xerr != nil {
			return fmt.Errorf("unexpected error %v; pass-by-pass ApplyFilter composition gives %q\n src=%q", xerr, exp.String(), src)
		}
		if got != exp.String() {
			return fmt.Errorf("position %s evaluated twice in a loop: rendered %q, pass-by-pass ApplyFilter composition gives %q\n src=%q", cs.Pos, got, exp.String(), src)
		}
		r.Class("pos:" + cs.Pos)
		r.Class("two-passes")
		r.NonTrivial(src)
		return nil
	}
	want, ferr := cs.fold(start)
	if cs.Pos == "filter_tag" && cs.Body == "recursive" {
		inner := ""
		for k := 0; k <= 2 && ferr == nil; k++ {
			want, ferr = cs.fold(pongo2.AsValue(fmt.Sprintf("<%d%s>", k, inner)))
			if ferr == nil {
				inner = want.String()
			}
		}
	}
	if ferr != nil {
		if xerr == nil {
			return fmt.Errorf("ApplyFilter composition fails (%v) but the template rendered %q\n src=%q", ferr, got, src)
		}
		r.Class("filter-error")
		return nil
	}
	exp := expect(want)
	if exp == "?" {
		return skipf("not comparable")
	}
	if exp == "!error" {
		if xerr == nil {
			return fmt.Errorf("negating a non-number must be an error, rendered %q\n src=%q", got, src)
		}
		return nil
	}
	if xerr != nil {
		return fmt.Errorf("unexpected error %v; ApplyFilter composition gives %q\n src=%q", xerr, exp, src)
	}
	if got != exp {
		return fmt.Errorf("position %s: rendered %q, left-to-right ApplyFilter composition gives %q\n src=%q", cs.Pos, got, exp, src)
	}
	r.Class("pos:" + cs.Pos)
	r.Class(fmt.Sprintf("chainlen:%d", len(cs.Chain)))
	nt := cs.Bound != ""
	if len(cs.Chain) >= 2 {
		// does the order matter? apply the chain reversed
		rev := *cs
		rev.Chain = nil
		for i := len(cs.Chain) - 1; i >= 0; i-- {
			rev.Chain = append(rev.Chain, cs.Chain[i])
		}
		if rv, rerr := rev.fold(start); rerr != nil || rv.String() != want.String() {
			nt = true
			r.Class("order-matters")
		}
	}
	if nt {
		r.NonTrivial(src)
	}
	return nil
}

// ---- generator ------------------------------------------------------------------------

var c19Once sync.Once
var c19Deterministic []string

func c19Filters() []string {
	c19Once.Do(func() {
		probe := []any{"Hello World abc", []string{"x", "y", "z", "w"}, 12345}
		for _, name := range pongo2.VerifRegisteredFilters() {
			det := true
			for _, in := range probe {
				a, e1 := pongo2.ApplyFilter(name, pongo2.AsValue(in), nil)
				for k := 0; k < 6 && det; k++ {
					b, e2 := pongo2.ApplyFilter(name, pongo2.AsValue(in), nil)
					if (e1 == nil) != (e2 == nil) || (e1 == nil && a.String() != b.String()) {
						det = false
					}
				}
			}
			if det && !strings.HasPrefix(name, "verif_") {
				c19Deterministic = append(c19Deterministic, name)
			}
		}
	})
	return c19Deterministic
}

func genC19Param(t *rapid.T, bound bool) c19P {
	ks := []string{"int", "int", "str", "name", "path"}
	if bound {
		ks = append(ks, "bound", "bound")
	}
	switch pick(t, "pk", ks) {
	case "int":
		return c19P{K: "int", I: drawInt(t, 0, 12, "pi")}
	case "str":
		return c19P{K: "str", S: pick(t, "ps", []string{"", " ", ",", "x", "1:3", ":2", "o", "y,ies", "ja,nein", "b,i", "%v", "%5v", "2006-01-02", "World", "abc", "&", "<", "<br>", "a'b", "&amp;", ">"})}
	case "name":
		return c19P{K: "name", S: pick(t, "pn", []string{"n", "z", "s", "e", "f", "nilv", "undefinedname", "IN", "AND", "Not"})}
	case "path":
		if drawBool(t, "nested") {
			return c19P{K: pick(t, "nk", []string{"sub", "subf", "call"}), I: drawInt(t, 0, 3, "ni")}
		}
		return c19P{K: "path", S: pick(t, "pp", []string{"cfg.sep", "cfg.w", "cfg.fmt", "cfg.two", "cfg.missing"})}
	}
	if drawInt(t, 0, 3, "arr") == 0 {
		return c19P{K: "arr"}
	}
	return c19P{K: "bound"}
}

func genC19(t *rapid.T) *c19Case {
	fs := c19Filters()
	cs := &c19Case{Pos: pick(t, "pos", c19Positions)}
	switch drawInt(t, 0, 3, "ink") {
	case 0:
		cs.In = c19P{K: "int", I: drawInt(t, 0, 99, "ini")}
	case 1:
		cs.In = c19P{K: "str", S: pick(t, "ins", []string{"", "Abc Def", "a,b", "<i>x</i>", "12", "x y z w"})}
	default:
		cs.In = c19P{K: "name", S: pick(t, "inn", []string{"s", "e", "n", "z", "f", "l", "li", "nilv", "html", "words", "tm", "undefinedname", "OR", "IN", "As", "Not", "TRUE", "Export", "AND"})}
	}
	if drawInt(t, 0, 2, "bound") == 0 {
		cs.Bound = pick(t, "boundk", []string{"with", "for", "set", "for2", "for2"})
		cs.BVal = c19P{K: "int", I: drawInt(t, 0, 9, "bvi")}
		cs.BVal2 = c19P{K: "int", I: drawInt(t, 0, 9, "bvi2")}
		if drawBool(t, "bvs") {
			cs.BVal = c19P{K: "str", S: pick(t, "bvstr", []string{"o", ",", "World", "1:2"})}
			cs.BVal2 = c19P{K: "str", S: pick(t, "bvstr2", []string{"l", " ", "Hello", ":1"})}
		}
	}
	if cs.Bound == "for2" && cs.Pos == "ifchanged" {
		cs.Bound = "for" // ifchanged prints only when the value changed between the passes
	}
	n := drawInt(t, 0, 4, "chainlen")
	for i := 0; i < n; i++ {
		f := c19F{Name: pick(t, "f", fs)}
		if drawBool(t, "hasparam") {
			f.HasParam = true
			f.P = genC19Param(t, cs.Bound != "")
		}
		cs.Chain = append(cs.Chain, f)
	}
	// an array-literal parameter is only observable through a filter that hands it on: make it the
	// replacement value of "default" on an empty input and join it afterwards
	for i := range cs.Chain {
		if cs.Chain[i].HasParam && cs.Chain[i].P.K == "arr" {
			cs.In = c19P{K: "name", S: "nilv"}
			cs.Chain = []c19F{{Name: "default", HasParam: true, P: c19P{K: "arr"}}, {Name: "join", HasParam: true, P: c19P{K: "str", S: pick(t, "arrsep", []string{"", "+"})}}}
			break
		}
	}
	switch cs.Pos {
	case "filter_tag":
		cs.Body = pick(t, "body", []string{"text", "var", "empty", "emptyvar", "loop", "markup", "markup", "recursive"})
		if cs.Body == "recursive" && cs.Bound != "" {
			cs.Body = "text"
		}
		if len(cs.Chain) == 0 {
			cs.Chain = []c19F{{Name: pick(t, "f1", fs)}}
		}
		literalOnly := cs.Bound == ""
		for _, f := range cs.Chain {
			if f.HasParam && f.P.K != "int" && f.P.K != "str" {
				literalOnly = false
			}
		}
		cs.AutoOn = literalOnly && drawBool(t, "autoon")
	case "plus_operand", "neg", "subscript", "widthratio":
		// make the value numeric most of the time
		if drawInt(t, 0, 3, "numeric") > 0 {
			cs.Chain = append(cs.Chain, c19F{Name: pick(t, "numf", []string{"length", "integer", "wordcount", "float"})})
			if drawBool(t, "addafter") {
				cs.Chain = append(cs.Chain, c19F{Name: "add", HasParam: true, P: c19P{K: "int", I: drawInt(t, 0, 5, "addi")}})
			}
		}
		if cs.Pos == "neg" && drawBool(t, "literal") {
			cs.In = c19P{K: "int", I: drawInt(t, 0, 9, "negi")}
		}
	}
	return cs
}

var _ = register(&propSpec{
	ID:    "C19.chain",
	Rule:  "chains of 0-4 deterministic registered filters (registry read through the hook; filters that answer two identical calls differently are detected at start and left out) with literal / context-name / dotted-path / enclosing-scope (with, for, set) parameters over literal and named inputs of every kind, written at 28 positions: output, if, elif, for-in, with (both syntaxes; also with further pairs of the same tag rebinding every name the expression reads), set, include-with, firstof, ifequal, widthratio, macro argument (also for a parameter that has a default) and default (also where the surrounding scope binds the parameter's name), subscript, cycle, ifchanged, right operand of +, operand of unary minus, item of an array literal (iterated and indexed), function-call argument, right operand of == and of in, operand of not, and the filter tag (bodies: text, text with markup characters, variable, empty, empty variable, loop, and a body that re-enters the same filter tag through a recursive macro; with literal parameters only also under autoescape on, where the chain must still equal the fold - string literals include & < > '). Oracle: left-to-right fold of the public ApplyFilter with parameters taken from the reference scope, observed through the position's natural observation; a failing fold requires an execution error. Non-trivial: chain >= 2 whose reversal gives a different result, or a parameter from an enclosing scope; distinct by source.",
	Gen:   func(t *rapid.T) any { return genC19(t) },
	New:   func() any { return &c19Case{} },
	Check: checkC19,
})

func TestC19Chain(t *testing.T) { runProp(t, "C19.chain") }

// ---- unknown names never render silently; double registration is refused ----------------

type c19Unknown struct {
	// Name: the unregistered name ("" = verif_no_such_filter / verif_no_such_tag); names are
	// case-sensitive, so "Upper" or "LOREM" are as unregistered as any other
	Name string `json:"name,omitempty"`
	Kind string `json:"kind"` // filter tag
	Pos  string `json:"pos"`
	Body string `json:"body"`
	// Via: the offending template is pulled in by another one; if_exists forgives a missing file,
	// not an unregistered name inside an existing one
	Via string `json:"via,omitempty"` // "" | include | include_if_exists | lazy_include_if_exists | extends | import
}

func checkC19Unknown(c any, r *Rec) error {
	cs := c.(*c19Unknown)
	var src string
	lazyOK := false
	if cs.Kind == "tag" {
		wraps := map[string]string{"top": "%s", "if": "{% if 0 %}%s{% endif %}", "for": `{% for i in "" %}%s{% endfor %}`, "macro": "{% macro m() %}%s{% endmacro %}", "block": "{% block b %}%s{% endblock %}", "else": "{% if 1 %}x{% else %}%s{% endif %}"}
		tagName := "verif_no_such_tag"
		if cs.Name != "" {
			tagName = cs.Name
		}
		src = strings.Replace(wraps[cs.Pos], "%s", "{% "+tagName+" 1 w %}", 1)
	} else {
		filterName := "verif_no_such_filter"
		if cs.Name != "" {
			filterName = cs.Name
		}
		tmp := &c19Case{In: c19P{K: "name", S: "s"}, Chain: []c19F{{Name: filterName}}, Pos: cs.Pos, Body: cs.Body}
		if cs.Pos == "filter_tag_second" {
			tmp.Pos = "filter_tag"
			tmp.Chain = []c19F{{Name: "upper"}, {Name: filterName}}
		}
		files, _, _ := tmp.build()
		src = files["/root.tpl"]
		lazyOK = tmp.Pos == "filter_tag"
	}
	files := map[string]string{"/p.tpl": "x", "/u.tpl": src}
	root := src
	switch cs.Via {
	case "include":
		root = `A{% include "/u.tpl" %}Z`
	case "include_if_exists":
		root = `A{% include "/u.tpl" if_exists %}Z`
	case "lazy_include_if_exists":
		root = `A{% include lazyu if_exists %}Z`
		lazyOK = true // compiled when executed
	case "extends":
		files["/u.tpl"] = "{% block b %}" + src + "{% endblock %}"
		root = `{% extends "/u.tpl" %}`
	case "import":
		files["/u.tpl"] = "{% macro um() export %}" + src + "{% endmacro %}"
		root = `{% import "/u.tpl" um %}{{ um() }}`
	}
	set := pongo2.NewSet("c19u", newMemLoader(files))
	set.Globals["lazyu"] = "/u.tpl"
	tpl, err := set.FromString(root)
	src = root + " | " + src
	if err != nil {
		r.NonTrivial(src)
		return nil
	}
	if !lazyOK {
		return fmt.Errorf("a template using an unregistered %s compiled: %q", cs.Kind, src)
	}
	out, xerr := tpl.Execute(c19Context())
	if xerr == nil {
		return fmt.Errorf("the filter tag with an unregistered filter rendered silently (%q): %q", out, src)
	}
	r.NonTrivial(src)
	return nil
}

var _ = register(&propSpec{
	ID:   "C19.unknown",
	Rule: "an unregistered filter name planted at each of the 19 positions (and as first / second filter of the filter tag with every body kind) and an unregistered tag name at top level and inside if / else / for / macro / block bodies (also dead ones), in the template itself or in one it includes (also with if_exists, also lazily), extends or imports: compilation must fail; in the filter tag at the latest execution must fail and nothing may be rendered. Every case is non-trivial.",
	Gen: func(t *rapid.T) any {
		if drawInt(t, 0, 3, "tag") == 0 {
			cs := &c19Unknown{Kind: "tag", Pos: pick(t, "tpos", []string{"top", "if", "for", "macro", "block", "else"}), Name: pick(t, "tname", []string{"", "", "Lorem", "LOREM", "Now", "lorem_"})}
			if cs.Pos != "block" && cs.Pos != "macro" {
				cs.Via = pick(t, "via", []string{"", "", "include", "include_if_exists", "lazy_include_if_exists", "extends", "import"})
			}
			return cs
		}
		return &c19Unknown{Kind: "filter", Name: pick(t, "fname", []string{"", "", "Upper", "LOWER", "capFirst", "Safe", "upper_"}), Pos: pick(t, "fpos", append([]string{"filter_tag_second"}, c19Positions...)), Body: pick(t, "body", []string{"text", "var", "empty", "emptyvar", "loop"}),
			Via: pick(t, "via", []string{"", "", "include", "include_if_exists", "lazy_include_if_exists"})}
	},
	New:   func() any { return &c19Unknown{} },
	Check: checkC19Unknown,
})

func TestC19Unknown(t *testing.T) { runProp(t, "C19.unknown") }

func TestC19DoubleRegistration(t *testing.T) {
	fail := func(msg string) {
		fmt.Printf("VERIF-VIOLATION property=C19 spec=C19.unknown replay=- msg=%q\n", msg)
		t.Fatal(msg)
	}
	hijack := func(in, p *pongo2.Value) (*pongo2.Value, *pongo2.Error) { return pongo2.AsValue("HIJACKED"), nil }
	for _, name := range pongo2.VerifRegisteredFilters() {
		before, e1 := pongo2.ApplyFilter(name, pongo2.AsValue("probe text"), pongo2.AsValue(3))
		if err := pongo2.RegisterFilter(name, hijack); err == nil {
			fail("second registration of filter " + name + " was accepted")
		}
		after, e2 := pongo2.ApplyFilter(name, pongo2.AsValue("probe text"), pongo2.AsValue(3))
		if name != "random" && ((e1 == nil) != (e2 == nil) || (e1 == nil && before.String() != after.String())) {
			fail("filter " + name + " changed after a refused second registration")
		}
	}
	for _, name := range pongo2.VerifRegisteredTags() {
		err := pongo2.RegisterTag(name, func(doc *pongo2.Parser, start *pongo2.Token, args *pongo2.Parser) (pongo2.INodeTag, *pongo2.Error) {
			return probeTagNode{}, nil
		})
		if err == nil {
			fail("second registration of tag " + name + " was accepted")
		}
	}
	out, err := pongo2.NewSet("x", &memLoader{}).RenderTemplateString(`{% if 1 %}still-if{% endif %}{{ "x"|upper }}`, nil)
	if err != nil || out != "still-ifX" {
		fail(fmt.Sprintf("built-ins changed after refused registrations: %q %v", out, err))
	}
	if err := pongo2.RegisterFilter("verif_c19_fresh", hijack); err != nil {
		fail("registering a fresh filter name failed: " + err.Error())
	}
	if err := pongo2.RegisterFilter("verif_c19_fresh", hijack); err == nil {
		fail("registering the fresh filter name a second time was accepted")
	}
	if err := pongo2.RegisterTag("verif_c19_freshtag", func(doc *pongo2.Parser, start *pongo2.Token, args *pongo2.Parser) (pongo2.INodeTag, *pongo2.Error) {
		return probeTagNode{}, nil
	}); err != nil {
		fail("registering a fresh tag name failed: " + err.Error())
	}
	if err := pongo2.RegisterTag("verif_c19_freshtag", nil); err == nil {
		fail("registering the fresh tag name a second time was accepted")
	}
}
