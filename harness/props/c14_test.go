package props

// C14: Execute variants agree; ExecuteWriter is all-or-nothing.

import (
	"bytes"
	"errors"
	"fmt"
	"io"
	"reflect"
	"strings"
	"testing"

	"github.com/flosch/pongo2/v6"
	"pgregory.net/rapid"
)

type c14Case struct {
	Prog    *Program `json:"prog"`
	Variant int      `json:"variant"`
	Trim    bool     `json:"trim"`
	LStrip  bool     `json:"lstrip"`
	WErr    int      `json:"writer_error,omitempty"` // which error the failing caller's writer reports
	// BadKey: afterwards every variant is also run with a context the engine must reject (a key
	// that is no identifier): they must all refuse it, whatever the template consists of
	BadKey bool `json:"bad_key,omitempty"`
}

var c14BadKey bool // set while the bad-key round of a case runs

// plainWriter implements only io.Writer (no WriteString), records everything
type plainWriter struct{ buf []byte }

func (w *plainWriter) Write(p []byte) (int, error) { w.buf = append(w.buf, p...); return len(p), nil }

var errWriter = errors.New("caller's writer failed")

// whatever error the caller's writer reports is the caller's business: sentinel errors of the
// standard library are errors like any other
var c14WriterErrs = []error{errors.New("caller's writer failed"), io.EOF, io.ErrShortWrite, io.ErrUnexpectedEOF, io.ErrClosedPipe, fmt.Errorf("wrapped: %w", io.EOF), bytes.ErrTooLarge}

// failingWriter accepts n bytes and then fails
type failingWriter struct {
	n   int
	got []byte
}

func (w *failingWriter) Write(p []byte) (int, error) {
	if len(w.got)+len(p) > w.n {
		k := w.n - len(w.got)
		if k < 0 {
			k = 0
		}
		w.got = append(w.got, p[:k]...)
		return k, errWriter
	}
	w.got = append(w.got, p...)
	return len(p), nil
}

// richWriter is a failing writer that offers more than Write (as *os.File, *bufio.Writer or a
// network connection do): whichever way the bytes are handed over, its error is the caller's
type richWriter struct{ failingWriter }

func (w *richWriter) WriteString(s string) (int, error) { return w.Write([]byte(s)) }

func (w *richWriter) ReadFrom(r io.Reader) (int64, error) {
	b, err := io.ReadAll(r)
	if err != nil {
		return 0, err
	}
	n, werr := w.Write(b)
	return int64(n), werr
}

func (w *richWriter) WriteByte(c byte) error {
	_, err := w.Write([]byte{c})
	return err
}

// overrunWriter passes everything on but reports an error together with full progress
// (like a quota writer that notices the overrun after the fact)
type overrunWriter struct {
	limit int
	got   []byte
}

func (w *overrunWriter) Write(p []byte) (int, error) {
	w.got = append(w.got, p...)
	if len(w.got) > w.limit {
		return len(p), errWriter
	}
	return len(p), nil
}

// hiccupWriter fails exactly once, after having accepted part of the data, and works again afterwards
type hiccupWriter struct {
	after  int
	failed bool
	got    []byte
}

func (w *hiccupWriter) Write(p []byte) (int, error) {
	if !w.failed && len(w.got)+len(p) > w.after {
		w.failed = true
		k := w.after - len(w.got)
		if k < 0 {
			k = 0
		}
		if k == 0 && len(p) > 0 {
			k = 1
		}
		w.got = append(w.got, p[:k]...)
		return k, errWriter
	}
	w.got = append(w.got, p...)
	return len(p), nil
}

type c14Result struct {
	out string
	err error
}

func errText(e error) string {
	if e == nil {
		return "<nil>"
	}
	return e.Error()
}

// c14Shared: the data of the case's context, built once: the caller hands the SAME lists, maps and
// structs to every variant ("the same template and context"); only the tick functions, which carry
// the fault position, are made per call.
var c14Shared pongo2.Context

func c14Ctx(variant int, ts *tickState) pongo2.Context {
	ctx := progContext(variant, ts)
	for k, v := range c14Shared {
		if v != nil && reflect.TypeOf(v).Kind() == reflect.Func {
			continue
		}
		ctx[k] = v
	}
	return ctx
}

// runs all entry points with fault position k (0 = none) and checks agreement.
// Returns the Execute() result and the number of tick calls.
func c14RunAll(tpl *pongo2.Template, variant, k int, base *c14Result, partial string) (c14Result, int, error) {
	mk := func() (pongo2.Context, *tickState) {
		ts := &tickState{failAt: k}
		ctx := c14Ctx(variant, ts)
		if c14BadKey {
			ctx["not an identifier"] = 1
		}
		return ctx, ts
	}
	ctx, ts := mk()
	s, err := tpl.Execute(ctx)
	res := c14Result{s, err}
	ticks := ts.calls

	ctx, _ = mk()
	b, err2 := tpl.ExecuteBytes(ctx)
	if (err == nil) != (err2 == nil) || errText(err) != errText(err2) {
		return res, ticks, fmt.Errorf("fault k=%d: Execute err=%s but ExecuteBytes err=%s", k, errText(err), errText(err2))
	}
	if err == nil && string(b) != s {
		return res, ticks, fmt.Errorf("fault k=%d: Execute=%q ExecuteBytes=%q", k, s, b)
	}
	if err != nil && (s != "" || b != nil) {
		return res, ticks, fmt.Errorf("fault k=%d: failed execution returned output (%q / %q)", k, s, b)
	}

	// ExecuteWriter into three kinds of writers: nothing may arrive on failure
	writers := []struct {
		name string
		w    io.Writer
		get  func() string
	}{}
	pw := &plainWriter{}
	bb := &bytes.Buffer{}
	sb := &strings.Builder{}
	writers = append(writers,
		struct {
			name string
			w    io.Writer
			get  func() string
		}{"io.Writer", pw, func() string { return string(pw.buf) }},
		struct {
			name string
			w    io.Writer
			get  func() string
		}{"*bytes.Buffer", bb, func() string { return bb.String() }},
		struct {
			name string
			w    io.Writer
			get  func() string
		}{"*strings.Builder", sb, func() string { return sb.String() }},
	)
	for _, wr := range writers {
		ctx, _ = mk()
		e := tpl.ExecuteWriter(ctx, wr.w)
		if errText(e) != errText(err) {
			return res, ticks, fmt.Errorf("fault k=%d: Execute err=%s but ExecuteWriter(%s) err=%s", k, errText(err), wr.name, errText(e))
		}
		got := wr.get()
		if err != nil && got != "" {
			return res, ticks, fmt.Errorf("fault k=%d: ExecuteWriter(%s) failed (%v) but had already written %q", k, wr.name, e, got)
		}
		if err == nil && got != s {
			return res, ticks, fmt.Errorf("fault k=%d: ExecuteWriter(%s) wrote %q, Execute returned %q", k, wr.name, got, s)
		}
	}
	// ExecuteWriterUnbuffered: same verdict; on failure a prefix of the fault-free output
	for _, name := range []string{"io.Writer", "*bytes.Buffer"} {
		ctx, _ = mk()
		var w io.Writer
		var get func() string
		if name == "io.Writer" {
			p := &plainWriter{}
			w, get = p, func() string { return string(p.buf) }
		} else {
			p := &bytes.Buffer{}
			w, get = p, func() string { return p.String() }
		}
		e := tpl.ExecuteWriterUnbuffered(ctx, w)
		if errText(e) != errText(err) {
			return res, ticks, fmt.Errorf("fault k=%d: Execute err=%s but ExecuteWriterUnbuffered(%s) err=%s", k, errText(err), name, errText(e))
		}
		got := get()
		if err == nil && got != s {
			return res, ticks, fmt.Errorf("fault k=%d: ExecuteWriterUnbuffered(%s) wrote %q, Execute returned %q", k, name, got, s)
		}
		if err != nil && base != nil && !strings.HasPrefix(partial, got) {
			return res, ticks, fmt.Errorf("fault k=%d: ExecuteWriterUnbuffered(%s) wrote %q, which is not a leading part of the fault-free output %q", k, name, got, partial)
		}
	}
	return res, ticks, nil
}

func (w *failingWriter) taken() string { return string(w.got) }
func (w *overrunWriter) taken() string { return string(w.got) }
func (w *hiccupWriter) taken() string  { return string(w.got) }

// c14Unbuffered runs the unbuffered variant into w and returns a recovered panic, if any
func c14Unbuffered(tpl *pongo2.Template, variant int, w io.Writer) (pan any) {
	defer func() { pan = recover() }()
	_ = tpl.ExecuteWriterUnbuffered(c14Ctx(variant, &tickState{}), w)
	return nil
}

// c14Outcome: how an execution ends when the k-th call of a context function panics
func c14Outcome(tpl *pongo2.Template, variant, k int, entry string) (kind string) {
	defer func() {
		if p := recover(); p != nil {
			kind = "panic"
		}
	}()
	ctx := c14Ctx(variant, &tickState{failAt: k, panics: true})
	var err error
	switch entry {
	case "ExecuteBytes":
		_, err = tpl.ExecuteBytes(ctx)
	case "ExecuteWriter":
		err = tpl.ExecuteWriter(ctx, &bytes.Buffer{})
	case "ExecuteWriterUnbuffered":
		err = tpl.ExecuteWriterUnbuffered(ctx, &bytes.Buffer{})
	default:
		_, err = tpl.Execute(ctx)
	}
	if err != nil {
		return "error"
	}
	return "ok"
}

func checkC14(c any, r *Rec) error {
	cs := c.(*c14Case)
	errWriter = c14WriterErrs[cs.WErr%len(c14WriterErrs)]
	c14Shared = progContext(cs.Variant, nil)
	_, tpl, _, err := compileProgram(cs.Prog, cs.Trim, cs.LStrip)
	if err != nil {
		return skipf("program does not compile: %v | %q", err, cs.Prog.Files[cs.Prog.Entry])
	}
	src := cs.Prog.Files[cs.Prog.Entry]
	wrap := func(e error) error { return fmt.Errorf("%v\n root=%q", e, src) }
	// fault-free pass (also yields the unbuffered partial output when the program fails by itself)
	base, ticks, e := c14RunAll(tpl, cs.Variant, 0, nil, "")
	if e != nil {
		return wrap(e)
	}
	pw := &plainWriter{}
	_ = tpl.ExecuteWriterUnbuffered(c14Ctx(cs.Variant, &tickState{}), pw)
	partial := string(pw.buf)
	if base.err == nil && partial != base.out {
		return wrap(fmt.Errorf("unbuffered output %q differs from Execute %q", partial, base.out))
	}
	if ticks > 40 {
		ticks = 40
	}
	// fault enumeration: the k-th tick fails
	for k := 1; k <= ticks; k++ {
		res, _, e := c14RunAll(tpl, cs.Variant, k, &base, partial)
		if e != nil {
			return wrap(e)
		}
		if res.err == nil {
			return wrap(fmt.Errorf("fault k=%d of %d was injected but execution succeeded with %q", k, ticks, res.out))
		}
	}
	// after all those failures a fault-free run must give the original result again
	again, _, e := c14RunAll(tpl, cs.Variant, 0, nil, "")
	if e != nil {
		return wrap(fmt.Errorf("after failed executions: %v", e))
	}
	if again.out != base.out || errText(again.err) != errText(base.err) {
		return wrap(fmt.Errorf("after failed executions the fault-free result changed: %q/%s -> %q/%s", base.out, errText(base.err), again.out, errText(again.err)))
	}
	// failing caller's writer: ExecuteWriter must hand the writer's error back
	if base.err == nil && len(base.out) > 0 {
		for _, n := range []int{0, 1, len(base.out) / 2, len(base.out) - 1} {
			if n < 0 || n >= len(base.out) {
				continue
			}
			fw := &failingWriter{n: n}
			e := tpl.ExecuteWriter(c14Ctx(cs.Variant, &tickState{}), fw)
			if e == nil {
				return wrap(fmt.Errorf("caller's writer failed after %d bytes but ExecuteWriter returned nil", n))
			}
			if !errors.Is(e, errWriter) {
				return wrap(fmt.Errorf("caller's writer failed after %d bytes; ExecuteWriter returned %q, which is not the writer's error", n, e))
			}
			if !strings.HasPrefix(base.out, string(fw.got)) {
				return wrap(fmt.Errorf("failing writer received %q, not a prefix of %q", fw.got, base.out))
			}
			r.Add("writer_faults", 1)
			// a writer with WriteString / ReadFrom / WriteByte besides Write
			rw := &richWriter{failingWriter{n: n}}
			if e := tpl.ExecuteWriter(c14Ctx(cs.Variant, &tickState{}), rw); !errors.Is(e, errWriter) {
				return wrap(fmt.Errorf("caller's writer (one that also has WriteString, ReadFrom, WriteByte) failed after %d bytes; ExecuteWriter returned %v", n, e))
			}
			if !strings.HasPrefix(base.out, string(rw.got)) {
				return wrap(fmt.Errorf("failing writer received %q, not a prefix of %q", rw.got, base.out))
			}
			// the same position with writers that report the error together with progress
			ow := &overrunWriter{limit: n}
			if e := tpl.ExecuteWriter(c14Ctx(cs.Variant, &tickState{}), ow); !errors.Is(e, errWriter) {
				return wrap(fmt.Errorf("caller's writer reported an error together with a complete write (limit %d bytes); ExecuteWriter returned %v", n, e))
			}
			hw := &hiccupWriter{after: n}
			if e := tpl.ExecuteWriter(c14Ctx(cs.Variant, &tickState{}), hw); !errors.Is(e, errWriter) {
				return wrap(fmt.Errorf("caller's writer failed once after %d bytes (with progress) and ExecuteWriter returned %v", n, e))
			}
			r.Add("writer_faults", 2)
			// the unbuffered variant with the same failing writers: whether it reports the writer's
			// error is not stated (it "may have written something"), but it must come back, and what
			// the writer accepted is a leading part of the output
			for _, w := range []interface {
				io.Writer
				taken() string
			}{&failingWriter{n: n}, &overrunWriter{limit: n}, &hiccupWriter{after: n}} {
				if p := c14Unbuffered(tpl, cs.Variant, w); p != nil {
					return wrap(fmt.Errorf("ExecuteWriterUnbuffered with a caller's writer that fails after %d bytes (%T) panicked: %v", n, w, p))
				}
				if _, isHiccup := w.(*hiccupWriter); !isHiccup && !strings.HasPrefix(base.out, w.taken()) {
					return wrap(fmt.Errorf("ExecuteWriterUnbuffered with a failing writer (%T, %d bytes): the writer received %q, not a leading part of %q", w, n, w.taken(), base.out))
				}
			}
			r.Add("writer_faults", 3)
		}
	}
	if cs.BadKey {
		c14BadKey = true
		res, _, e := c14RunAll(tpl, cs.Variant, 0, nil, "")
		c14BadKey = false
		if e != nil {
			return wrap(fmt.Errorf("with a context key that is no identifier: %v", e))
		}
		if res.err == nil {
			return wrap(fmt.Errorf("a context with the key %q was accepted (rendered %q)", "not an identifier", res.out))
		}
		r.Class("bad-key-round")
	}
	// a caller-supplied function that panics: whatever the engine does with it (let it through,
	// turn it into an error), the four variants do the same
	if ticks > 0 {
		k := 1 + cs.Variant%ticks
		kinds := map[string]string{}
		for _, entry := range []string{"Execute", "ExecuteBytes", "ExecuteWriter", "ExecuteWriterUnbuffered"} {
			kinds[entry] = c14Outcome(tpl, cs.Variant, k, entry)
		}
		for _, entry := range []string{"ExecuteBytes", "ExecuteWriter", "ExecuteWriterUnbuffered"} {
			if kinds[entry] != kinds["Execute"] {
				return wrap(fmt.Errorf("a context function panics in its call %d: Execute ends with %q but %s with %q", k, kinds["Execute"], entry, kinds[entry]))
			}
		}
		r.Class("panicking-function:" + kinds["Execute"])
	}
	// the first execution of a freshly compiled template through the unbuffered entry point
	// must already agree (options such as TrimBlocks are not a side effect of the buffered paths)
	if _, fresh, _, err := compileProgram(cs.Prog, cs.Trim, cs.LStrip); err == nil {
		fw := &plainWriter{}
		e := fresh.ExecuteWriterUnbuffered(c14Ctx(cs.Variant, &tickState{}), fw)
		if errText(e) != errText(base.err) || (base.err == nil && string(fw.buf) != base.out) {
			return wrap(fmt.Errorf("ExecuteWriterUnbuffered as FIRST execution of a fresh template (TrimBlocks=%v LStripBlocks=%v) wrote %q / %s, Execute gives %q / %s", cs.Trim, cs.LStrip, fw.buf, errText(e), base.out, errText(base.err)))
		}
	}
	r.Add("tick_faults", ticks)
	if base.err != nil {
		r.Class("program-fails-by-itself")
	}
	if strings.Contains(src, "include") || strings.Contains(src, "ssi") {
		r.Class("with-include")
	}
	if ticks >= 2 {
		r.NonTrivial(fmt.Sprintf("%v|%d|%v|%v", cs.Prog.Files, cs.Variant, cs.Trim, cs.LStrip))
	}
	return nil
}

var _ = register(&propSpec{
	ID:   "C14.variants",
	Rule: "generated multi-file programs with {{ tick() }} outputs; for each program the number T of tick calls is measured and EVERY fault position k in 1..T (cap 40) is injected, plus a caller's writer failing after 0/1/mid/len-1 bytes (four failure styles, one of them a writer that also offers WriteString / ReadFrom / WriteByte; the reported error drawn from a custom error, io.EOF, io.ErrShortWrite, io.ErrUnexpectedEOF, io.ErrClosedPipe, a wrapped io.EOF, bytes.ErrTooLarge); Execute, ExecuteBytes, ExecuteWriter (io.Writer, *bytes.Buffer, *strings.Builder) and ExecuteWriterUnbuffered must agree on bytes and error text - they are handed the SAME lists, maps and structs, as a caller's context would (a third of the programs first print the context's lists in their own order) -, ExecuteWriter must have written nothing on failure, the unbuffered writer a prefix of the fault-free output, and a fault-free run after the failures must reproduce the original bytes; in a third of the cases every variant is also run with a context that must be rejected (a key that is no identifier) - all must refuse it, also for templates that are nothing but text. Non-trivial: T >= 2; distinct by program+context+options.",
	Gen: func(t *rapid.T) any {
		prog := genProgram(t, progOpts{ticks: true, includes: true, inherit: true, stateful: true, errProne: drawInt(t, 0, 4, "errprone") == 0, maxDepth: 3, maxNodes: 25})
		if drawInt(t, 0, 9, "textonly") == 0 {
			// degenerate shapes: nothing but literal text, a single variable, an empty template
			prog.Files[prog.Entry] = pick(t, "degenerate", []string{"just text\n", "", "{{ name }}", "a{# c #}b", "{% comment %}x{% endcomment %}"})
		}
		if src := prog.Files[prog.Entry]; !strings.Contains(src, "extends") && drawInt(t, 0, 2, "prologue") == 0 {
			// the lists of the context, printed in their own order before anything else is done with them
			prog.Files[prog.Entry] = `{{ items|join:"," }}|{{ nums|join:"," }}|{{ words|join:"," }}|` + src
		}
		return &c14Case{
			Prog:    prog,
			Variant: drawInt(t, 0, 11, "variant"),
			Trim:    drawBool(t, "trim"),
			LStrip:  drawBool(t, "lstrip"),
			WErr:    drawInt(t, 0, len(c14WriterErrs)-1, "writererr"),
			BadKey:  drawInt(t, 0, 2, "badkey") == 0,
		}
	},
	New:   func() any { return &c14Case{} },
	Check: checkC14,
})

func TestC14Variants(t *testing.T) { runProp(t, "C14.variants") }
