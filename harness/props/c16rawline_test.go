package props

// C16.rawline: for templates that live on the file system (LocalFilesystemLoader) Error.RawLine()
// hands the user "the affected line from the original template". It must be line e.Line of the
// file the error names, and the reported token must sit at e.Column in it.

import (
	"errors"
	"fmt"
	"os"
	"path/filepath"
	"strings"
	"sync/atomic"
	"testing"

	"github.com/flosch/pongo2/v6"
	"pgregory.net/rapid"
)

var c16RawSeq int64

func checkC16RawLine(c any, r *Rec) error {
	cs := c.(*c16Fault)
	root := filepath.Join(outDir(), fmt.Sprintf("c16raw-%d-%d", os.Getpid(), atomic.AddInt64(&c16RawSeq, 1)))
	defer os.RemoveAll(root)
	real := map[string]string{} // real path -> content
	for n, src := range cs.Files {
		for other := range cs.Files {
			src = strings.ReplaceAll(src, `"`+other+`"`, `"`+root+other+`"`)
		}
		real[root+n] = src
	}
	for p, src := range real {
		if err := os.MkdirAll(filepath.Dir(p), 0o755); err != nil {
			return skipf("cannot create directory: %v", err)
		}
		if err := os.WriteFile(p, []byte(src), 0o644); err != nil {
			return skipf("cannot write: %v", err)
		}
	}
	loader, err := pongo2.NewLocalFileSystemLoader("")
	if err != nil {
		return err
	}
	set := pongo2.NewSet("c16raw", loader)
	ctx := c16Context()
	ctx["lazyname"] = root + "/d/lazy.tpl"
	tpl, xerr := set.FromFile(root + "/root.tpl")
	if xerr == nil {
		_, xerr = tpl.Execute(ctx)
	}
	if xerr == nil {
		if !c16MustFail[cs.Kind] {
			return skipf("%s is accepted", cs.Kind)
		}
		return fmt.Errorf("planted fault %s in %s was not reported at all\n files=%q", cs.Kind, cs.File, real)
	}
	var e *pongo2.Error
	if !errors.As(xerr, &e) {
		return skipf("error carries no position information: %T", xerr)
	}
	if e.Line <= 0 {
		r.Class("no-position")
		return nil
	}
	line, ok, rerr := e.RawLine()
	src, known := real[e.Filename]
	if !known {
		// a file that does not exist (cannot happen with these faults) or a name outside the tree
		return fmt.Errorf("error with a position names %q, which is none of the files %v: %v", e.Filename, keysOfSS(real), e)
	}
	if rerr != nil || !ok {
		return fmt.Errorf("RawLine() of an error at line %d of the existing file %s: available=%v err=%v (%v)", e.Line, e.Filename, ok, rerr, e)
	}
	lines := strings.Split(src, "\n")
	if e.Line > len(lines) {
		return fmt.Errorf("error points to line %d of %s, which has %d lines: %v", e.Line, e.Filename, len(lines), e)
	}
	want := strings.TrimSuffix(lines[e.Line-1], "\r")
	if line != want {
		return fmt.Errorf("RawLine() = %q, line %d of %s is %q: %v", line, e.Line, e.Filename, want, e)
	}
	if e.Token != nil && e.Token.Typ != pongo2.TokenString && !e.Token.TrimWhitespaces {
		if e.Column < 1 || e.Column-1 > len(lines[e.Line-1]) || !strings.HasPrefix(lines[e.Line-1][e.Column-1:], e.Token.Val) {
			return fmt.Errorf("RawLine() = %q but the reported token %q is not at column %d of it: %v", line, e.Token.Val, e.Column, e)
		}
	}
	r.Class("fault:" + cs.Kind)
	if e.Line > 1 || e.Filename != root+"/root.tpl" {
		r.NonTrivial(fmt.Sprintf("%q|%s", cs.Files, cs.Kind))
	}
	return nil
}

func keysOfSS(m map[string]string) []string {
	var ks []string
	for k := range m {
		ks = append(ks, k)
	}
	sortStringsInPlace(ks)
	return ks
}

var _ = register(&propSpec{
	ID:    "C16.rawline",
	Rule:  "C16.fault's planted faults (22 kinds of lexer / parser / execution faults, in the root, an included, lazily included, extended or imported file, behind random multi-line / CRLF / multi-byte layout) written to a real temporary directory and loaded with LocalFilesystemLoader: Error.RawLine() must return exactly line e.Line of the file the error names, and the reported token's text must sit at e.Column of that line. Non-trivial: the position is beyond line 1 or in another file than the root.",
	Gen:   func(t *rapid.T) any { return genC16Fault(t) },
	New:   func() any { return &c16Fault{} },
	Check: checkC16RawLine,
})

func TestC16RawLine(t *testing.T) { runProp(t, "C16.rawline") }
