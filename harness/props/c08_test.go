package props

// C08: names resolve through maps, sequences, structs, pointers, methods, calls.

import (
	"errors"
	"fmt"
	"strconv"
	"strings"
	"testing"
	"unicode/utf8"

	"github.com/flosch/pongo2/v6"
	"pgregory.net/rapid"
)

// ---- struct kinds of the value zoo ------------------------------------------------
// "zs": E = [Name(str) In(zinner) PIn(zinner|nil) Any(any) M(mapSI) Count(int)], T = value|ptr|nilptr
// "zinner": E = [A(int) List(strs) Any(any)]

func buildZInner(v Val) ZInner {
	in := ZInner{A: int(v.E[0].I), b: "hidden", B: "TWIN-OF-b"}
	if l, ok := Build(v.E[1]).([]string); ok {
		in.List = l
	}
	in.Any = Build(v.E[2])
	return in
}

func init() {
	extraBuilders["zinner"] = func(v Val) any { return buildZInner(v) }
	extraBuilders["zs"] = func(v Val) any {
		if v.T == "nilptr" {
			return (*ZS)(nil)
		}
		s := ZS{Name: v.E[0].Str(), priv: "secret", Priv: "TWIN-OF-priv", In: buildZInner(v.E[1]), Any: Build(v.E[3]), Count: int(v.E[5].I)}
		if v.E[2].K == "zinner" {
			in := buildZInner(v.E[2])
			s.PIn = &in
		}
		if m, ok := Build(v.E[4]).(map[string]int); ok {
			s.M = m
		}
		if v.T == "ptr" {
			return &s
		}
		return s
	}
	for name := range c08Funcs {
		name := name
		extraBuilders["fn:"+name] = func(Val) any { return c08Funcs[name] }
	}
}

// ZT shares field names with ZS but has another layout
type ZT struct {
	ID    string
	Count int
	Name  string
}

func init() {
	extraBuilders["zt"] = func(v Val) any {
		t := ZT{ID: v.E[0].Str(), Name: v.E[1].Str(), Count: int(v.E[2].I)}
		if v.T == "ptr" {
			return &t
		}
		return t
	}
}

var c08Funcs = map[string]any{
	"add2":    func(a int, b int) int { return a + b },
	"cat":     func(xs ...string) string { return strings.Join(xs, "+") },
	"viaval":  func(v *pongo2.Value) *pongo2.Value { return v },
	"withctx": func(ctx *pongo2.ExecutionContext, s string) string { return "ctx:" + s },
	"ctx3": func(ctx *pongo2.ExecutionContext, a string, b string, n int) string {
		return a + "|" + b + "|" + strconv.Itoa(n)
	},
	"anyf": func(x any) string { return fmt.Sprintf("%T", x) },
	"pair": func(n int) (int, error) {
		if n < 0 {
			return 0, errors.New("negative")
		}
		return n * 2, nil
	},
	"mk":     func() map[string]any { return map[string]any{"k1": "made", "n": 3} },
	"retnil": func() any { return nil },
	"mixed":  func(s string, rest ...int) int { return len(s) + len(rest) },
}

type c08Step struct {
	Kind string `json:"kind"` // field index sub_int sub_str sub_var call
	Name string `json:"name,omitempty"`
	Idx  int    `json:"idx,omitempty"`
	Args []c08A `json:"args,omitempty"`
	Call bool   `json:"call,omitempty"` // field followed by (args)
}

type c08A struct {
	K string `json:"k"` // int str name
	I int    `json:"i,omitempty"`
	S string `json:"s,omitempty"`
}

type c08Case struct {
	Ctx   Val       `json:"ctx"`
	Root  string    `json:"root"`
	Steps []c08Step `json:"steps"`
	Obs   string    `json:"obs"` // print length if
}

func (a c08A) src() string {
	switch a.K {
	case "int":
		return strconv.Itoa(a.I)
	case "str":
		return `"` + a.S + `"`
	}
	return a.S
}

func (cs *c08Case) path() string {
	var sb strings.Builder
	sb.WriteString(cs.Root)
	for _, st := range cs.Steps {
		switch st.Kind {
		case "field":
			sb.WriteString("." + st.Name)
		case "index":
			sb.WriteString("." + strconv.Itoa(st.Idx))
		case "sub_int":
			sb.WriteString("[" + strconv.Itoa(st.Idx) + "]")
		case "sub_str":
			sb.WriteString(`["` + st.Name + `"]`)
		case "sub_var":
			sb.WriteString("[" + st.Name + "]")
		}
		if st.Call || st.Kind == "call" {
			var as []string
			for _, a := range st.Args {
				as = append(as, a.src())
			}
			sb.WriteString("(" + strings.Join(as, ", ") + ")")
		}
	}
	return sb.String()
}

// ---- reference resolver over descriptors ---------------------------------------------

type c08Out struct {
	kind string // val empty error
	v    Val
}

var (
	c08Empty = c08Out{kind: "empty"}
	c08Error = c08Out{kind: "error"}
)

func c08ArgVal(ctx Val, a c08A) (Val, bool) {
	switch a.K {
	case "int":
		return vInt(a.I), true
	case "str":
		return vStr(a.S), true
	}
	v, ok := ctx.Lookup(a.S)
	if !ok {
		return vNil(), true
	}
	return v, true
}

// call semantics of the fixed function zoo and of ZS's methods
func c08Call(ctx Val, fn string, recv Val, args []c08A) c08Out {
	var av []Val
	for _, a := range args {
		v, _ := c08ArgVal(ctx, a)
		av = append(av, v)
	}
	isInt := func(i int) bool { return i < len(av) && av[i].K == "int" }
	isStr := func(i int) bool { return i < len(av) && av[i].K == "str" }
	switch fn {
	case "add2":
		if len(av) != 2 || !isInt(0) || !isInt(1) {
			return c08Error
		}
		return c08Out{kind: "val", v: vInt(int(av[0].I + av[1].I))}
	case "cat":
		var parts []string
		for i := range av {
			if !isStr(i) {
				return c08Error
			}
			parts = append(parts, av[i].Str())
		}
		return c08Out{kind: "val", v: vStr(strings.Join(parts, "+"))}
	case "viaval":
		if len(av) != 1 {
			return c08Error
		}
		if av[0].K == "nil" {
			return c08Empty
		}
		return c08Out{kind: "val", v: av[0]}
	case "withctx":
		if len(av) != 1 || !isStr(0) {
			return c08Error
		}
		return c08Out{kind: "val", v: vStr("ctx:" + av[0].Str())}
	case "ctx3":
		if len(av) != 3 || !isStr(0) || !isStr(1) || !isInt(2) {
			return c08Error
		}
		return c08Out{kind: "val", v: vStr(av[0].Str() + "|" + av[1].Str() + "|" + strconv.Itoa(int(av[2].I)))}
	case "anyf":
		if len(av) != 1 {
			return c08Error
		}
		tn := map[string]string{"int": "int", "str": "string", "nil": "<nil>", "bool": "bool", "f64": "float64", "int64": "int64"}[av[0].K]
		if tn == "" {
			return c08Out{kind: "opaque"}
		}
		return c08Out{kind: "val", v: vStr(tn)}
	case "pair":
		if len(av) != 1 || !isInt(0) {
			return c08Error
		}
		if av[0].I < 0 {
			return c08Error
		}
		return c08Out{kind: "val", v: vInt(int(av[0].I * 2))}
	case "mk":
		if len(av) != 0 {
			return c08Error
		}
		return c08Out{kind: "val", v: Val{K: "mapSA", Ks: []Val{vStr("k1"), vStr("n")}, E: []Val{vStr("made"), vInt(3)}}}
	case "retnil":
		if len(av) != 0 {
			return c08Error
		}
		return c08Empty
	case "mixed":
		if len(av) < 1 || !isStr(0) {
			return c08Error
		}
		for i := 1; i < len(av); i++ {
			if !isInt(i) {
				return c08Error
			}
		}
		return c08Out{kind: "val", v: vInt(utf8.RuneCountInString(av[0].Str())*0 + len(av[0].Str()) + len(av) - 1)}
	// methods of ZS
	case "Greeting":
		if len(av) != 0 {
			return c08Error
		}
		return c08Out{kind: "val", v: vStr("greet:" + recv.E[0].Str())}
	case "Hello":
		if len(av) != 1 || !isStr(0) {
			return c08Error
		}
		return c08Out{kind: "val", v: vStr("hello " + av[0].Str())}
	case "PHello":
		if len(av) != 0 {
			return c08Error
		}
		return c08Out{kind: "val", v: vStr("phello " + recv.E[0].Str())}
	case "Var":
		for i := range av {
			if !isInt(i) {
				return c08Error
			}
		}
		return c08Out{kind: "val", v: vInt(len(av))}
	case "WithErr":
		if len(av) != 1 || av[0].K != "bool" {
			return c08Error
		}
		if av[0].Bo {
			return c08Error
		}
		return c08Out{kind: "val", v: vStr("noerr")}
	}
	return c08Error
}

var c08Methods = map[string]bool{"Greeting": true, "Hello": true, "Var": true, "WithErr": true, "Val": true}

func c08Resolve(cs *c08Case) c08Out {
	cur, found := cs.Ctx.Lookup(cs.Root)
	if !found {
		cur = vNil()
	}
	fnName := func(v Val) (string, bool) {
		if strings.HasPrefix(v.K, "fn:") {
			return strings.TrimPrefix(v.K, "fn:"), true
		}
		return "", false
	}
	i := 0
	rootCall := len(cs.Steps) > 0 && cs.Steps[0].Kind == "call"
	if name, ok := fnName(cur); ok {
		// a function value is always called: with the written arguments or with none
		var args []c08A
		if rootCall {
			args = cs.Steps[0].Args
			i = 1
		}
		out := c08Call(cs.Ctx, name, Val{}, args)
		if out.kind != "val" {
			return out
		}
		cur = out.v
	} else if rootCall {
		if !found {
			return c08Empty // an unknown name is empty, whatever follows
		}
		return c08Error // calling something that is not a function
	}
	for ; i < len(cs.Steps); i++ {
		st := cs.Steps[i]
		if cur.K == "nil" {
			return c08Empty
		}
		if cur.K == "zs" && cur.T == "nilptr" {
			if st.Kind == "field" && st.Name == "PHello" {
				return c08Out{kind: "opaque"} // pointer-receiver method on a nil pointer: user code decides
			}
			return c08Empty
		}
		present := true // did the step find an entry (even a nil one)?
		var next Val
		switch st.Kind {
		case "field", "sub_str":
			name := st.Name
			switch cur.K {
			case "zs":
				if st.Kind == "field" && (c08Methods[name] || name == "PHello" && cur.T == "ptr") {
					if name == "Val" {
						return c08Out{kind: "opaque"}
					}
					out := c08Call(cs.Ctx, name, cur, st.Args)
					if out.kind != "val" {
						return out
					}
					cur = out.v
					continue
				}
				idx := map[string]int{"Name": 0, "In": 1, "PIn": 2, "Any": 3, "M": 4, "Count": 5}
				if j, ok := idx[name]; ok {
					next = cur.E[j]
				} else {
					present = false // unexported or unknown field
				}
			case "zinner":
				idx := map[string]int{"A": 0, "List": 1, "Any": 2}
				if j, ok := idx[name]; ok {
					next = cur.E[j]
				} else {
					present = false
				}
			case "zt":
				idx := map[string]int{"ID": 0, "Name": 1, "Count": 2}
				if j, ok := idx[name]; ok {
					next = cur.E[j]
				} else {
					present = false
				}
			case "mapSA", "mapSI", "mapSS":
				if v, ok := cur.Lookup(name); ok {
					next = v
				} else {
					present = false
				}
			case "mapIA", "mapIS":
				present = false // a string can never be a key of this map
			default:
				if (seqKind(cur) || cur.K == "str") && st.Kind == "sub_str" {
					return c08Out{kind: "opaque"} // string subscripts on sequences / strings: not fixed
				}
				return c08Error // field on a scalar / sequence
			}
		case "index", "sub_int", "sub_var":
			n := st.Idx
			if st.Kind == "sub_var" {
				v, ok := cs.Ctx.Lookup(st.Name)
				if ok && v.K == "f64" && v.Float() != float64(int(v.Float())) && strings.HasPrefix(cur.K, "map") {
					return c08Empty // a non-integral float is not a key of any of these maps
				}
				if !ok || v.K != "int" {
					return c08Out{kind: "opaque"}
				}
				n = int(v.I)
			}
			switch {
			case seqKind(cur):
				if n >= 0 && n < len(cur.E) {
					next = cur.E[n]
				} else {
					present = false
				}
			case cur.K == "mapIA" || cur.K == "mapIS":
				if st.Kind == "index" {
					return c08Out{kind: "opaque"} // .N on a map: not fixed
				}
				present = false
				for j, k := range cur.Ks {
					if int(k.I) == n {
						next, present = cur.E[j], true
					}
				}
			case cur.K == "mapSA" || cur.K == "mapSI" || cur.K == "mapSS":
				if st.Kind == "index" {
					return c08Out{kind: "opaque"}
				}
				present = false // an int can never be a key of this map
			case cur.K == "str":
				return c08Out{kind: "opaque"} // indexing a string: not fixed
			case cur.K == "zs" || cur.K == "zinner":
				if st.Kind == "index" {
					return c08Error
				}
				present = false // subscript on a struct = field named "<n>"
			default:
				return c08Error // index on a scalar
			}
		default:
			return c08Out{kind: "opaque"}
		}
		if !present {
			return c08Empty // also when a call follows: nothing there, nothing to call
		}
		cur = next
		if name, ok := fnName(cur); ok {
			out := c08Call(cs.Ctx, name, Val{}, st.Args)
			if out.kind != "val" {
				return out
			}
			cur = out.v
		} else if st.Call {
			return c08Error // an existing value that is not a function was called
		}
	}
	if cur.K == "nil" {
		return c08Empty
	}
	return c08Out{kind: "val", v: cur}
}

// ---- observation ---------------------------------------------------------------------

func c08Len(v Val) (int, bool) {
	switch {
	case v.K == "str":
		return utf8.RuneCountInString(v.Str()), true
	case seqKind(v):
		return len(v.E), true
	case strings.HasPrefix(v.K, "map"):
		return len(v.Ks), true
	case v.K == "nil", v.IsIntKind(), v.K == "bool", v.IsFloatKind(), v.K == "zs", v.K == "zinner", v.K == "zt":
		return 0, true
	}
	return 0, false
}

func checkC08(c any, r *Rec) error {
	cs := c.(*c08Case)
	want := c08Resolve(cs)
	if want.kind == "opaque" {
		return skipf("path enters behaviour that neither the property nor a fixture fixes")
	}
	path := cs.path()
	var src string
	switch cs.Obs {
	case "length":
		src = "{{ " + path + "|length }}"
	case "if":
		src = "{% if " + path + " %}T{% else %}F{% endif %}"
	default:
		src = "{{ " + path + " }}"
	}
	set := pongo2.NewSet("c08", &memLoader{})
	tpl, err := set.FromString(src)
	if err != nil {
		return fmt.Errorf("path %q does not compile: %v", src, err)
	}
	got, xerr := tpl.Execute(BuildContext(cs.Ctx))
	desc := fmt.Sprintf("%s with ctx %s", src, descVal(cs.Ctx))
	// resolving a name must not change what it resolves to: the second evaluation sees the same
	got2, xerr2 := tpl.Execute(BuildContext(cs.Ctx))
	if got2 != got || errText(xerr2) != errText(xerr) {
		return fmt.Errorf("%s: first evaluation gave %q / %s, the second %q / %s", desc, got, errText(xerr), got2, errText(xerr2))
	}
	switch want.kind {
	case "error":
		if xerr == nil {
			return fmt.Errorf("%s: expected an execution error (wrong arity/type, failing function, or a step on a scalar), rendered %q", desc, got)
		}
		r.Class("outcome:error")
	case "empty", "val":
		if xerr != nil {
			return fmt.Errorf("%s: unexpected error %v (reference: %s %s)", desc, xerr, want.kind, descVal(want.v))
		}
		v := want.v
		if want.kind == "empty" {
			v = vNil()
		}
		if v.K == "zs" && v.T == "nilptr" {
			v = vNil()
		}
		var exp string
		switch cs.Obs {
		case "length":
			n, ok := c08Len(v)
			if !ok {
				return skipf("length of %s not modelled", v.K)
			}
			exp = strconv.Itoa(n)
		case "if":
			exp = "F"
			if refTruthy(v) {
				exp = "T"
			}
		default:
			s, ok := refPrintScalar(v)
			if !ok {
				return skipf("printing of %s not modelled", v.K)
			}
			exp = refEscapeHTML(s)
		}
		if got != exp {
			return fmt.Errorf("%s: rendered %q, the path denotes %s => %q", desc, got, descVal(v), exp)
		}
		r.Class("outcome:" + want.kind)
	}
	for _, st := range cs.Steps {
		r.Class("step:" + st.Kind)
	}
	multi := len(cs.Steps) >= 2
	for _, st := range cs.Steps {
		if len(st.Args) > 0 {
			multi = true
		}
	}
	if multi {
		r.NonTrivial(src + descVal(cs.Ctx))
	}
	return nil
}

// ---- generator: walk the descriptor --------------------------------------------------

func genC08Inner(t *rapid.T, l string) Val {
	return Val{K: "zinner", E: []Val{vInt(drawInt(t, 0, 9, l+".A")), genStrs(t, l+".List"), genC08Leaf(t, l+".Any")}}
}

func genStrs(t *rapid.T, l string) Val {
	v := Val{K: "strs"}
	for i := drawInt(t, 0, 3, l+".n"); i > 0; i-- {
		v.E = append(v.E, vStr(pick(t, l+".s", []string{"x", "yy", "é", ""})))
	}
	return v
}

func genC08Leaf(t *rapid.T, l string) Val {
	switch drawInt(t, 0, 5, l+".k") {
	case 0:
		return vStr(pick(t, l+".s", []string{"leaf", "", "a<b", "wörld"}))
	case 1:
		return vInt(drawInt(t, -3, 12, l+".i"))
	case 2:
		return vBool(drawBool(t, l+".b"))
	case 3:
		return vNil()
	case 4:
		return vF64(float64(drawInt(t, -4, 8, l+".f")) / 2)
	default:
		return genStrs(t, l+".l")
	}
}

func genC08ZS(t *rapid.T, l string, kind string) Val {
	v := Val{K: "zs", T: kind}
	if kind == "nilptr" {
		return v
	}
	pin := vNil()
	if drawBool(t, l+".haspin") {
		pin = genC08Inner(t, l+".PIn")
	}
	v.E = []Val{vStr(pick(t, l+".Name", []string{"Ann", "Bob", ""})), genC08Inner(t, l+".In"), pin, genC08Any(t, l+".Any", 1),
		{K: "mapSI", Ks: []Val{vStr("one"), vStr("two")}, E: []Val{vInt(1), vInt(2)}}, vInt(drawInt(t, 0, 5, l+".Count"))}
	return v
}

func genC08Any(t *rapid.T, l string, depth int) Val {
	if depth <= 0 {
		return genC08Leaf(t, l)
	}
	switch drawInt(t, 0, 6, l+".k") {
	case 0:
		m := Val{K: "mapSA"}
		for _, k := range []string{"k1", "k2", "list", "obj", "a b"} {
			if drawBool(t, l+".has_"+k) {
				m.Ks = append(m.Ks, vStr(k))
				m.E = append(m.E, genC08Any(t, l+"."+k, depth-1))
			}
		}
		return m
	case 1:
		m := Val{K: "mapIA"}
		for _, k := range []int{0, 1, 7} {
			if drawBool(t, fmt.Sprintf("%s.has%d", l, k)) {
				m.Ks = append(m.Ks, vInt(k))
				m.E = append(m.E, genC08Any(t, fmt.Sprintf("%s.%d", l, k), depth-1))
			}
		}
		return m
	case 2:
		a := Val{K: "anys"}
		for i := drawInt(t, 0, 3, l+".n"); i > 0; i-- {
			a.E = append(a.E, genC08Any(t, fmt.Sprintf("%s.e%d", l, i), depth-1))
		}
		return a
	case 3:
		return genC08ZS(t, l, pick(t, l+".zk", []string{"value", "ptr", "ptr", "nilptr"}))
	case 4:
		v := Val{K: pick(t, l+".ak", []string{"arrS", "parrS"})}
		for i := drawInt(t, 0, 3, l+".n"); i > 0; i-- {
			v.E = append(v.E, vStr(pick(t, l+".s", []string{"p", "q"})))
		}
		return v
	default:
		return genC08Leaf(t, l)
	}
}

func genC08Args(t *rapid.T, l string) []c08A {
	var as []c08A
	for i := drawInt(t, 0, 3, l+".n"); i > 0; i-- {
		switch drawInt(t, 0, 3, l+".k") {
		case 0:
			as = append(as, c08A{K: "int", I: drawInt(t, 0, 5, l+".i")})
		case 1:
			as = append(as, c08A{K: "str", S: pick(t, l+".s", []string{"x", "yo", ""})})
		default:
			as = append(as, c08A{K: "name", S: pick(t, l+".n", []string{"i", "s", "neg", "i64", "flag", "flagt", "undefinedarg"})})
		}
	}
	return as
}

func genC08(t *rapid.T) *c08Case {
	ctx := ctxVal("i", vInt(drawInt(t, 0, 4, "ctx.i")), "s", vStr("str"), "neg", vInt(-1), "i64", vIntK("int64", 5), "flag", vBool(false), "flagt", vBool(true),
		"idx", vInt(drawInt(t, -1, 3, "ctx.idx")), "key", vStr("k1"), "fidx", vF64(pick(t, "ctx.fidx", []float64{0.5, 1.5, 1.75, 7.25})))
	roots := []string{}
	for _, nm := range []string{"r1", "r2", "r3"} {
		ctx.Ks = append(ctx.Ks, vStr(nm))
		ctx.E = append(ctx.E, genC08Any(t, "ctx."+nm, 3))
		roots = append(roots, nm)
	}
	for name := range c08Funcs {
		_ = name
	}
	fnames := []string{"add2", "anyf", "cat", "ctx3", "mixed", "mk", "pair", "retnil", "viaval", "withctx"}
	for _, fn := range fnames {
		ctx.Ks = append(ctx.Ks, vStr(fn))
		ctx.E = append(ctx.E, Val{K: "fn:" + fn})
	}
	cs := &c08Case{Ctx: ctx, Obs: pickW(t, "obs", []string{"print", "length", "if"}, []int{5, 2, 2})}
	if drawInt(t, 0, 3, "fnroot") == 0 {
		cs.Root = pick(t, "fn", fnames)
		args := genC08Args(t, "rootargs")
		if drawInt(t, 0, 2, "validargs") > 0 {
			args = map[string][]c08A{
				"add2": {{K: "int", I: drawInt(t, 0, 9, "a1")}, {K: "name", S: "i"}}, "anyf": {{K: "name", S: pick(t, "anyarg", []string{"i", "s", "i64", "undefinedarg", "flag"})}},
				"cat": {{K: "str", S: "a"}, {K: "name", S: "s"}}, "mixed": {{K: "str", S: "ab"}, {K: "int", I: 1}, {K: "name", S: "i"}}, "mk": nil, "retnil": nil,
				"pair": {{K: "name", S: pick(t, "pairarg", []string{"i", "neg"})}}, "viaval": {{K: "name", S: pick(t, "vv", []string{"s", "i", "undefinedarg"})}}, "withctx": {{K: "str", S: "w"}},
				"ctx3": {{K: "name", S: "s"}, {K: "str", S: "x"}, {K: "int", I: drawInt(t, 0, 9, "c3")}},
			}[cs.Root]
		}
		cs.Steps = append(cs.Steps, c08Step{Kind: "call", Args: args})
	} else {
		cs.Root = pick(t, "root", append(roots, "undefined", "i", "s"))
	}
	// walk: choose steps guided by the descriptor so that valid paths are common, with occasional wrong turns
	cur, _ := cs.Ctx.Lookup(cs.Root)
	if strings.HasPrefix(cur.K, "fn:") {
		if o := c08Resolve(cs); o.kind == "val" {
			cur = o.v
		} else {
			cur = vNil()
		}
	}
	n := drawInt(t, 0, 4, "nsteps")
	for i := 0; i < n; i++ {
		wrong := drawInt(t, 0, 8, "wrong") == 0
		var st c08Step
		switch {
		case wrong:
			st = pick(t, "wrongstep", []c08Step{{Kind: "field", Name: "nosuch"}, {Kind: "field", Name: "priv"}, {Kind: "field", Name: "b"}, {Kind: "field", Name: "name"}, {Kind: "field", Name: "count"}, {Kind: "field", Name: "a"},
				{Kind: "field", Name: "list"}, {Kind: "field", Name: "greeting"}, {Kind: "field", Name: "hello", Call: true, Args: []c08A{{K: "str", S: "x"}}}, {Kind: "field", Name: "NAME"}, {Kind: "sub_str", Name: "name"}, {Kind: "sub_str", Name: "priv"}, {Kind: "sub_str", Name: "Greeting"}, {Kind: "sub_str", Name: "Hello"}, {Kind: "sub_str", Name: "Name"}, {Kind: "sub_str", Name: "Count"}, {Kind: "sub_str", Name: "PHello"}, {Kind: "index", Idx: 9}, {Kind: "sub_int", Idx: 9},
				{Kind: "sub_var", Name: "neg"}, {Kind: "sub_var", Name: "idx"}, {Kind: "sub_str", Name: "zz"}, {Kind: "field", Name: "Hello", Call: true}, {Kind: "field", Name: "k1", Call: true},
				{Kind: "field", Name: "Name", Call: true, Args: []c08A{{K: "int", I: 1}}}, {Kind: "field", Name: "Hello", Call: true, Args: []c08A{{K: "int", I: 1}}}})
		case cur.K == "zs" && cur.T != "nilptr":
			f := pick(t, "zsf", []string{"Name", "In", "PIn", "Any", "M", "Count", "Greeting", "Hello", "Var", "WithErr", "PHello"})
			st = c08Step{Kind: "field", Name: f}
			switch f {
			case "Greeting", "PHello":
				st.Call = drawBool(t, "parens")
			case "Hello":
				st.Call, st.Args = true, []c08A{{K: "str", S: "x"}}
				if drawInt(t, 0, 3, "viaarg") == 0 {
					st.Args = []c08A{{K: "name", S: "s"}}
				}
			case "Var":
				st.Call, st.Args = true, genC08Args(t, "varargs")
			case "WithErr":
				st.Call, st.Args = true, []c08A{{K: "name", S: pick(t, "we", []string{"flag", "flagt"})}}
			}
		case cur.K == "zinner":
			st = c08Step{Kind: "field", Name: pick(t, "inf", []string{"A", "List", "Any"})}
		case strings.HasPrefix(cur.K, "mapS") && len(cur.Ks) > 0:
			k := pick(t, "mk", cur.Ks).Str()
			if strings.Contains(k, " ") || drawBool(t, "viasub") {
				st = c08Step{Kind: "sub_str", Name: k}
			} else {
				st = c08Step{Kind: "field", Name: k}
			}
		case cur.K == "mapIA" && len(cur.Ks) > 0:
			st = c08Step{Kind: "sub_int", Idx: int(pick(t, "ik", cur.Ks).I)}
			if drawInt(t, 0, 3, "floatkey") == 0 {
				st = c08Step{Kind: "sub_var", Name: "fidx"}
			}
		case seqKind(cur) && len(cur.E) > 0:
			j := drawInt(t, 0, len(cur.E)-1, "j")
			st = pick(t, "seqstep", []c08Step{{Kind: "index", Idx: j}, {Kind: "sub_int", Idx: j}, {Kind: "sub_var", Name: "idx"}, {Kind: "sub_var", Name: "i"}})
		default:
			if drawInt(t, 0, 3, "stepOnScalar") != 0 {
				return cs // usually stop at a scalar / empty container
			}
			st = pick(t, "anystep", []c08Step{{Kind: "field", Name: "x"}, {Kind: "index", Idx: 0}, {Kind: "sub_int", Idx: 0}, {Kind: "field", Name: "Name"}})
		}
		cs.Steps = append(cs.Steps, st)
		if strings.HasPrefix(st.Kind, "sub_") {
			return cs // the grammar ends a name after a subscript: a[k].b is a syntax error
		}
		if o := c08Resolve(cs); o.kind == "val" {
			cur = o.v
		} else {
			break // the walk ended (empty / error / not modelled): maybe one more step on nothing
		}
	}
	if drawInt(t, 0, 6, "extra") == 0 {
		cs.Steps = append(cs.Steps, c08Step{Kind: "field", Name: "after"})
	}
	return cs
}

var _ = register(&propSpec{
	ID:    "C08.path",
	Rule:  "random nested context values (maps with string / int keys incl. keys that are no identifiers, []any, typed slices, by-value and pointer arrays, structs by value / pointer / nil pointer with exported and unexported fields, embedded struct values, pointer fields incl. nil, any-typed fields, methods on value and pointer receivers, variadic / error-returning methods, functions: fixed arity, variadic, mixed, *Value parameter, implicit *ExecutionContext, any parameter, (T, error) result, map result, nil result) and access paths generated by walking the descriptor (.key, .N, [int], [\"key\"], [variable], .Method, .Method(args), f(args)) with wrong turns (missing key, unexported field, index = 9 / -1 via variable, step on nil, step on a scalar, wrong arity / type, calling a non-function); observed as {{ p }}, {{ p|length }}, {% if p %}; compared with a reference resolver over the descriptor. Non-trivial: >= 2 steps or a call with arguments; distinct by path+context.",
	Gen:   func(t *rapid.T) any { return genC08(t) },
	New:   func() any { return &c08Case{} },
	Check: checkC08,
})

func TestC08Path(t *testing.T) { runProp(t, "C08.path") }

// ---- shadowing: tag bindings > context > globals ----------------------------------------

func TestC08Shadowing(t *testing.T) {
	set := pongo2.NewSet("c08s", &memLoader{})
	set.Globals["v"] = "global"
	set.Globals["only_global"] = "G"
	cases := []struct{ src, want string }{
		{`{{ v }}|{{ only_global }}`, "context|G"},
		{`{% with v="tag" %}{{ v }}{% endwith %}|{{ v }}`, "tag|context"},
		{`{% for v in "x" %}{{ v }}{% endfor %}|{{ v }}`, "x|context"},
		{`{% set v = "set" %}{{ v }}`, "set"},
		{`{% macro m(v) %}{{ v }}{% endmacro %}{{ m("arg") }}|{{ v }}`, "arg|context"},
		{`{% with only_global="w" %}{{ only_global }}{% endwith %}{{ only_global }}`, "wG"},
		// a tag binding shadows the context also when it binds nothing (omitted macro parameter, nil argument)
		{`{% macro m(v) %}[{{ v }}]{% endmacro %}{{ m() }}|{{ m(nothing) }}|{{ v }}`, "[]|[]|context"},
		{`{% macro m(only_global, v="d") %}[{{ only_global }}{{ v }}]{% endmacro %}{{ m() }}`, "[d]"},
	}
	for _, c := range cases {
		tpl, err := set.FromString(c.src)
		if err != nil {
			t.Fatal(err)
		}
		out, err := tpl.Execute(pongo2.Context{"v": "context"})
		if err != nil || out != c.want {
			fmt.Printf("VERIF-VIOLATION property=C08 spec=C08.path replay=- msg=%q\n", fmt.Sprintf("shadowing: %s rendered %q err=%v want %q", c.src, out, err, c.want))
			t.Fatalf("%s: got %q err=%v want %q", c.src, out, err, c.want)
		}
	}
}

// generated form of the same rule: which binding of a name does a read see?

type c08Shadow struct {
	Name   string   `json:"name"`
	Global bool     `json:"global"` // the set's Globals hold the name
	Ctx    bool     `json:"ctx"`    // the caller's context holds the name
	Binds  []string `json:"binds"`  // tags binding the name, outermost first: macro (outermost only) | with | for | set
	Read   string   `json:"read"`   // direct | include | lazyinclude | include-with | include-only | nested-include
}

func (cs *c08Shadow) source() string {
	read := "{{ " + cs.Name + " }}"
	switch cs.Read {
	case "include":
		read = `{% include "/r.tpl" %}`
	case "lazyinclude":
		read = `{% include incname %}`
	case "include-with":
		read = `{% include "/r.tpl" with ` + cs.Name + `="pair" %}`
	case "include-only":
		read = `{% include "/r.tpl" with unrelated=1 only %}`
	case "nested-include":
		read = `{% include "/rr.tpl" %}`
	}
	src := "[" + read + "]"
	for i := len(cs.Binds) - 1; i >= 0; i-- {
		val := fmt.Sprintf("b%d", i)
		switch cs.Binds[i] {
		case "with":
			src = `{% with ` + cs.Name + `="` + val + `" %}` + src + `{% endwith %}`
		case "for":
			src = `{% for ` + cs.Name + ` in ["` + val + `"] %}` + src + `{% endfor %}`
		case "set":
			src = `{% set ` + cs.Name + ` = "` + val + `" %}` + src
		case "macro":
			src = `{% macro mac(` + cs.Name + `) %}` + src + `{% endmacro %}{{ mac("` + val + `") }}`
		}
	}
	return src
}

func checkC08Shadow(c any, r *Rec) error {
	cs := c.(*c08Shadow)
	files := map[string]string{"/r.tpl": "{{ " + cs.Name + " }}", "/rr.tpl": `<{% include "/r.tpl" %}>`}
	files["/root.tpl"] = cs.source()
	set := pongo2.NewSet("c08shadow", newMemLoader(files))
	if cs.Global {
		set.Globals[cs.Name] = "GLB"
	}
	tpl, err := set.FromFile("/root.tpl")
	if err != nil {
		return fmt.Errorf("%q does not compile: %v", files["/root.tpl"], err)
	}
	outer := ""
	if cs.Global {
		outer = "GLB"
	}
	if cs.Ctx {
		outer = "CTX"
	}
	want := outer
	if len(cs.Binds) > 0 {
		want = fmt.Sprintf("b%d", len(cs.Binds)-1)
	}
	switch cs.Read {
	case "include-with":
		want = "pair"
	case "include-only":
		want = ""
		if cs.Global {
			want = "GLB"
		}
	case "nested-include":
		want = "<" + want + ">"
	}
	want = "[" + want + "]"
	for round := 0; round < 2; round++ {
		ctx := pongo2.Context{"incname": "/r.tpl"}
		if cs.Ctx {
			ctx[cs.Name] = "CTX"
		}
		got, xerr := tpl.Execute(ctx)
		if xerr != nil {
			return fmt.Errorf("%q: unexpected error %v", files["/root.tpl"], xerr)
		}
		if got != want {
			return fmt.Errorf("shadowing (tag bindings > context > globals): %q with global=%v context=%v rendered %q, want %q (render %d)", files["/root.tpl"], cs.Global, cs.Ctx, got, want, round+1)
		}
	}
	r.Class("read:" + cs.Read)
	if len(cs.Binds) > 0 && (cs.Ctx || cs.Global) {
		r.NonTrivial(fmt.Sprintf("%v|%v|%v|%s|%s", cs.Binds, cs.Global, cs.Ctx, cs.Read, cs.Name))
	}
	return nil
}

var _ = register(&propSpec{
	ID:   "C08.shadow",
	Rule: "one name held by any subset of {set Globals, caller context} and bound by 0-4 nested tags (macro parameter outermost, with, for, set), read directly or inside an included template (static, lazily named, nested two deep, with a pair of the same name, with only); the read must see the innermost tag binding, else the context entry, else the global, else nothing (a with-pair wins inside the include; with only the included template sees the pairs and the globals). Rendered twice. Non-trivial: at least one tag binding shadows a context entry or global.",
	Gen: func(t *rapid.T) any {
		cs := &c08Shadow{Name: pick(t, "name", []string{"v", "name", "k2", "Item"}), Global: drawBool(t, "global"), Ctx: drawBool(t, "ctx")}
		n := drawInt(t, 0, 4, "nbinds")
		for i := 0; i < n; i++ {
			kinds := []string{"with", "for", "set"}
			if i == 0 {
				kinds = append(kinds, "macro")
			}
			cs.Binds = append(cs.Binds, pick(t, "bind", kinds))
		}
		cs.Read = pick(t, "read", []string{"direct", "include", "lazyinclude", "include-with", "include-only", "nested-include"})
		return cs
	},
	New:   func() any { return &c08Shadow{} },
	Check: checkC08Shadow,
})

func TestC08Shadow(t *testing.T) { runProp(t, "C08.shadow") }

// ---- C08.hetero: one parsed path, applied to values of different Go types in one render ------

type c08Hetero struct {
	Elems []Val     `json:"elems"`
	Steps []c08Step `json:"steps"`
	Reps  int       `json:"reps"`
}

func checkC08Hetero(c any, r *Rec) error {
	cs := c.(*c08Hetero)
	ctx := ctxVal("hetero", Val{K: "anys", E: cs.Elems}, "s", vStr("str"), "i", vInt(1))
	var want strings.Builder
	expectErr := false
	for rep := 0; rep < cs.Reps; rep++ {
		for _, e := range cs.Elems {
			one := &c08Case{Ctx: ctxVal("it", e, "s", vStr("str"), "i", vInt(1)), Root: "it", Steps: cs.Steps}
			o := c08Resolve(one)
			switch o.kind {
			case "opaque":
				return skipf("not modelled")
			case "error":
				expectErr = true
			case "val":
				s, ok := refPrintScalar(o.v)
				if !ok {
					return skipf("non-scalar leaf")
				}
				want.WriteString(refEscapeHTML(s))
			}
			want.WriteString(";")
		}
	}
	probe := &c08Case{Root: "it", Steps: cs.Steps}
	src := strings.Repeat("{% for it in hetero %}{{ "+probe.path()+" }};{% endfor %}", cs.Reps)
	tpl, err := pongo2.NewSet("c08h", &memLoader{}).FromString(src)
	if err != nil {
		return fmt.Errorf("%q does not compile: %v", src, err)
	}
	for round := 0; round < 2; round++ {
		got, xerr := tpl.Execute(BuildContext(ctx))
		if expectErr {
			if xerr == nil {
				return fmt.Errorf("%s over %s: expected an execution error, rendered %q", src, descVal(ctx), got)
			}
			continue
		}
		if xerr != nil {
			return fmt.Errorf("%s over %s: unexpected error %v (want %q)", src, descVal(ctx), xerr, want.String())
		}
		if got != want.String() {
			return fmt.Errorf("%s over %s (render %d): got %q, each element resolved on its own gives %q", src, descVal(ctx), round+1, got, want.String())
		}
	}
	kinds := map[string]bool{}
	for _, e := range cs.Elems {
		kinds[e.K+e.T] = true
	}
	if len(kinds) >= 2 {
		r.NonTrivial(src + descVal(ctx))
	}
	return nil
}

var _ = register(&propSpec{
	ID:   "C08.hetero",
	Rule: "one parsed path ({{ it.Field }}, {{ it.In.A }}, {{ it.Greeting }}, {{ it.key }} ...) evaluated inside a loop over a []any holding values of DIFFERENT Go types with overlapping field / key / method names (two struct types with different layouts, by value and by pointer, nil pointer, string-keyed map, scalars), rendered twice: the output must be the concatenation of what each element yields when resolved on its own by the reference resolver. Non-trivial: >= 2 different element types.",
	Gen: func(t *rapid.T) any {
		cs := &c08Hetero{Reps: drawInt(t, 1, 2, "reps")}
		for i := drawInt(t, 2, 4, "n"); i > 0; i-- {
			switch drawInt(t, 0, 4, "ek") {
			case 0:
				cs.Elems = append(cs.Elems, genC08ZS(t, "zs", pick(t, "zk", []string{"value", "ptr", "nilptr"})))
			case 1:
				cs.Elems = append(cs.Elems, Val{K: "zt", T: pick(t, "ztk", []string{"value", "ptr"}), E: []Val{vStr("id7"), vStr(pick(t, "ztn", []string{"Tee", ""})), vInt(drawInt(t, 0, 9, "ztc"))}})
			case 2:
				m := Val{K: "mapSA"}
				for _, k := range []string{"Name", "Count", "ID", "In", "Greeting"} {
					if drawBool(t, "has"+k) {
						m.Ks = append(m.Ks, vStr(k))
						m.E = append(m.E, genC08Leaf(t, "mv"+k))
					}
				}
				cs.Elems = append(cs.Elems, m)
			case 3:
				cs.Elems = append(cs.Elems, vNil())
			default:
				cs.Elems = append(cs.Elems, genC08Inner(t, "inner"))
			}
		}
		switch drawInt(t, 0, 5, "path") {
		case 0:
			cs.Steps = []c08Step{{Kind: "field", Name: "Name"}}
		case 1:
			cs.Steps = []c08Step{{Kind: "field", Name: "Count"}}
		case 2:
			cs.Steps = []c08Step{{Kind: "field", Name: "ID"}}
		case 3:
			cs.Steps = []c08Step{{Kind: "field", Name: "In"}, {Kind: "field", Name: "A"}}
		case 4:
			cs.Steps = []c08Step{{Kind: "field", Name: "Greeting"}}
		default:
			cs.Steps = []c08Step{{Kind: "field", Name: "A"}}
		}
		return cs
	},
	New:   func() any { return &c08Hetero{} },
	Check: checkC08Hetero,
})

func TestC08Hetero(t *testing.T) { runProp(t, "C08.hetero") }
