package props

// A small template language (subset of pongo2's) with a printer to source
// and an independent reference interpreter. Shared by C09 (control flow),
// C12 (scoping) and C13 (macros).

import (
	"fmt"
	"sort"
	"strconv"
	"strings"

	"github.com/flosch/pongo2/v6"
)

type ME struct {
	K    string `json:"k"` // int str name eq ne lt not true false sub call
	I    int    `json:"i,omitempty"`
	S    string `json:"s,omitempty"`
	N    string `json:"n,omitempty"`
	L    *ME    `json:"l,omitempty"`
	R    *ME    `json:"r,omitempty"`
	Args []ME   `json:"args,omitempty"` // call: arguments (N = callee)
}

type MPair struct {
	Name string `json:"name"`
	E    ME     `json:"e"`
}

type MParam struct {
	Name string `json:"name"`
	Def  *ME    `json:"def,omitempty"`
}

type MElif struct {
	Cond ME      `json:"cond"`
	Body []MNode `json:"body"`
}

type MNode struct {
	K      string   `json:"k"` // text probe loopprobe with for set if ifequal ifnotequal firstof cycle ifchanged macro call include import
	Text   string   `json:"text,omitempty"`
	Name   string   `json:"name,omitempty"`  // probe name / set name / for var / macro name / cycle-as name / include file
	Name2  string   `json:"name2,omitempty"` // for: value var (k, v over maps)
	Field  string   `json:"field,omitempty"` // loopprobe: Counter, Parentloop.Counter0 ...
	E      *ME      `json:"e,omitempty"`
	E2     *ME      `json:"e2,omitempty"`
	Es     []ME     `json:"es,omitempty"` // firstof / cycle / ifchanged / call args
	Pairs  []MPair  `json:"pairs,omitempty"`
	Old    bool     `json:"old,omitempty"` // with: "expr as name" syntax
	Rev    bool     `json:"rev,omitempty"`
	Sorted bool     `json:"sorted,omitempty"`
	Silent bool     `json:"silent,omitempty"`
	Only   bool     `json:"only,omitempty"`
	Export bool     `json:"export,omitempty"`
	Body   []MNode  `json:"body,omitempty"`
	Alt    []MNode  `json:"alt,omitempty"`     // else / empty
	HasAlt bool     `json:"has_alt,omitempty"` // distinguishes an empty else from no else
	Elifs  []MElif  `json:"elifs,omitempty"`
	Params []MParam `json:"params,omitempty"`
	Imps   []MPair  `json:"imps,omitempty"` // import: Name=macro name, E.S = alias ("" = none)
	ID     int      `json:"id,omitempty"`   // identity of stateful nodes (cycle, ifchanged)
}

// ---- printing to source -----------------------------------------------------------

func (e *ME) Src() string {
	switch e.K {
	case "int":
		return strconv.Itoa(e.I)
	case "str":
		return `"` + strings.ReplaceAll(strings.ReplaceAll(e.S, `\`, `\\`), `"`, `\"`) + `"`
	case "name":
		return e.N
	case "true", "false":
		return e.K
	case "eq":
		return "(" + e.L.Src() + " == " + e.R.Src() + ")"
	case "ne":
		return "(" + e.L.Src() + " != " + e.R.Src() + ")"
	case "lt":
		return "(" + e.L.Src() + " < " + e.R.Src() + ")"
	case "not":
		return "(not " + e.L.Src() + ")"
	case "sub":
		return "(" + e.L.Src() + " - " + e.R.Src() + ")"
	case "call":
		var as []string
		for i := range e.Args {
			as = append(as, e.Args[i].Src())
		}
		return e.N + "(" + strings.Join(as, ", ") + ")"
	case "arr": // an array literal; Args = items
		var as []string
		for i := range e.Args {
			as = append(as, e.Args[i].Src())
		}
		return "[" + strings.Join(as, ", ") + "]"
	case "in":
		return "(" + e.L.Src() + " in " + e.R.Src() + ")"
	case "loopfield": // a field of the forloop the expression stands in
		return "forloop." + e.S
	}
	panic("ME.Src: " + e.K)
}

func mmSrc(ns []MNode) string {
	var sb strings.Builder
	for i := range ns {
		n := &ns[i]
		switch n.K {
		case "text":
			sb.WriteString(n.Text)
		case "probe":
			sb.WriteString("{{ " + n.E.Src() + " }}")
		case "loopprobe":
			sb.WriteString("{{ forloop." + n.Field + " }}")
		case "plainregion":
			// tags with a body that are no scope: what is bound inside stays bound behind them
			open, end := "{% autoescape on %}", "{% endautoescape %}"
			if n.Name == "spaceless" {
				open, end = "{% spaceless %}", "{% endspaceless %}"
			}
			sb.WriteString(open + mmSrc(n.Body) + end)
		case "with":
			sb.WriteString("{% with")
			for _, p := range n.Pairs {
				if n.Old {
					sb.WriteString(" " + p.E.Src() + " as " + p.Name)
				} else {
					sb.WriteString(" " + p.Name + "=" + p.E.Src())
				}
			}
			sb.WriteString(" %}" + mmSrc(n.Body) + "{% endwith %}")
		case "for":
			sb.WriteString("{% for " + n.Name)
			if n.Name2 != "" {
				sb.WriteString(", " + n.Name2)
			}
			sb.WriteString(" in " + n.E.Src())
			if n.Rev {
				sb.WriteString(" reversed")
			}
			if n.Sorted {
				sb.WriteString(" sorted")
			}
			sb.WriteString(" %}" + mmSrc(n.Body))
			if n.HasAlt {
				sb.WriteString("{% empty %}" + mmSrc(n.Alt))
			}
			sb.WriteString("{% endfor %}")
		case "set":
			sb.WriteString("{% set " + n.Name + " = " + n.E.Src() + " %}")
		case "if":
			sb.WriteString("{% if " + n.E.Src() + " %}" + mmSrc(n.Body))
			for _, el := range n.Elifs {
				sb.WriteString("{% elif " + el.Cond.Src() + " %}" + mmSrc(el.Body))
			}
			if n.HasAlt {
				sb.WriteString("{% else %}" + mmSrc(n.Alt))
			}
			sb.WriteString("{% endif %}")
		case "ifequal", "ifnotequal":
			sb.WriteString("{% " + n.K + " " + n.E.Src() + " " + n.E2.Src() + " %}" + mmSrc(n.Body))
			if n.HasAlt {
				sb.WriteString("{% else %}" + mmSrc(n.Alt))
			}
			sb.WriteString("{% end" + n.K + " %}")
		case "firstof":
			sb.WriteString("{% firstof")
			for _, e := range n.Es {
				sb.WriteString(" " + e.Src())
			}
			sb.WriteString(" %}")
		case "cycle":
			sb.WriteString("{% cycle")
			for _, e := range n.Es {
				sb.WriteString(" " + e.Src())
			}
			if n.Name != "" {
				sb.WriteString(" as " + n.Name)
				if n.Silent {
					sb.WriteString(" silent")
				}
			}
			sb.WriteString(" %}")
		case "ifchanged":
			sb.WriteString("{% ifchanged")
			for _, e := range n.Es {
				sb.WriteString(" " + e.Src())
			}
			sb.WriteString(" %}" + mmSrc(n.Body))
			if n.HasAlt {
				sb.WriteString("{% else %}" + mmSrc(n.Alt))
			}
			sb.WriteString("{% endifchanged %}")
		case "macro":
			var ps []string
			for _, p := range n.Params {
				if p.Def != nil {
					ps = append(ps, p.Name+"="+p.Def.Src())
				} else {
					ps = append(ps, p.Name)
				}
			}
			sb.WriteString("{% macro " + n.Name + "(" + strings.Join(ps, ", ") + ")")
			if n.Export {
				sb.WriteString(" export")
			}
			sb.WriteString(" %}" + mmSrc(n.Body) + "{% endmacro %}")
		case "call":
			var as []string
			for _, e := range n.Es {
				as = append(as, e.Src())
			}
			sb.WriteString("{{ " + n.Name + "(" + strings.Join(as, ", ") + ") }}")
		case "include":
			sb.WriteString(`{% include "` + n.Name + `"`)
			if len(n.Pairs) > 0 {
				sb.WriteString(" with")
				for _, p := range n.Pairs {
					sb.WriteString(" " + p.Name + "=" + p.E.Src())
				}
				if n.Only {
					sb.WriteString(" only")
				}
			}
			sb.WriteString(" %}")
		case "import":
			var is []string
			for _, im := range n.Imps {
				if im.E.S != "" {
					is = append(is, im.Name+" as "+im.E.S)
				} else {
					is = append(is, im.Name)
				}
			}
			sb.WriteString(`{% import "` + n.Name + `" ` + strings.Join(is, ", ") + ` %}`)
		default:
			panic("mmSrc: " + n.K)
		}
	}
	return sb.String()
}

// ---- reference interpreter -----------------------------------------------------------

type mLoop struct {
	counter, counter0, rev, rev0 int
	first, last                  bool
	parent                       *mLoop
}

type mClosure struct {
	n   *MNode
	def *mScope
	ip  *mInterp // the execution (public context) the macro was defined / imported in
}

type mCycle struct{ val any }

type mSafe struct{ s string } // already-escaped markup (macro results)

type mScope struct{ priv map[string]any }

func (s *mScope) child() *mScope {
	c := &mScope{priv: make(map[string]any, len(s.priv)+2)}
	for k, v := range s.priv {
		c.priv[k] = v
	}
	return c
}

type mErr struct{ msg string }

type mInterp struct {
	public  map[string]any     // context over globals
	globals map[string]any     // visible in every template of the set
	files   map[string][]MNode // included / imported files
	cycles  map[int]int        // per render: executions of each cycle node
	changed map[int][]string   // per render: last watched values of each ifchanged node
	seen    map[int]bool
	depth   int
}

func valToM(v Val) any {
	switch {
	case v.K == "nil" || v.K == "":
		return nil
	case v.K == "str":
		return v.Str()
	case v.K == "int":
		return int(v.I)
	case v.K == "bool":
		return v.Bo
	case v.K == "f64":
		return v.Float()
	case v.K == "ints":
		out := []int{}
		for _, e := range v.E {
			out = append(out, int(e.I))
		}
		return out
	case v.K == "strs":
		out := []string{}
		for _, e := range v.E {
			out = append(out, e.Str())
		}
		return out
	case v.K == "strStr": // (only iterated: the characters of the string itself, whatever String() prints)
		return v.Str()
	case v.K == "anys":
		out := []any{}
		for _, e := range v.E {
			out = append(out, valToM(e))
		}
		return out
	case v.K == "mapSI":
		m := map[string]int{}
		for i, k := range v.Ks {
			m[k.Str()] = int(v.E[i].I)
		}
		return m
	case v.K == "f64s":
		out := []float64{}
		for _, e := range v.E {
			out = append(out, e.Float())
		}
		return out
	case v.K == "mapIS":
		m := map[int]string{}
		for i, k := range v.Ks {
			m[int(k.I)] = v.E[i].Str()
		}
		return m
	case v.K == "mapSA":
		m := map[string]any{}
		for i, k := range v.Ks {
			m[k.Str()] = valToM(v.E[i])
		}
		return m
	case v.K == "mapAA": // (only with int keys and string values: iterates like a map[int]string)
		m := map[int]string{}
		for i, k := range v.Ks {
			m[int(k.I)] = v.E[i].Str()
		}
		return m
	}
	panic("valToM: unsupported kind " + v.K)
}

func refEscapeHTML(s string) string {
	var sb strings.Builder
	for i := 0; i < len(s); i++ {
		switch s[i] {
		case '&':
			sb.WriteString("&amp;")
		case '<':
			sb.WriteString("&lt;")
		case '>':
			sb.WriteString("&gt;")
		case '"':
			sb.WriteString("&quot;")
		case '\'':
			sb.WriteString("&#39;")
		default:
			sb.WriteByte(s[i])
		}
	}
	return sb.String()
}

// mPrint: what {{ v }} writes with autoescape on
func mPrint(v any) string {
	switch x := v.(type) {
	case nil:
		return ""
	case int:
		return strconv.Itoa(x)
	case float64:
		return fmt.Sprintf("%f", x)
	case string:
		return refEscapeHTML(x)
	case bool:
		if x {
			return "True"
		}
		return "False"
	case mSafe:
		return x.s
	case *mCycle:
		return refEscapeHTML(mRaw(x.val))
	case []int:
		return "<[]int Value>"
	case []string:
		return "<[]string Value>"
	case map[string]int:
		return "<map[string]int Value>"
	case []float64:
		return "<[]float64 Value>"
	case map[int]string:
		return "<map[int]string Value>"
	case map[string]any:
		return "<map[string]interface {} Value>"
	}
	return fmt.Sprintf("?%T", v)
}

// mRaw: unescaped text of a scalar
func mRaw(v any) string {
	switch x := v.(type) {
	case string:
		return x
	case mSafe:
		return x.s
	case *mCycle:
		return mRaw(x.val)
	}
	return mPrint(v)
}

func mTruthy(v any) bool {
	switch x := v.(type) {
	case nil:
		return false
	case int:
		return x != 0
	case float64:
		return x != 0
	case string:
		return x != ""
	case bool:
		return x
	case mSafe:
		return x.s != ""
	case []int:
		return len(x) > 0
	case []any:
		return len(x) > 0
	case []string:
		return len(x) > 0
	case map[string]int:
		return len(x) > 0
	case map[string]any:
		return len(x) > 0
	}
	return true
}

// mOpaque is panicked (and recovered in mmReference) when the reference meets behaviour that
// neither the properties nor a fixture fix; the case is then discarded.
type mOpaque struct{ why string }

func mEqual(a, b any) bool {
	if a == nil && b == nil {
		panic(mOpaque{"nil compared with nil: Django says equal, pongo2 says different"})
	}
	if a == nil || b == nil {
		return false
	}
	switch x := a.(type) {
	case int:
		y, ok := b.(int)
		return ok && x == y
	case float64:
		y, ok := b.(float64)
		return ok && x == y
	case string:
		y, ok := b.(string)
		return ok && x == y
	case bool:
		y, ok := b.(bool)
		return ok && x == y
	}
	return false
}

func (ip *mInterp) lookup(s *mScope, name string) any {
	if v, ok := s.priv[name]; ok {
		return v
	}
	if v, ok := ip.public[name]; ok {
		return v
	}
	return nil
}

func (ip *mInterp) eval(s *mScope, e *ME) any {
	switch e.K {
	case "int":
		return e.I
	case "str":
		return e.S
	case "true":
		return true
	case "false":
		return false
	case "name":
		return ip.lookup(s, e.N)
	case "eq":
		return mEqual(ip.eval(s, e.L), ip.eval(s, e.R))
	case "ne":
		return !mEqual(ip.eval(s, e.L), ip.eval(s, e.R))
	case "lt":
		l, _ := ip.eval(s, e.L).(int)
		r, _ := ip.eval(s, e.R).(int)
		return l < r
	case "not":
		return !mTruthy(ip.eval(s, e.L))
	case "sub":
		l, _ := ip.eval(s, e.L).(int)
		r, _ := ip.eval(s, e.R).(int)
		return l - r
	case "loopfield":
		li, _ := ip.lookup(s, "forloop").(*mLoop)
		return mLoopField(li, e.S)
	case "arr":
		items := []any{}
		for i := range e.Args {
			items = append(items, ip.eval(s, &e.Args[i]))
		}
		return items
	case "in":
		l := ip.eval(s, e.L)
		items, _ := ip.eval(s, e.R).([]any)
		for _, it := range items {
			if mEqual(l, it) {
				return true
			}
		}
		return false
	case "call":
		cl, ok := ip.lookup(s, e.N).(*mClosure)
		if !ok {
			return nil
		}
		var args []any
		for i := range e.Args {
			args = append(args, ip.eval(s, &e.Args[i]))
		}
		v, err := ip.call(cl, args)
		if err != nil {
			panic(err) // recovered in mmReference
		}
		return v
	}
	panic("eval: " + e.K)
}

type mItem struct{ k, v any }

func mIterate(v any, rev, sorted bool) []mItem {
	var items []mItem
	switch x := v.(type) {
	case []int:
		c := append([]int(nil), x...)
		if sorted {
			sort.Ints(c)
		}
		for _, i := range c {
			items = append(items, mItem{k: i})
		}
	case []any: // an array literal or a []any of the context
		c := append([]any(nil), x...)
		if sorted {
			kind := ""
			for _, i := range c {
				k := fmt.Sprintf("%T", i)
				if kind != "" && k != kind {
					panic(mOpaque{"sorted over items of different kinds: no order is stated"})
				}
				kind = k
			}
			sort.SliceStable(c, func(a, b int) bool {
				switch x := c[a].(type) {
				case int:
					return x < c[b].(int)
				case string:
					return x < c[b].(string)
				case float64:
					return x < c[b].(float64)
				}
				panic(mOpaque{"sorted over items without an order"})
			})
		}
		for _, i := range c {
			items = append(items, mItem{k: i})
		}
	case []string:
		c := append([]string(nil), x...)
		if sorted {
			sort.Strings(c)
		}
		for _, i := range c {
			items = append(items, mItem{k: i})
		}
	case string:
		rs := []rune(x)
		if sorted {
			sort.Slice(rs, func(i, j int) bool { return rs[i] < rs[j] })
		}
		for _, r := range rs {
			items = append(items, mItem{k: string(r)})
		}
	case map[string]int:
		ks := make([]string, 0, len(x))
		for k := range x {
			ks = append(ks, k)
		}
		sort.Strings(ks) // only generated with "sorted"
		for _, k := range ks {
			items = append(items, mItem{k: k, v: x[k]})
		}
	case []float64:
		c := append([]float64(nil), x...)
		if sorted {
			sort.Float64s(c)
		}
		for _, f := range c {
			items = append(items, mItem{k: f})
		}
	case map[int]string:
		ks := make([]int, 0, len(x))
		for k := range x {
			ks = append(ks, k)
		}
		sort.Ints(ks) // numeric order of the keys; only generated with "sorted"
		for _, k := range ks {
			items = append(items, mItem{k: k, v: x[k]})
		}
	}
	if rev {
		for i, j := 0, len(items)-1; i < j; i, j = i+1, j-1 {
			items[i], items[j] = items[j], items[i]
		}
	}
	return items
}

func mLoopField(li *mLoop, field string) any {
	parts := strings.Split(field, ".")
	for len(parts) > 1 {
		if parts[0] != "Parentloop" || li == nil {
			return nil
		}
		li = li.parent
		parts = parts[1:]
	}
	if li == nil {
		return nil
	}
	switch parts[0] {
	case "Counter":
		return li.counter
	case "Counter0":
		return li.counter0
	case "Revcounter":
		return li.rev
	case "Revcounter0":
		return li.rev0
	case "First":
		return li.first
	case "Last":
		return li.last
	}
	return nil
}

func (caller *mInterp) call(cl *mClosure, args []any) (any, *mErr) {
	ip := cl.ip // a macro body always runs against its definer's context, wherever it is called from
	m := cl.n
	ip.depth++
	defer func() { ip.depth-- }()
	if ip.depth > 1000 {
		return nil, &mErr{"maximum recursive macro call depth reached"}
	}
	c := cl.def.child()
	for _, p := range m.Params {
		if p.Def != nil {
			c.priv[p.Name] = ip.eval(cl.def, p.Def)
		} else {
			c.priv[p.Name] = nil
		}
	}
	if len(args) > len(m.Params) {
		return nil, &mErr{"too many arguments"}
	}
	for i, a := range args {
		c.priv[m.Params[i].Name] = a
	}
	var b strings.Builder
	if e := ip.run(m.Body, c, &b); e != nil {
		return nil, e
	}
	return mSafe{b.String()}, nil
}

func (ip *mInterp) run(ns []MNode, s *mScope, sb *strings.Builder) *mErr {
	for i := range ns {
		n := &ns[i]
		switch n.K {
		case "text":
			sb.WriteString(n.Text)
		case "probe":
			sb.WriteString(mPrint(ip.eval(s, n.E)))
		case "loopprobe":
			li, _ := ip.lookup(s, "forloop").(*mLoop) // inside an included file the includer's forloop is a context entry
			sb.WriteString(mPrint(mLoopField(li, n.Field)))
		case "plainregion":
			if e := ip.run(n.Body, s, sb); e != nil {
				return e
			}
		case "with":
			c := s.child()
			for _, p := range n.Pairs {
				pe := p.E
				c.priv[p.Name] = ip.eval(s, &pe) // evaluated in the OUTER scope
			}
			if e := ip.run(n.Body, c, sb); e != nil {
				return e
			}
		case "for":
			c := s.child()
			li := &mLoop{first: true}
			if p, ok := c.priv["forloop"].(*mLoop); ok {
				li.parent = p
			}
			c.priv["forloop"] = li
			// what to iterate over is an argument of the tag: it is evaluated where the tag stands
			// (a forloop named there is the ENCLOSING loop's, the new one only exists in the body)
			items := mIterate(ip.eval(s, n.E), n.Rev, n.Sorted)
			if len(items) == 0 {
				if n.HasAlt {
					if e := ip.run(n.Alt, c, sb); e != nil {
						return e
					}
				}
				continue
			}
			cnt := len(items)
			for idx, it := range items {
				c.priv[n.Name] = it.k
				if n.Name2 != "" && it.v != nil {
					c.priv[n.Name2] = it.v
				}
				li.counter, li.counter0, li.rev, li.rev0 = idx+1, idx, cnt-idx, cnt-idx-1
				li.first, li.last = idx == 0, idx == cnt-1
				if e := ip.run(n.Body, c, sb); e != nil {
					return e
				}
			}
		case "set":
			s.priv[n.Name] = ip.eval(s, n.E)
		case "if":
			done := false
			if mTruthy(ip.eval(s, n.E)) {
				if e := ip.run(n.Body, s, sb); e != nil {
					return e
				}
				done = true
			}
			for j := 0; !done && j < len(n.Elifs); j++ {
				ce := n.Elifs[j].Cond
				if mTruthy(ip.eval(s, &ce)) {
					if e := ip.run(n.Elifs[j].Body, s, sb); e != nil {
						return e
					}
					done = true
				}
			}
			if !done && n.HasAlt {
				if e := ip.run(n.Alt, s, sb); e != nil {
					return e
				}
			}
		case "ifequal", "ifnotequal":
			eq := mEqual(ip.eval(s, n.E), ip.eval(s, n.E2))
			if eq == (n.K == "ifequal") {
				if e := ip.run(n.Body, s, sb); e != nil {
					return e
				}
			} else if n.HasAlt {
				if e := ip.run(n.Alt, s, sb); e != nil {
					return e
				}
			}
		case "firstof":
			for j := range n.Es {
				v := ip.eval(s, &n.Es[j])
				if mTruthy(v) {
					sb.WriteString(refEscapeHTML(mRaw(v)))
					break
				}
			}
		case "cycle":
			j := ip.cycles[n.ID]
			ip.cycles[n.ID] = j + 1
			v := ip.eval(s, &n.Es[j%len(n.Es)])
			if n.Name != "" {
				s.priv[n.Name] = &mCycle{val: v}
			}
			if !n.Silent {
				sb.WriteString(refEscapeHTML(mRaw(v)))
			}
		case "ifchanged":
			if len(n.Es) == 0 {
				var b strings.Builder
				if e := ip.run(n.Body, s, &b); e != nil {
					return e
				}
				last, seen := ip.changed[n.ID], ip.seen[n.ID]
				cur := b.String()
				if (!seen && cur != "") || (seen && last[0] != cur) {
					sb.WriteString(cur)
					ip.changed[n.ID] = []string{cur}
					ip.seen[n.ID] = true
				}
				continue
			}
			var now []string
			for j := range n.Es {
				v := ip.eval(s, &n.Es[j])
				now = append(now, fmt.Sprintf("%T:%v", v, v))
			}
			changed := !ip.seen[n.ID]
			if !changed {
				for j, old := range ip.changed[n.ID] {
					if old != now[j] || strings.HasPrefix(now[j], "<nil>") {
						changed = true
					}
				}
			}
			ip.changed[n.ID] = now
			ip.seen[n.ID] = true
			if changed {
				if e := ip.run(n.Body, s, sb); e != nil {
					return e
				}
			} else if n.HasAlt {
				if e := ip.run(n.Alt, s, sb); e != nil {
					return e
				}
			}
		case "macro":
			s.priv[n.Name] = &mClosure{n: n, def: s, ip: ip}
		case "call":
			cl, ok := ip.lookup(s, n.Name).(*mClosure)
			if !ok {
				continue // undefined name: empty value
			}
			var args []any
			for j := range n.Es {
				args = append(args, ip.eval(s, &n.Es[j]))
			}
			v, e := ip.call(cl, args)
			if e != nil {
				return e
			}
			sb.WriteString(mPrint(v))
		case "include":
			// the included template gets a fresh PUBLIC context built from the includer's
			// public + private names (unless "only") plus the pairs; globals are always visible
			pub := map[string]any{}
			for k, v := range ip.globals {
				pub[k] = v
			}
			if !n.Only {
				for k, v := range ip.public {
					pub[k] = v
				}
				for k, v := range s.priv {
					pub[k] = v
				}
			}
			for _, p := range n.Pairs {
				pe := p.E
				pub[p.Name] = ip.eval(s, &pe)
			}
			sub := &mInterp{public: pub, globals: ip.globals, files: ip.files, cycles: map[int]int{}, changed: map[int][]string{}, seen: map[int]bool{}, depth: ip.depth}
			var b strings.Builder
			if e := sub.run(ip.files[n.Name], &mScope{priv: map[string]any{}}, &b); e != nil {
				return e
			}
			sb.WriteString(b.String())
		case "import":
			// imported macros run in a child of the IMPORTING scope (taken at call time)
			file := ip.files[n.Name]
			for _, im := range n.Imps {
				for k := range file {
					if file[k].K == "macro" && file[k].Name == im.Name {
						alias := im.Name
						if im.E.S != "" {
							alias = im.E.S
						}
						s.priv[alias] = &mClosure{n: &file[k], def: s, ip: ip}
					}
				}
			}
		default:
			panic("run: " + n.K)
		}
	}
	return nil
}

// mmReference renders the root nodes with the reference interpreter.
func mmReference(root []MNode, files map[string][]MNode, globals, ctx Val) (string, *mErr) {
	g := map[string]any{}
	for i, k := range globals.Ks {
		g[k.Str()] = valToM(globals.E[i])
	}
	pub := map[string]any{}
	for k, v := range g {
		pub[k] = v
	}
	for i, k := range ctx.Ks {
		pub[k.Str()] = valToM(ctx.E[i])
	}
	ip := &mInterp{public: pub, globals: g, files: files, cycles: map[int]int{}, changed: map[int][]string{}, seen: map[int]bool{}}
	var sb strings.Builder
	var rerr *mErr
	func() {
		defer func() {
			if p := recover(); p != nil {
				if me, ok := p.(*mErr); ok {
					rerr = me
					return
				}
				if op, ok := p.(mOpaque); ok {
					rerr = &mErr{"opaque: " + op.why}
					return
				}
				panic(p)
			}
		}()
		rerr = ip.run(root, &mScope{priv: map[string]any{}}, &sb)
	}()
	if rerr != nil {
		return "", rerr
	}
	return sb.String(), nil
}

// mmEngine renders the same program with pongo2.
func mmEngine(root []MNode, files map[string][]MNode, globals, ctx Val) (string, error, pongo2.Context, *pongo2.TemplateSet) {
	fs := map[string]string{}
	for name, ns := range files {
		fs[name] = mmSrc(ns)
	}
	fs["/root.tpl"] = mmSrc(root)
	set := pongo2.NewSet("mm", newMemLoader(fs))
	// every other global is put into the set only after the root template has been compiled: the
	// set's globals are visible in every template of the set, whenever it was created
	for i, k := range globals.Ks {
		if i%2 == 0 {
			set.Globals[k.Str()] = Build(globals.E[i])
		}
	}
	tpl, err := set.FromFile("/root.tpl")
	if err != nil {
		return "", fmt.Errorf("compile: %w", err), nil, set
	}
	for i, k := range globals.Ks {
		if i%2 == 1 {
			set.Globals[k.Str()] = Build(globals.E[i])
		}
	}
	c := BuildContext(ctx)
	out, err := tpl.Execute(c)
	return out, err, c, set
}

// mmEngineSeq compiles once and executes the same compiled template with each context in turn.
func mmEngineSeq(root []MNode, files map[string][]MNode, globals Val, ctxs []Val) ([]string, []error, error) {
	fs := map[string]string{}
	for name, ns := range files {
		fs[name] = mmSrc(ns)
	}
	fs["/root.tpl"] = mmSrc(root)
	set := pongo2.NewSet("mmseq", newMemLoader(fs))
	for i, k := range globals.Ks {
		set.Globals[k.Str()] = Build(globals.E[i])
	}
	tpl, err := set.FromFile("/root.tpl")
	if err != nil {
		return nil, nil, err
	}
	var outs []string
	var errs []error
	for _, c := range ctxs {
		o, e := tpl.Execute(BuildContext(c))
		outs = append(outs, o)
		errs = append(errs, e)
	}
	return outs, errs, nil
}

// meMentions: does the expression name one of the given names?
func meMentions(e *ME, names map[string]bool) bool {
	if e == nil {
		return false
	}
	if (e.K == "name" || e.K == "call") && names[e.N] {
		return true
	}
	if meMentions(e.L, names) || meMentions(e.R, names) {
		return true
	}
	for i := range e.Args {
		if meMentions(&e.Args[i], names) {
			return true
		}
	}
	return false
}
