"""Per-property job plans for bin/check.py.

Each item: test (Go test name), kind rapid|enum|plain, checks (rapid case count,
split over `shards` worker processes), env, race (use the -race binary).
"""

PROPS = {
    "C06": {
        "quick": [
            {"test": "TestC06Text", "checks": 30000},
            {"test": "TestC06Frag", "checks": 30000},
            {"test": "TestC06Opaque", "checks": 30000, "shards": 2},
            {"test": "TestC06Enum", "kind": "enum", "env": {"VERIF_C06_ENUM_LEN": "5"}, "shards": 2},
            {"test": "TestC06TemplatetagUnknown", "kind": "plain"},
        ],
        "thorough": [
            {"test": "TestC06Text", "checks": 1600000, "shards": 8},
            {"test": "TestC06Frag", "checks": 1600000, "shards": 12},
            {"test": "TestC06Opaque", "checks": 1600000, "shards": 4},
            {"test": "TestC06Enum", "kind": "enum", "env": {"VERIF_C06_ENUM_LEN": "7"}, "shards": 16},
            {"test": "TestC06TemplatetagUnknown", "kind": "plain"},
        ],
        "fuzz": [{"fuzz": "FuzzC06Text", "fuzztime": "60s"}],
        "assumptions": [
            "C06.text / C06.frag: fragments carry no '-' trim markers (C15 covers those); C06.opaque has them, and TrimBlocks / LStripBlocks, next to verbatim blocks and comments",
            "whether whitespace control looks through an EMPTY verbatim block or a comment ('directly after a block tag') is left open, as in C15",
            "comment-tag bodies are lexically valid (the tag skips tokens, so its body is lexed)",
        ],
    },
    "C17": {
        "quick": [
            {"test": "TestC17Filter", "checks": 40000, "shards": 2},
            {"test": "TestC17Enum", "kind": "enum", "shards": 4},
        ],
        "thorough": [
            {"test": "TestC17Filter", "checks": 3200000, "shards": 16},
            {"test": "TestC17Enum", "kind": "enum", "shards": 8},
        ],
        "fuzz": [{"fuzz": "FuzzC17", "fuzztime": "60s"}],
        "assumptions": [
            "escapejs: the two-character input sequences backslash-r / backslash-n stand for CR / LF and invalid UTF-8 bytes are dropped (pinned by template_tests/filters.tpl)",
            "iriencode: the exact encoding is compared with the reference only for valid UTF-8 input; for invalid input only the output alphabet is checked",
        ],
    },
    "C18": {
        "quick": [
            {"test": "TestC18Filter", "checks": 60000, "shards": 2},
            {"test": "TestC18Enum", "kind": "enum", "shards": 4},
            {"test": "TestC18Widthratio", "checks": 20000},
            {"test": "TestC18WidthratioFloat", "checks": 20000},
            {"test": "TestC18WidthratioEnum", "kind": "enum"},
        ],
        "thorough": [
            {"test": "TestC18Filter", "checks": 3200000, "shards": 16},
            {"test": "TestC18Enum", "kind": "enum", "shards": 8},
            {"test": "TestC18Widthratio", "checks": 400000, "shards": 2},
            {"test": "TestC18WidthratioFloat", "checks": 40000},
            {"test": "TestC18WidthratioEnum", "kind": "enum"},
        ],
        "assumptions": [
            "where Django 1.7 and a pongo2 fixture disagree the fixture wins (truncatechars n<3 without ellipsis, center's odd space on the left, wordwrap by word count, unpadded linenumbers, get_digit out of range returns the input, yesno nil with two choices -> maybe, add of int and text concatenates)",
            "floatformat: ties (first dropped digit 5) and negative values rounding to zero (sign of zero) are outside the reference's domain",
            "upper/lower/capfirst compared per rune with unicode.ToUpper/ToLower on ASCII, Latin-1, Greek, Cyrillic letters",
            "padding filters: behaviour around the 10000-character padding cap is only required to be 'error or correct shape'",
        ],
    },
    "C07": {
        "quick": [
            {"test": "TestC07Expr", "checks": 60000, "shards": 4},
            {"test": "TestC07Enum", "kind": "enum", "shards": 6, "env": {"VERIF_C07_ENUM_BIN": "2"}},
        ],
        "thorough": [
            {"test": "TestC07Expr", "checks": 2400000, "shards": 16},
            {"test": "TestC07Enum", "kind": "enum", "shards": 16, "env": {"VERIF_C07_ENUM_BIN": "3"}},
        ],
        "assumptions": [
            "fragment (DESIGN.md C07): no and/or mix without parentheses, no chained comparisons, == / != only between equal static types (float32 variables excluded from ==), no ordering of strings, % only on ints, bools never arithmetic, 'not' of a non-bool is used for its truth only, unary minus/not printed bare only where the grammar admits them",
            "float results are compared bit-exactly: the reference performs the same IEEE operations in the order given by the tree",
        ],
    },
    "C14": {
        "quick": [
            {"test": "TestC14Variants", "checks": 12000, "shards": 4},
        ],
        "thorough": [
            {"test": "TestC14Variants", "checks": 640000, "shards": 16},
        ],
        "assumptions": [
            "faults are injected through a context function tick() returning (string, error); programs that fail by themselves (e.g. division by a zero-valued variable) are kept and must fail identically through all entry points",
            "fault positions are enumerated up to 40 per program",
        ],
    },
    "C15": {
        "quick": [
            {"test": "TestC15Doc", "checks": 40000, "shards": 4},
            {"test": "TestC15Spaceless", "checks": 40000, "shards": 2},
            {"test": "TestC15Sides", "checks": 30000, "shards": 2},
        ],
        "thorough": [
            {"test": "TestC15Doc", "checks": 2400000, "shards": 12},
            {"test": "TestC15Spaceless", "checks": 1600000, "shards": 4},
            {"test": "TestC15Sides", "checks": 1200000, "shards": 4},
        ],
        "assumptions": [
            "verbatim blocks are not generated, and {# #} comments only between two non-whitespace characters of a text (next to a marker or a block tag neither C06 nor C15 decides what 'directly' means)",
            "two- and three-level hierarchies (extends + block override, nested block) are generated since the options are applied along the whole chain of parents (fix c.f. known_findings C04)",
            "which characters beyond space/tab/CR/LF a '-' takes is left open (C15.sides only demands that both sides agree with what each does alone and that only Unicode whitespace goes)",
            "spaceless: an HTML tag is '<', characters, '>'; whether a tag may contain a line break (HTML: yes, the engine's regexp: no) is left open - both results are accepted",
        ],
    },
    "C16": {
        "quick": [
            {"test": "TestC16Lex", "checks": 40000, "shards": 2},
            {"test": "TestC16Raw", "checks": 40000, "shards": 2},
            {"test": "TestC16RawEnum", "kind": "enum", "shards": 2, "env": {"VERIF_C16_ENUM_LEN": "5"}},
            {"test": "TestC16Fault", "checks": 40000, "shards": 4},
            {"test": "TestC16AnyError", "checks": 40000, "shards": 4},
            {"test": "TestC16RawLine", "checks": 6000, "shards": 2},
        ],
        "thorough": [
            {"test": "TestC16Lex", "checks": 1600000, "shards": 6},
            {"test": "TestC16Raw", "checks": 1600000, "shards": 4},
            {"test": "TestC16RawEnum", "kind": "enum", "shards": 8, "env": {"VERIF_C16_ENUM_LEN": "6"}},
            {"test": "TestC16Fault", "checks": 1600000, "shards": 8},
            {"test": "TestC16AnyError", "checks": 1600000, "shards": 8},
            {"test": "TestC16RawLine", "checks": 200000, "shards": 4},
        ],
        "fuzz": [{"fuzz": "FuzzC16Raw", "fuzztime": "60s"}],
        "assumptions": [
            "the source an error 'names' is Error.Filename; an error that carries a position must name one (since repair 40)",
            "a fault executing inside a macro body is reported at the call site (the macro is a function call from the caller's view): then only consistency of file/position/token at the call site is required",
            "a position one past the last byte (EOF) counts as inside the source",
            "errors about a template that could not be loaded (sender fromfile) name the missing file and carry the position of the referring tag; there is no source to point into, so their position is not examined",
        ],
    },
    "C04": {
        "quick": [
            {"test": "TestC04History", "checks": 24000, "shards": 4},
        ],
        "thorough": [
            {"test": "TestC04History", "checks": 1600000, "shards": 16},
        ],
        "assumptions": [
            "programs are deterministic by construction: no now without fake, no lorem random, no random filter, maps iterated only with 'sorted'",
            "the static facet of the quantifier (all functions reachable from Execute, for all inputs) is not addressed by this technique",
        ],
    },
    "C05": {
        "journal": True,
        "replay_race": True,
        "confirm_tries": 6,
        "quick": [
            {"test": "TestC05Concurrent", "checks": 900, "shards": 3, "race": True, "gomaxprocs": [2, 4, 16]},
            {"test": "TestC05RaceOnly", "checks": 400, "shards": 2, "race": True, "gomaxprocs": [4, 16]},
            {"test": "TestC05ColdSet", "checks": 600, "shards": 2, "race": True, "gomaxprocs": [4, 16]},
        ],
        "thorough": [
            {"test": "TestC05Concurrent", "checks": 48000, "shards": 12, "race": True, "gomaxprocs": [2, 4, 16, 8]},
            {"test": "TestC05RaceOnly", "checks": 16000, "shards": 4, "race": True, "gomaxprocs": [4, 16]},
            {"test": "TestC05ColdSet", "checks": 16000, "shards": 4, "race": True, "gomaxprocs": [4, 16, 2, 8]},
        ],
        "assumptions": [
            "schedules are sampled (goroutine counts 2-8, GOMAXPROCS 2/4/8/16), not enumerated; the race detector only sees pairs of accesses that were executed",
            "a race report that cannot be confirmed from the journalled workload in fresh processes ends the run as inconclusive (exit 2), not as a violation",
        ],
    },
    "C20": {
        "quick": [
            {"test": "TestC20Cache", "checks": 6000, "shards": 3, "gomaxprocs": [4, 16, 2]},
            {"test": "TestC20Cache", "checks": 600, "shards": 2, "race": True, "gomaxprocs": [4, 16]},
            {"test": "TestC20Many", "checks": 120, "shards": 2},
            {"test": "TestC20Composed", "checks": 6000, "shards": 2},
        ],
        "thorough": [
            {"test": "TestC20Cache", "checks": 480000, "shards": 12, "gomaxprocs": [4, 16, 2, 8]},
            {"test": "TestC20Cache", "checks": 32000, "shards": 8, "race": True, "gomaxprocs": [4, 16, 2, 8]},
            {"test": "TestC20Many", "checks": 3000, "shards": 4},
            {"test": "TestC20Composed", "checks": 400000, "shards": 4},
        ],
        "assumptions": [
            "a history after which no cache operation returns for 120 s is reported as a deadlock (an operation takes micro- to milliseconds; the bound is 5-6 orders of magnitude above that)",
            "Debug is toggled only in sequential steps (its doc comment puts the synchronisation on the caller)",
            "interleavings of the concurrent batches are sampled; a 200 microsecond delay inside the loader during homogeneous batches only widens race windows and is never an oracle",
            "histories are shrunk and replayed by rapid (operation log printed with the violation); the replay file holds the minimal operation log",
        ],
    },
    "C03": {
        "quick": [
            {"test": "TestC03Route", "checks": 30000, "shards": 3},
            {"test": "TestC03RouteEnum", "kind": "enum", "shards": 6},
            {"test": "TestC03BanExtends", "kind": "plain"},
            {"test": "TestC03History", "checks": 30000, "shards": 3},
            {"test": "TestC03Concurrent", "checks": 240, "shards": 8, "gomaxprocs": [4, 16]},
            {"test": "TestC03Creators", "checks": 2000, "shards": 2, "gomaxprocs": [4, 16]},
            {"test": "TestC03Creators", "checks": 600, "shards": 2, "race": True, "gomaxprocs": [4, 16]},
        ],
        "thorough": [
            {"test": "TestC03Route", "checks": 1600000, "shards": 8},
            {"test": "TestC03RouteEnum", "kind": "enum", "shards": 4},
            {"test": "TestC03BanExtends", "kind": "plain"},
            {"test": "TestC03History", "checks": 1600000, "shards": 8},
            {"test": "TestC03Concurrent", "checks": 8000, "shards": 16, "gomaxprocs": [4, 16, 2]},
            {"test": "TestC03Creators", "checks": 200000, "shards": 4, "gomaxprocs": [4, 16, 2]},
            {"test": "TestC03Creators", "checks": 40000, "shards": 4, "race": True, "gomaxprocs": [4, 16, 2]},
        ],
        "assumptions": [
            "a route is only judged when its own scaffolding does not use the banned name and when the same template compiles in a set without the ban",
            "bodies of comment / verbatim are not routes (never parsed)",
            "every probe compiles a template and therefore freezes the set, so bans are observed at the end of a history and at explicit probe steps, not after every step",
        ],
    },
    "C10": {
        "quick": [
            {"test": "TestC10Chain", "checks": 30000, "shards": 3},
            {"test": "TestC10Invalid", "checks": 2000},
        ],
        "thorough": [
            {"test": "TestC10Chain", "checks": 1600000, "shards": 16},
            {"test": "TestC10Invalid", "checks": 20000},
        ],
        "assumptions": [
            "blocks nested inside an override carry names that are fresh in the chain: hierarchies whose blocks contain each other (through Super) have no defined rendering and end in the engine's nesting-depth error (C01's concern)",
            "child templates start with the extends tag",
        ],
    },
    "C12": {
        "quick": [
            {"test": "TestC12Scope", "checks": 40000, "shards": 4},
            {"test": "TestC12Keys", "checks": 2000},
        ],
        "thorough": [
            {"test": "TestC12Scope", "checks": 1600000, "shards": 16},
            {"test": "TestC12Keys", "checks": 20000},
        ],
        "assumptions": [
            "the reference environment model of harness/props/mm_test.go (child scope = copy; with-pairs evaluated in the outer scope; one scope per for-loop shared by its iterations; macro body runs in a child of the defining scope taken at call time, against the definer's context; include builds a fresh public context from the includer's public+private names (+pairs, or pairs only) plus the globals)",
            "macro results are not passed as macro arguments; included files define no macros",
        ],
    },
    "C09": {
        "quick": [
            {"test": "TestC09Flow", "checks": 60000, "shards": 4},
            {"test": "TestC09Complement", "checks": 10000},
            {"test": "TestC09NilValues", "checks": 6000},
        ],
        "thorough": [
            {"test": "TestC09Flow", "checks": 2400000, "shards": 15},
            {"test": "TestC09Complement", "checks": 400000},
            {"test": "TestC09NilValues", "checks": 200000, "shards": 2},
        ],
        "assumptions": [
            "maps are iterated only with 'sorted' (unsorted order is Go's)",
            "ifchanged is generated only directly inside a loop that runs once per render: in nested loops 'the previous iteration' is read differently by Django (state per inner loop run) and pongo2 (state per render), and the property does not choose",
            "{% cycle name %} re-emission is not generated",
            "forloop is not probed inside an empty branch, and loops nested in one do not look at Parentloop (Django renders empty outside the loop, pongo2 inside a zeroed forloop)",
            "comparisons of nil with nil are discarded (Django: equal, pongo2: different); complementarity of ifequal/ifnotequal is checked for them without prescribing the result",
        ],
    },
    "C13": {
        "journal": True,
        "hang_is_violation": True,
        "confirm_tries": 2,
        "quick": [
            {"test": "TestC13Bind", "checks": 20000, "shards": 4},
            {"test": "TestC13Options", "checks": 12000, "shards": 2},
            {"test": "TestC13Recursion", "checks": 800, "shards": 8},
            {"test": "TestC13RecursionEnum", "kind": "enum", "shards": 4, "env": {"VERIF_C13_ENUM_N": "2"}},
        ],
        "thorough": [
            {"test": "TestC13Bind", "checks": 1600000, "shards": 8},
            {"test": "TestC13Options", "checks": 600000, "shards": 4},
            {"test": "TestC13Recursion", "checks": 32000, "shards": 16},
            {"test": "TestC13RecursionEnum", "kind": "enum", "shards": 16, "env": {"VERIF_C13_ENUM_N": "3"}},
        ],
        "assumptions": [
            "macro bodies of the three-form comparison reference only parameters, context names and co-imported macros (a helper file's non-imported macros are invisible by design)",
            "macro results are not passed as arguments to other macros in C13.bind",
            "a runaway recursion is recognised by the execution error; a worker that dies instead (stack overflow) is detected through the write-ahead journal",
        ],
    },
    "C08": {
        "quick": [
            {"test": "TestC08Path", "checks": 60000, "shards": 4},
            {"test": "TestC08Hetero", "checks": 20000, "shards": 2},
            {"test": "TestC08Shadowing", "kind": "plain"},
            {"test": "TestC08Shadow", "checks": 8000, "shards": 2},
            {"test": "TestC08Named", "checks": 12000, "shards": 2},
            {"test": "TestC08BlockName", "checks": 6000, "shards": 2},
        ],
        "thorough": [
            {"test": "TestC08Path", "checks": 3200000, "shards": 12},
            {"test": "TestC08Hetero", "checks": 800000, "shards": 4},
            {"test": "TestC08Shadowing", "kind": "plain"},
            {"test": "TestC08Shadow", "checks": 200000, "shards": 4},
            {"test": "TestC08Named", "checks": 300000, "shards": 3},
            {"test": "TestC08BlockName", "checks": 150000, "shards": 3},
        ],
        "assumptions": [
            "not asserted (neither the statement nor a fixture fixes it; such paths are discarded and counted): indexing a string, .N on a map, string subscripts on sequences, pointer-receiver methods on a nil pointer, results of *Value-returning methods",
            "a subscript ends a name in pongo2's grammar (a[k].b is a syntax error), so subscripts are generated as the last step only",
            "a call written after a missing key / unknown name yields the empty value (nothing to call); a call of an existing non-function value is an error",
        ],
    },
    "C19": {
        "quick": [
            {"test": "TestC19Chain", "checks": 60000, "shards": 4},
            {"test": "TestC19Unknown", "checks": 3000},
            {"test": "TestC19DoubleRegistration", "kind": "plain"},
        ],
        "thorough": [
            {"test": "TestC19Chain", "checks": 3200000, "shards": 16},
            {"test": "TestC19Unknown", "checks": 30000},
            {"test": "TestC19DoubleRegistration", "kind": "plain"},
        ],
        "assumptions": [
            "filters written inside array literals are outside the listed positions (they are silently ignored on this tree; C02 and C03 exercise that route)",
            "nondeterministic filters (random) are detected at run start by calling every registered filter several times on fixed inputs, and left out",
            "observation goes through the public Value API (String, IsTrue, Iterate, Integer, Float, EqualValueTo) under autoescape off",
        ],
    },
    "C11": {
        "quick": [
            {"test": "TestC11Compose", "checks": 40000, "shards": 4},
            {"test": "TestC11Shipped", "checks": 6000, "shards": 3},
        ],
        "thorough": [
            {"test": "TestC11Compose", "checks": 2400000, "shards": 12},
            {"test": "TestC11Shipped", "checks": 200000, "shards": 4},
        ],
        "assumptions": [
            "computed (lazy) names are rooted, or relative in files that are executed as templates of their own (the root, included files); in a file that extends another one a computed relative name would be resolved against the base that is being executed - not asserted",
            "C11.compose: all loaders resolve names the same way (slash paths, rooted or relative to the referring file, cleaned); C11.shipped runs the shipped loaders, each with the resolution rule its documentation states (LocalFilesystemLoader with a base directory resolves relative names against the base, HttpFilesystemLoader takes every name from its root)",
            "reads of the real file system are detected through canary files in the worker's working directory whose text must never appear (system calls are not traced)",
        ],
    },
    "C02": {
        "quick": [
            {"test": "TestC02Program", "checks": 40000, "shards": 4},
            {"test": "TestC02FilterEnum", "kind": "enum", "shards": 2},
            {"test": "TestC02Filter", "checks": 10000},
            {"test": "TestC02PartialEnum", "kind": "enum"},
            {"test": "TestC02SetAutoescape", "kind": "plain"},
        ],
        "thorough": [
            {"test": "TestC02Program", "checks": 2400000, "shards": 16},
            {"test": "TestC02FilterEnum", "kind": "enum", "shards": 4},
            {"test": "TestC02Filter", "checks": 200000, "shards": 2},
            {"test": "TestC02PartialEnum", "kind": "enum"},
            {"test": "TestC02SetAutoescape", "kind": "plain"},
        ],
        "assumptions": [
            "opt-outs left out by construction: safe, truncatechars_html, truncatewords_html, autoescape off, Go-side AsSafeValue; lorem p (writes its own <p> tags) - except in C02.partial, where safe / a safe-marked value is written on a harmless part next to tainted text",
            "the engine's constant '<type Value>' renderings of containers carry no context text and are deleted before the output is examined (a rendering that contained any of the five characters would not match and would be flagged)",
            "the filter tag is used only with filters that neither create markup nor can cut an entity in two, over bodies that print scalars",
            "an execution error renders nothing; error texts are not template output",
        ],
    },
    "C01": {
        "journal": True,
        "hang_is_violation": True,
        "reduce_died": True,
        "confirm_tries": 2,
        "quick": [
            {"test": "TestC01Total", "checks": 48000, "shards": 8},
            {"test": "TestC01Seeds", "kind": "enum"},
            {"test": "TestC01Grid", "kind": "enum", "shards": 2},
        ],
        "thorough": [
            {"test": "TestC01Total", "checks": 4800000, "shards": 16, "timeout": 7200},
            {"test": "TestC01Seeds", "kind": "enum"},
            {"test": "TestC01Grid", "kind": "enum", "shards": 2},
        ],
        "fuzz": [{"fuzz": "FuzzC01", "fuzztime": "120s", "timeout": 1800}],
        "assumptions": [
            "generator size bounds keep legitimate work small (loops <= 6 items, nesting <= 4, lorem <= 1000 paragraphs, numbers in the lexeme vocabulary <= 10^5 except two overflow probes), so the 30 s hang bound is never a verdict on slow but finite work; a case that exceeds it is re-run alone, in a fresh process and with a bound of 180 s, before it is reported (a run in which the first bound was hit but the second was not ends inconclusive, exit 2)",
            "the helper files served by the loader form an acyclic graph; a generated template that makes a file include / extend itself is not produced on purpose (token mutations could in principle create one)",
            "functions and methods supplied in the context are total (also on nil receivers) and side-effect free; a panic inside them would be a harness bug",
        ],
    },
}
