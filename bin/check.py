#!/usr/bin/env python3
"""Driver for the pongo2 property checks (see /verif/DESIGN.md section 2.3).

usage: check.py <property-id> [--tier quick|thorough] [--replay FILE]
       check.py --setup            (warm the build: compile both test binaries)

exit 0  property held on everything explored (KNOWN-FINDING lines possible)
exit 1  'VIOLATION property=<id> replay=<path>' printed
exit 2  infrastructure trouble / inconclusive (never a violation)
"""
import array
import glob
import hashlib
import json
import os
import re
import shutil
import subprocess
import sys
import time
from concurrent.futures import ThreadPoolExecutor

VERIF = os.path.dirname(os.path.dirname(os.path.abspath(__file__)))
HARNESS = os.path.join(VERIF, "harness")
BUILD = os.path.join(VERIF, ".build")
MAXRSS_MB = int(os.environ.get("VERIF_MAXRSS_MB", "4096"))
REPLAYS = os.path.join(VERIF, "replays")
# runs against a scratch tree (VERIF_MODFILE) may redirect their evidence so that /verif/evidence
# only ever describes /repo
EVIDENCE = os.environ.get("VERIF_EVIDENCE_DIR") or os.path.join(VERIF, "evidence")
CORPUS = os.path.join(VERIF, "corpus")
KNOWN = os.path.join(VERIF, "known_findings.jsonl")
NCPU = os.cpu_count() or 4

sys.path.insert(0, os.path.join(VERIF, "bin"))
from propconfig import PROPS  # noqa: E402


def goenv():
    e = dict(os.environ)
    e.update({"GOFLAGS": "-mod=mod", "GOPROXY": "off", "GOSUMDB": "off", "GOTOOLCHAIN": "local"})
    return e


def log(*a):
    print(*a, flush=True)


def build(race, outdir=None):
    # each invocation links its own binary (the go build cache makes this a few seconds), so that
    # concurrent invocations - other properties, other tiers, another tree through VERIF_MODFILE -
    # never execute each other's build
    outdir = outdir or BUILD
    os.makedirs(outdir, exist_ok=True)
    out = os.path.join(outdir, "props.race.test" if race else "props.test")
    cmd = ["go", "test", "-c", "-tags", "verif", "-o", out]
    if race:
        cmd.append("-race")
    cmd.append("./props")
    modfile = os.environ.get("VERIF_MODFILE")
    if modfile:
        cmd.insert(2, "-modfile=" + modfile)
    t0 = time.time()
    p = subprocess.run(cmd, cwd=HARNESS, env=goenv(), capture_output=True, text=True)
    if p.returncode != 0:
        log("BUILD FAILED (exit 2):\n" + p.stdout + p.stderr)
        sys.exit(2)
    return out, time.time() - t0


def derive_seed(verif_seed, pid, test, i):
    h = hashlib.sha256(f"{verif_seed}|{pid}|{test}|{i}".encode()).digest()
    return 1 + (int.from_bytes(h[:8], "big") % (2 ** 62))


class Job:
    def __init__(self, name, argv, env, cwd, kind, requested=0, timeout=1800):
        self.name, self.argv, self.env, self.cwd, self.kind = name, argv, env, cwd, kind
        self.requested, self.timeout = requested, timeout
        self.rc, self.out, self.wall, self.timed_out = None, "", 0.0, False

    def run(self):
        # the worker runs under a watchdog: wall-clock limit and resident-set limit (the sandbox has
        # no memory limit of its own, and RLIMIT_AS cannot be used with the race detector's shadow
        # mapping); a worker that outgrows MAXRSS_MB is killed and handled like any other worker death
        os.makedirs(self.cwd, exist_ok=True)
        t0 = time.time()
        logf = os.path.join(self.cwd, f"out-{os.getpid()}-{id(self)}.log")
        with open(logf, "wb") as lf:
            p = subprocess.Popen(self.argv, cwd=self.cwd, env=self.env, stdout=lf, stderr=subprocess.STDOUT)
            self.max_rss_mb, self.oom = 0, False
            while True:
                try:
                    p.wait(timeout=0.5)
                    break
                except subprocess.TimeoutExpired:
                    pass
                try:
                    with open(f"/proc/{p.pid}/statm") as f:
                        rss = int(f.read().split()[1]) * 4096 // (1 << 20)
                    self.max_rss_mb = max(self.max_rss_mb, rss)
                except (OSError, ValueError, IndexError):
                    rss = 0
                if rss > MAXRSS_MB:
                    self.oom = True
                    p.kill()
                    p.wait()
                    break
                if time.time() - t0 > self.timeout:
                    self.timed_out = True
                    p.kill()
                    p.wait()
                    break
            self.rc = p.returncode
        with open(logf, "r", errors="replace") as f:
            self.out = f.read()
        os.remove(logf)
        if self.oom:
            self.out += f"\nKILLED: resident set exceeded {MAXRSS_MB} MB\n"
        self.wall = time.time() - t0
        return self


def plan_jobs(pid, tier, seed, rundir, excludes, binaries):
    cfg = PROPS[pid]
    jobs = []
    outdir = os.path.join(rundir, "out")
    base_env = goenv()
    base_env.update({"VERIF_OUT": outdir, "VERIF_REPLAYS": REPLAYS, "VERIF_TIER": tier,
                     "VERIF_EXCLUDE": ",".join(sorted(excludes)), "VERIF_SEED": str(seed)})
    n = 0
    for item in cfg[tier]:
        race = item.get("race", False)
        binary = binaries[race]
        shards = item.get("shards", 1)
        test = item["test"]
        for i in range(shards):
            n += 1
            env = dict(base_env)
            env["VERIF_WORKER"] = f"w{n}"
            env.update(item.get("env", {}))
            if race:
                env["GORACE"] = "halt_on_error=1 exitcode=66"
            if "gomaxprocs" in item:
                procs = item["gomaxprocs"]
                env["GOMAXPROCS"] = str(procs[i % len(procs)] if isinstance(procs, list) else procs)
            argv = [binary, "-test.run", f"^{test}$", "-test.v", "-test.timeout", "0"]
            requested = 0
            if item.get("kind", "rapid") == "rapid":
                s = derive_seed(seed, pid, test, i)
                requested = max(1, item["checks"] // shards)
                argv += [f"-rapid.checks={requested}", f"-rapid.seed={s}", "-rapid.shrinktime=20s", "-rapid.nofailfile"]
                env["VERIF_WORKER_SEED"] = str(s)
            elif item["kind"] == "enum":
                env["VERIF_SHARD"] = f"{i}/{shards}"
            jobs.append(Job(f"{test}#{i}", argv, env, os.path.join(rundir, f"w{n}"), item.get("kind", "rapid"),
                            requested, item.get("timeout", 1500 if tier == "quick" else 5400)))
    return jobs


VIOL_RE = re.compile(r"^VERIF-VIOLATION property=(\S+) spec=(\S+) replay=(\S+) msg=(.*)$", re.M)
PASSED_RE = re.compile(r"\[rapid\] OK, passed (\d+) tests")


def run_replay(binary, target, rundir, tag, excludes=(), timeout=600, hang_bound=180):
    env = goenv()
    env.update({"VERIF_OUT": os.path.join(rundir, "out"), "VERIF_REPLAYS": REPLAYS, "VERIF_REPLAY": target,
                "VERIF_EXCLUDE": ",".join(sorted(excludes)), "VERIF_HANG_BOUND": str(hang_bound)})
    if binary.endswith(".race.test"):
        env["GORACE"] = "halt_on_error=1 exitcode=66"
    j = Job("replay:" + tag, [binary, "-test.run", "^TestReplay$", "-test.v", "-test.timeout", "0"], env,
            os.path.join(rundir, "r-" + re.sub(r"\W+", "_", tag)), "replay", timeout=timeout)
    return j.run()


def load_known(pid):
    out = []
    if os.path.exists(KNOWN):
        for line in open(KNOWN):
            line = line.strip()
            if line and not line.startswith("#"):
                e = json.loads(line)
                if e.get("property") == pid:
                    out.append(e)
    return out


def merge_evidence(pid, tier, seed, rundir, wall, violations, notes, jobs, fuzz_stats):
    cfg = PROPS[pid]
    frags = []
    for f in sorted(glob.glob(os.path.join(rundir, "out", "frag-*.json"))):
        try:
            frags.append(json.load(open(f)))
        except Exception:
            pass
    nt = set()
    evals = 0
    discarded = 0
    classes = {}
    extra = {}
    samples = []
    per_spec = {}
    rules = {}
    for fr in frags:
        if fr.get("property") != pid:
            continue
        evals += fr["evaluations"]
        discarded += fr["discarded"]
        rules[fr["spec"]] = fr["rule"]
        ps = per_spec.setdefault(fr["spec"], {"evaluations": 0, "nt": set(), "modes": {}})
        ps["evaluations"] += fr["evaluations"]
        ps["modes"][fr["mode"]] = ps["modes"].get(fr["mode"], 0) + fr["evaluations"]
        try:
            a = array.array("Q")
            with open(fr["nt_file"], "rb") as fh:
                a.frombytes(fh.read())
            # hashes are per spec: mix the spec name in so specs do not collide
            salt = int.from_bytes(hashlib.sha256(fr["spec"].encode()).digest()[:8], "little")
            for h in a:
                nt.add(h ^ salt)
                ps["nt"].add(h)
        except Exception:
            pass
        for k, v in (fr.get("classes") or {}).items():
            classes[fr["spec"] + ":" + k] = classes.get(fr["spec"] + ":" + k, 0) + v
        for k, v in (fr.get("extra") or {}).items():
            extra[fr["spec"] + ":" + k] = extra.get(fr["spec"] + ":" + k, 0) + v
        for s in fr.get("samples") or []:
            if sum(1 for x in samples if x["spec"] == fr["spec"]) < 4:
                samples.append({"spec": fr["spec"], "case": s})
    requested = sum(j.requested for j in jobs if j.kind == "rapid")
    completed = 0
    for j in jobs:
        if j.kind == "rapid":
            m = PASSED_RE.findall(j.out)
            completed += sum(int(x) for x in m)
    enum_jobs = [j for j in jobs if j.kind == "enum"]
    enum_complete = {}
    for k, v in extra.items():
        if k.endswith(":enumeration_complete"):
            enum_complete[k.split(":")[0]] = v
    evals += sum(fs.get("execs", 0) for fs in fuzz_stats)
    ev = {
        "property_id": pid,
        "tier": tier,
        "seed": int(seed),
        "level": "exploration",
        "coverage": {
            "evaluations": evals,
            "distinct_nontrivial": len(nt),
            "rule": " || ".join(f"[{k}] {v}" for k, v in sorted(rules.items())) or cfg.get("rule", ""),
            "samples": samples[:12],
            "exhaustive": False,
            "exhaustive_subspaces": [
                {"spec": s, "shards_completed": n, "shards": len([j for j in enum_jobs])} for s, n in enum_complete.items()
            ],
            "per_spec": {k: {"evaluations": v["evaluations"], "distinct_nontrivial": len(v["nt"]), "by_mode": v["modes"]}
                         for k, v in per_spec.items()},
            "classes": classes,
            "counters": extra,
            "discarded_cases": discarded,
            "rapid_checks_requested": requested,
            "rapid_checks_completed": completed,
            "native_fuzz": fuzz_stats,
            "excluded_features": sorted(notes.get("excludes", [])),
            "known_findings_reported": notes.get("known", []),
            "worker_processes": len(jobs),
        },
        "assumptions": cfg.get("assumptions", []),
        "wall_s": round(wall, 2),
        "violations": violations,
    }
    os.makedirs(EVIDENCE, exist_ok=True)
    with open(os.path.join(EVIDENCE, pid + ".json"), "w") as fh:
        json.dump(ev, fh, indent=1, sort_keys=False)
    return ev


def run_fuzz(pid, item, rundir, excludes):
    """native go fuzzing; returns (stats, violations:list of replay paths, infra_problem:str|None)"""
    target = item["fuzz"]
    fdir = os.path.join(HARNESS, "props", "testdata", "fuzz", target)
    shutil.rmtree(fdir, ignore_errors=True)
    env = goenv()
    outdir = os.path.join(rundir, "out")
    env.update({"VERIF_OUT": outdir, "VERIF_REPLAYS": REPLAYS, "VERIF_TIER": "thorough",
                "VERIF_EXCLUDE": ",".join(sorted(excludes))})
    before = set(glob.glob(os.path.join(REPLAYS, "*.json")))
    cmd = ["go", "test", "-tags", "verif", "-run", "^$", "-fuzz", f"^{target}$", "-fuzztime", item.get("fuzztime", "60s"),
           "-test.timeout", "0", "./props"]
    if os.environ.get("VERIF_MODFILE"):
        cmd.insert(2, "-modfile=" + os.environ["VERIF_MODFILE"])
    t0 = time.time()
    try:
        p = subprocess.run(cmd, cwd=HARNESS, env=env, stdout=subprocess.PIPE, stderr=subprocess.STDOUT, text=True,
                           errors="replace", timeout=item.get("timeout", 1200))
        out, rc = p.stdout, p.returncode
    except subprocess.TimeoutExpired as ex:
        out, rc = (ex.stdout.decode("utf8", "replace") if isinstance(ex.stdout, bytes) else (ex.stdout or "")), -9
    execs = 0
    for m in re.finditer(r"execs: (\d+)", out):
        execs = max(execs, int(m.group(1)))
    stats = {"target": target, "execs": execs, "wall_s": round(time.time() - t0, 1), "exit": rc}
    viols = []
    crashers = glob.glob(os.path.join(fdir, "*"))
    after = set(glob.glob(os.path.join(REPLAYS, "*.json"))) - before
    if rc != 0 and (crashers or after or "VERIF-VIOLATION" in out):
        # the harness wrote a JSON replay for each failing execution; take the smallest
        cands = sorted(after, key=lambda f: os.path.getsize(f))
        if cands:
            viols.append(cands[0])
        elif crashers:
            dst = os.path.join(REPLAYS, f"{pid}-fuzzcrasher-{os.path.basename(crashers[0])}")
            shutil.copy(crashers[0], dst)
            viols.append(dst)
        stats["output_tail"] = out[-1500:]
    elif rc != 0:
        stats["output_tail"] = out[-1500:]
        shutil.rmtree(fdir, ignore_errors=True)
        return stats, viols, f"native fuzz {target} exit {rc}"
    shutil.rmtree(fdir, ignore_errors=True)
    return stats, viols, None


def main():
    args = sys.argv[1:]
    if args and args[0] == "--setup":
        _, t1 = build(False)
        _, t2 = build(True)
        log(f"setup: built test binaries (plain {t1:.1f}s, race {t2:.1f}s)")
        return 0
    if not args:
        log(__doc__)
        return 2
    pid = args[0]
    tier = "quick"
    replay = None
    i = 1
    while i < len(args):
        if args[i] == "--tier":
            tier = args[i + 1]
            i += 2
        elif args[i] == "--replay":
            replay = args[i + 1]
            i += 2
        else:
            log("unknown argument", args[i])
            return 2
    if os.environ.get("VERIF_TIER") in ("quick", "thorough"):
        tier = os.environ["VERIF_TIER"]
    try:
        seed = int(os.environ.get("VERIF_SEED", "1"))
    except ValueError:
        seed = 1
    if pid not in PROPS:
        log(f"unknown property {pid}")
        return 2
    cfg = PROPS[pid]
    t0 = time.time()
    rundir = os.path.join(BUILD, f"run-{pid}-{os.getpid()}")
    shutil.rmtree(rundir, ignore_errors=True)
    os.makedirs(os.path.join(rundir, "out"), exist_ok=True)
    os.makedirs(REPLAYS, exist_ok=True)
    try:
        need_race = any(it.get("race") for it in cfg[tier]) or cfg.get("replay_race", False)
        binaries = {False: build(False, rundir)[0]}
        if need_race:
            binaries[True] = build(True, rundir)[0]
        replay_bin = binaries[True] if cfg.get("replay_race") else binaries[False]

        if replay and replay.endswith(".txt"):
            # a saved race-detector report: it is the evidence; the schedule is not replayable, so the
            # property's race-built jobs are run again (the report is shown first)
            log(open(replay).read()[:6000])
            replay = None
            cfg = dict(cfg)
            for tr in ("quick", "thorough"):
                cfg[tr] = [it for it in cfg[tr] if it.get("race")] or cfg[tr]
            PROPS[pid] = cfg
        if replay:
            j = run_replay(replay_bin, os.path.abspath(replay), rundir, "user")
            m = VIOL_RE.search(j.out)
            if m or j.rc not in (0,):
                if not m and j.rc == 1 and "VERIF" not in j.out:
                    log(j.out[-3000:])
                    return 2
                log(j.out[-3000:])
                log(f"VIOLATION property={pid} replay={os.path.abspath(replay)}")
                return 1
            log(f"replay ok: property {pid} holds on {replay}")
            return 0

        violations = []  # (replay path, message)
        infra = []
        notes = {"excludes": set(), "known": []}

        # ---- stage 1: known findings
        for e in load_known(pid):
            if e.get("status") != "known":
                continue
            rp = os.path.join(VERIF, e["repro"])
            j = run_replay(replay_bin, rp, rundir, "known-" + e.get("id", "x"))
            still = bool(VIOL_RE.search(j.out)) or j.rc not in (0, 1)
            if j.rc == 1 and not VIOL_RE.search(j.out):
                infra.append(f"known-finding repro {rp} could not be replayed:\n{j.out[-800:]}")
                continue
            if still:
                log(f"KNOWN-FINDING: property={pid} {e.get('id','')} {e['what']}")
                notes["known"].append(e.get("id", e["what"]))
                for x in e.get("excludes", []):
                    notes["excludes"].add(x)
        excludes = notes["excludes"]

        # ---- stage 2: replay tier (regression corpus)
        cdir = os.path.join(CORPUS, pid)
        known_repros = {os.path.abspath(os.path.join(VERIF, e["repro"])) for e in load_known(pid) if e.get("status") == "known"}
        cfiles = [f for f in sorted(glob.glob(os.path.join(cdir, "*.json"))) if os.path.abspath(f) not in known_repros]
        if cfiles:
            tmpc = os.path.join(rundir, "corpus")
            os.makedirs(tmpc)
            for f in cfiles:
                shutil.copy(f, tmpc)
            j = run_replay(replay_bin, tmpc, rundir, "corpus", excludes)
            for m in VIOL_RE.finditer(j.out):
                orig = os.path.join(cdir, os.path.basename(m.group(3)))
                violations.append((orig, m.group(4)))
            if j.rc not in (0, 1) or (j.rc == 1 and not VIOL_RE.search(j.out)):
                # the process replaying the regression cases died (fatal error, kill): replay them one
                # by one, each in its own process, to name the case
                attributed = False
                if not j.timed_out:
                    for f in cfiles:
                        one = run_replay(replay_bin, f, rundir, "corpus1-" + os.path.basename(f), excludes, timeout=300)
                        if one.timed_out and not cfg.get("hang_is_violation"):
                            continue
                        if one.rc not in (0, 1):
                            violations.append((f, "worker process died while replaying this regression case: " + last_lines(one.out, 12)))
                            attributed = True
                        elif one.rc == 1:
                            for m in VIOL_RE.finditer(one.out):
                                violations.append((f, m.group(4)))
                                attributed = True
                if not attributed:
                    infra.append(f"corpus replay exit {j.rc}:\n{j.out[-1500:]}")

        # ---- stage 3: generated search
        jobs = plan_jobs(pid, tier, seed, rundir, excludes, binaries)
        maxw = int(os.environ.get("VERIF_JOBS", str(NCPU)))
        with ThreadPoolExecutor(max_workers=maxw) as ex:
            list(ex.map(lambda j: j.run(), jobs))
        died_confirmed = False
        for j in jobs:
            ms = list(VIOL_RE.finditer(j.out))
            if ms:
                for m in ms:
                    violations.append((m.group(3), m.group(4)))
                continue
            if j.timed_out:
                infra.append(f"{j.name}: timed out after {j.timeout}s (inconclusive)")
                continue
            if j.rc == 0:
                if j.kind == "rapid":
                    done = sum(int(x) for x in PASSED_RE.findall(j.out))
                    if done < j.requested:
                        infra.append(f"{j.name}: rapid completed {done} of {j.requested} checks")
                continue
            # abnormal exit: worker died (fatal error, race report, os kill)
            confirmed = False
            tail = j.out[-2500:]
            if died_confirmed and "VERIF-HANG" in j.out:
                # another worker ran into a suspected hang after one was confirmed already in this
                # run: the verdict stands, confirming each of them would cost minutes apiece
                log(f"  {j.name}: suspected hang not confirmed separately (a dead worker of this run was confirmed already)")
                continue
            journals = sorted(glob.glob(os.path.join(rundir, "out", f"journal-*-{j.env['VERIF_WORKER']}.json")), key=os.path.getmtime)
            if cfg.get("journal") and journals:
                # confirm each candidate journal in a fresh process
                for cand in journals:
                    tries = cfg.get("confirm_tries", 3)
                    for k in range(tries):
                        r = run_replay(binaries[j.argv[0].endswith(".race.test")], cand, rundir, f"confirm-{os.path.basename(cand)}-{k}", excludes)
                        if r.timed_out and not cfg.get("hang_is_violation"):
                            continue  # a time budget hit is inconclusive unless the property is about termination
                        if r.rc != 0:
                            dst = os.path.join(REPLAYS, f"{pid}-died-{hashlib.sha1(open(cand,'rb').read()).hexdigest()[:16]}.json")
                            shutil.copy(cand, dst)
                            if cfg.get("reduce_died"):
                                dst = reduce_died_case(pid, binaries[j.argv[0].endswith(".race.test")], dst, rundir, excludes)
                            msg = "worker process died / reported while running this case: " + last_lines(r.out, 12)
                            violations.append((dst, msg))
                            confirmed = True
                            died_confirmed = True
                            break
                    if confirmed:
                        break
            if not confirmed and "WARNING: DATA RACE" in j.out:
                # A report of Go's race detector is evidence by itself (it has no false positives),
                # also when the schedule cannot be reproduced from a journalled case. It counts when
                # the racing accesses are in pongo2 (not in the harness).
                at = j.out.index("WARNING: DATA RACE")
                report = j.out[at:at + 6000]
                if "github.com/flosch/pongo2/v6." in report:
                    dst = os.path.join(REPLAYS, f"{pid}-race-{hashlib.sha1(report.encode()).hexdigest()[:16]}.txt")
                    with open(dst, "w") as f:
                        f.write(f"worker: {' '.join(j.argv)}\nGOMAXPROCS={j.env.get('GOMAXPROCS', '')}\n\n{report}")
                    violations.append((dst, "race detector report (not reproduced from a single case; the report is the evidence): " + last_lines(report, 14)))
                    confirmed = True
            if not confirmed:
                infra.append(f"{j.name}: abnormal exit {j.rc}, not attributable to a case:\n{tail}")

        # ---- stage 4: native fuzzing (thorough only)
        fuzz_stats = []
        if tier == "thorough" and not violations:
            for item in cfg.get("fuzz", []):
                st, vs, problem = run_fuzz(pid, item, rundir, excludes)
                fuzz_stats.append(st)
                for v in vs:
                    violations.append((v, "native fuzzing found a failing input"))
                if problem:
                    infra.append(problem)

        wall = time.time() - t0
        ev = merge_evidence(pid, tier, seed, rundir, wall, len(violations), notes, jobs, fuzz_stats)
        cov = ev["coverage"]
        log(f"[{pid} {tier} seed={seed}] evaluations={cov['evaluations']} distinct_nontrivial={cov['distinct_nontrivial']} "
            f"rapid={cov['rapid_checks_completed']}/{cov['rapid_checks_requested']} wall={wall:.1f}s")
        if violations:
            seen = set()
            for path, msg in violations:
                if path in seen:
                    continue
                seen.add(path)
                log(f"  violation detail: {msg[:600]}")
                log(f"VIOLATION property={pid} replay={path}")
            return 1
        if infra:
            for x in infra:
                log("INCONCLUSIVE: " + x)
            return 2
        return 0
    finally:
        if not os.environ.get("VERIF_KEEP"):
            shutil.rmtree(rundir, ignore_errors=True)


TOK_RE = re.compile(r'\{\{-?|-?\}\}|\{%-?|-?%\}|\{#|#\}|"(?:[^"\\\\]|\\\\.)*"|\'[^\']*\'|[A-Za-z_][A-Za-z_0-9]*|[0-9]+|\s+|.', re.S)


REDUCTIONS = [0]


def reduce_died_case(pid, binary, path, rundir, excludes, budget=30):
    """Bounded delta debugging for a case that kills the worker (rapid cannot shrink those).
    Works on descriptors that hold their template sources in case.files[case.entry] (C01):
    token chunks of the entry source, whole helper files and the mutation list are removed
    one at a time while a fresh process still dies on the case. Returns the path of the
    smallest still-failing descriptor (the input path if nothing could be removed)."""
    try:
        doc = json.load(open(path))
        case = doc["case"]
        files, entry = case["files"], case["entry"]
    except Exception:
        return path
    # one reduced reproduction per run is enough (every probe of a case that hangs costs its bound)
    REDUCTIONS[0] += 1
    if REDUCTIONS[0] > 1:
        return path
    runs = [0]

    def still_dies(c):
        if runs[0] >= budget:
            return False
        runs[0] += 1
        tmp = os.path.join(rundir, f"reduce-{runs[0]}.json")
        json.dump({"property": doc["property"], "spec": doc["spec"], "message": doc.get("message", ""), "case": c}, open(tmp, "w"))
        # (the reducer only asks "does it still fail the same way": the short bound will do)
        r = run_replay(binary, tmp, rundir, f"reduce-{runs[0]}", excludes, timeout=180, hang_bound=10)
        return r.rc != 0

    best = case
    if case.get("muts"):
        c = dict(best, muts=[])
        # apply the mutations into the source first so that they can be dropped
        if still_dies(c):
            best = c
    import base64
    is_raw = bool(case.get("raw"))
    if is_raw:
        src = base64.b64decode(best["raw"]).decode("latin-1")
    else:
        src = best["files"][entry]
    toks = TOK_RE.findall(src)

    def with_src(b, text):
        if is_raw:
            return dict(b, raw=base64.b64encode(text.encode("latin-1")).decode())
        return dict(b, files=dict(b["files"], **{entry: text}))
    n = 2
    while len(toks) >= 2 and runs[0] < budget:
        chunk = max(1, len(toks) // n)
        removed = False
        for i in range(0, len(toks), chunk):
            cand = toks[:i] + toks[i + chunk:]
            c = with_src(best, "".join(cand))
            if still_dies(c):
                toks, best, removed = cand, c, True
                n = max(n - 1, 2)
                break
        if not removed:
            if chunk == 1:
                break
            n = min(len(toks), n * 2)
    out = path.replace(".json", "-reduced.json")
    if best is not case:
        # the probes used a short bound: the reduced case must fail under the long one as well
        tmp = os.path.join(rundir, "reduce-final.json")
        json.dump({"property": doc["property"], "spec": doc["spec"], "message": doc.get("message", ""), "case": best}, open(tmp, "w"))
        if run_replay(binary, tmp, rundir, "reduce-final", excludes, timeout=600).rc == 0:
            return path
    doc["case"] = best
    doc["message"] = doc.get("message", "") + f" (reduced by the driver in {runs[0]} fresh-process runs)"
    json.dump(doc, open(out, "w"), indent=1)
    return out


def last_lines(s, n):
    lines = s.strip().splitlines()
    key = [l.strip() for l in lines if re.search(r"fatal error|DATA RACE|^panic:|goroutine stack exceeds|VERIF-VIOLATION", l)]
    if key:
        return " | ".join(key[:4])[:1500]
    return " | ".join(lines[-n:])[:1500]


if __name__ == "__main__":
    sys.exit(main())
