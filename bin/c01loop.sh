#!/bin/bash
# dev helper: rebuild and run C01 once, show the first finding
cd /verif/harness && export GOFLAGS=-mod=mod GOPROXY=off GOSUMDB=off GOTOOLCHAIN=local && go test -c -tags verif -o /verif/.build/props.test ./props && cd /verif/.build/w && rm -rf testdata /verif/.build/out && VERIF_OUT=/verif/.build/out /verif/.build/props.test -test.run "^TestC01" -rapid.checks=${1:-30000} -rapid.seed=${2:-3} -test.timeout 600s > /tmp/c01.log 2>&1; grep -v "rapid\] draw" /tmp/c01.log | grep "VERIF-\|^PASS\|^ok\|^---\|fatal error\|stack exceeds" | head -6 | cut -c1-600
python3 - <<'PY'
import json,glob,os
fs=sorted(glob.glob('/verif/.build/out/replays/C01*.json'), key=os.path.getsize)
if fs:
    d=json.load(open(fs[0])); m=d['message']; print(m[:300]); 
    import re
    fr=[l for l in m.splitlines() if '/repo/' in l][:3]; print("\n".join(fr))
PY
