#!/usr/bin/env python3
"""Regenerates /verif/MANIFEST.json from bin/propconfig.py and the texts below."""
import json
import os
import subprocess
import sys

VERIF = os.path.dirname(os.path.dirname(os.path.abspath(__file__)))
sys.path.insert(0, os.path.join(VERIF, "bin"))
from propconfig import PROPS  # noqa: E402

ALL = [f"C{i:02d}" for i in range(1, 21)]

TEXT = {
    "C06": {
        "technique": "property-based testing (rapid) + bounded exhaustive enumeration + native coverage-guided fuzzing; identity / concatenation oracle",
        "text": "Generated-input search: random delimiter-free byte strings and random fragment sequences (text, verbatim, both comment forms, literals, tag blocks, templatetag) against an identity/concatenation oracle, plus complete enumeration of all strings up to length 5 (quick) / 7 (thorough) over the 12 lexer-significant characters. Exploration only: shows absence of violations on what was generated. Sources reach the engine by every route (FromBytes with the caller's buffer scribbled afterwards, FromString, FromFile, FromCache, RenderTemplate*, as target of include / ssi parsed).",
        "note": "Trusted: the harness' in-memory loader and the independent templatetag table. Fragments carry no '-' markers (C15's domain). Inputs longer than the generated sizes are not covered.",
        "design_ref": "DESIGN.md section 3, C06",
    },
}

TEXT["C17"] = {
    "technique": "property-based testing (rapid) + exhaustive BMP/special-triple sweep + native fuzzing; round-trip through independent decoders and reference implementations",
    "text": "Each of the nine escaping filters is applied, through ApplyFilter and through template syntax (both must agree; the filtered output stands directly in an autoescape-off region or inside a for / with / set / macro / if written there), to generated strings and to an exhaustive sweep (every BMP scalar as a 1-rune string; all strings up to length 3 over 11 specials). Oracle per filter in both directions: forbidden characters absent, and an independent decoder (HTML entity, JS \\uXXXX incl. surrogate pairs, query decoding) or reference implementation (iriencode, addslashes, striptags, removetags) reproduces the input / expected text. Exploration-level assurance.",
    "note": "Trusted: the small reference decoders in harness/props/c17_test.go. escapejs' pinned treatment of the two-character sequences \\n, \\r and of invalid UTF-8 is accepted as specified behaviour.",
    "design_ref": "DESIGN.md section 3, C17",
}

TEXT["C18"] = {
    "technique": "property-based testing (rapid) + exhaustive integer-argument windows; differential against independent reference functions and shape predicates",
    "text": "34 data filters and the widthratio tag are run (ApplyFilter and template syntax, which must agree) on generated strings, sequences of every sliceable kind (incl. by-value and pointer arrays), numbers and times, and on exhaustive windows (slice bounds -8..8 squared plus blanks over lengths 0..6 and 7 sequence kinds; widths/lengths -3..20 over strings of 0..12 runes; word counts; digit positions; divisors). Results are compared with small independent reference functions (Python slicing, rune-based sequence operations, decimal rounding on the decimal string, ...) or with the shape predicate the property states. Exploration-level assurance. widthratio is also run over float arguments up to 1e308 against exact rational arithmetic. Where input and parameter can be written as template literals a third route renders them as literals: it must agree, and a float literal must be the float64 nearest to it (stringformat:\"%.17g\").",
    "note": "Trusted: the reference functions in harness/props/c18_test.go. Fixture-pinned deviations from Django are accepted (listed in the evidence assumptions). Not covered: phone2numeric, title, urlize*, linebreaks, random, truncate*_html (not named by the property).",
    "design_ref": "DESIGN.md section 3, C18",
}

TEXT["C07"] = {
    "technique": "property-based testing (rapid) + bounded exhaustive enumeration of expression trees; differential against an independent evaluator of the generated tree",
    "text": "Well-typed expression trees are generated (random to depth 7; exhaustively all trees with up to 2 binary operators over 9 leaves with unary operators at every node, up to 3 binary operators over 4 leaves in the thorough tier), printed with minimal parentheses according to the stated precedence/associativity plus random spellings, spacing and redundant parentheses, rendered as {{ e }} and {% if e %}, and compared (operands include context variables of every integer width, string literals spelling signs / operators / keywords, membership in typed lists, in a []any of mixed integer kinds and in array literals whose items are expressions) with an independent evaluator of the tree (int64 wrap-around, truncated division, float promotion, concatenation, short-circuit; division/modulo by zero must be an execution error and only then). Exploration-level assurance inside the stated fragment.",
    "note": "Trusted: the tree evaluator and the minimal-parenthesis printer in harness/props/c07_test.go. Outside the fragment (see assumptions in the evidence file) nothing is asserted.",
    "design_ref": "DESIGN.md section 3, C07",
}

TEXT["C14"] = {
    "technique": "property-based testing (rapid) with per-program fault enumeration; differential between the four Execute entry points and recording / failing writers",
    "text": "For every generated multi-file program the number T of evaluated tick() outputs is measured and every fault position k in 1..T is injected (fault enumeration, cap 40), plus a caller's writer that fails after 0/1/mid/len-1 bytes. Execute, ExecuteBytes, ExecuteWriter (into io.Writer, *bytes.Buffer and *strings.Builder) and ExecuteWriterUnbuffered must agree on bytes and error text (all of them are handed the same lists, maps and structs, as a caller's context would); ExecuteWriter must have written nothing on failure; the unbuffered writer must hold a prefix of the fault-free output; the writer's error must be returned (errors.Is) also when the writer reports it together with progress; ExecuteWriterUnbuffered as first execution of a fresh template must already agree; a fault-free run after the failures must reproduce the original bytes.",
    "note": "Trusted: recording/failing writers and the tick() fault injector of the harness. Faults other than an erroring context function (e.g. panicking user code) are not injected.",
    "design_ref": "DESIGN.md section 3, C14",
}

TEXT["C15"] = {
    "technique": "property-based testing (rapid); metamorphic relation marked-document vs hand-stripped document, reference implementation for spaceless",
    "text": "Generated documents (with files pulled in by include or ssi parsed) whose literal text carries random whitespace runs around constructs, every delimiter independently marked with '-', under all four TrimBlocks x LStripBlocks settings, are rendered and compared byte for byte with the same document from which exactly the named whitespace was deleted by hand, compiled with everything off; documents are single files, files with includes, or two-level hierarchies, and in a quarter of the cases the options are set per template (tpl.Options) with the hand-stripped reference compiled in the same set. spaceless is compared with an independent fixed-point implementation of 'remove exactly the whitespace runs between two tags' over bodies with stray angle brackets, multi-line tags and context-supplied markup. C15.sides checks that a '-' does on its side exactly what it does alone, over text with ASCII and Unicode whitespace.",
    "note": "Trusted: the hand-stripping function (c15Strip) and refSpaceless in harness/props/c15_test.go. Comments next to markers / block tags and option handling across extends are deliberately outside (see evidence assumptions); verbatim blocks are opaque constructs whose body must come out untouched.",
    "design_ref": "DESIGN.md section 3, C15",
}

TEXT["C16"] = {
    "technique": "property-based testing (rapid) with an offset-recording source printer + planted-fault injection + metamorphic prefix insertion + exhaustive small strings + native fuzzing",
    "text": "(1) Layouts written by a printer that knows the byte offset of every lexeme are lexed through the VerifLex hook; the token list must equal the printer's in type, value, trim flag and line/column. (2) For arbitrary strings (exhaustive up to length 5/6 over the lexer alphabet, mutated layouts, native fuzzing) every token's position must lie in the source, be ordered, and hold the token's text. (3) In generated 1-3 file sets exactly one fault of 22 kinds is planted at a known lexeme; the returned *pongo2.Error must name the faulty file, point inside it to text matching its token, for 16 kinds exactly at the planted lexeme, and a random prefix inserted in front must shift the reported offset by exactly its length. (4) C16.anyerror: for token-mutated multi-file programs, whatever error results must name one of the sources, point inside it and hold the reported token's text there.",
    "note": "Trusted: the printer's offset bookkeeping and the line/column arithmetic of the harness; the VerifLex hook (a one-line wrapper around lex). Error kinds other than the 22 planted ones are not examined.",
    "design_ref": "DESIGN.md section 3, C16",
}

TEXT["C04"] = {
    "technique": "property-based testing (rapid) over execution histories; differential: shared compiled template vs freshly compiled template per execution",
    "text": "Generated deterministic multi-file programs over every tag are compiled once and executed 2-6 times with contexts drawn from a pool (equal contexts recur; the same names carry different Go types), through randomly chosen entry points (Execute, ExecuteBytes, ExecuteWriter, ExecuteWriterUnbuffered, ExecuteBlocks), with failing executions mixed in (injected function errors, invalid context keys, division by a zero variable), under both TrimBlocks/LStripBlocks settings. Each (output, error text) is compared with executing the same context on a freshly compiled template that is used exactly once; the byte slices ExecuteBytes handed out are read again after the whole history. Exploration-level assurance; the static 'for all reachable functions' facet is not decided.",
    "note": "Trusted: determinism of the generated programs and of the harness' context values. State that an execution leaves behind but that never influences a later output or error is invisible to this oracle.",
    "design_ref": "DESIGN.md section 3, C04",
}

TEXT["C05"] = {
    "technique": "property-based testing (rapid) of concurrent workloads under the Go race detector; differential against sequential fresh-compile results",
    "text": "Generated deterministic programs are compiled once and executed by 2-8 goroutines (1-12 repetitions each, all four entry points, some with injected faults) released together by a barrier while further goroutines call FromCache/FromFile on the same set, with GOMAXPROCS 2/4/16, in a binary built with -race and GORACE=halt_on_error. A race report kills the worker; the write-ahead journal identifies the workload, which is confirmed in fresh processes before it is reported. Every concurrent result must equal what the same context gives on a freshly compiled template executed alone. A second generator (C05.raceonly) runs programs with the nondeterministic constructs (random filter, lorem random, now) concurrently with the race detector as only oracle. Exploration-level: schedules are sampled. A third workload (C05.coldset) lets 2-8 goroutines perform the very first compilations on a fresh set at once (FromFile / FromCache / FromString / FromBytes / RenderTemplateFile).",
    "note": "Trusted: the Go race detector and the harness' barrier. Schedules are sampled, not enumerated; the static facet (every write reachable from execution entry points) is not decided.",
    "design_ref": "DESIGN.md section 3, C05",
}

TEXT["C20"] = {
    "technique": "model-based stateful property testing (rapid state machine) with concurrent batches, plain and under the race detector; map model with loader fetch counters",
    "text": "rapid's state-machine mode drives 1-2 template sets over 3 names (through aliases resolving to the same file) with FromCache, CleanCache(all / names), Debug toggles, content changes, unloadable files and concurrent batches (k=2-16 goroutines behind a barrier issuing the same FromCache: exactly one fetch and one instance; mixed FromCache/CleanCache batches: order-independent bounds), compared after every step with a map model that tracks the cached instance, its content generation and the loader's fetch counters; sets carry different globals, options and bans, and every cached entry of every set must survive operations on the other set; a global of the DEFAULT set must stay invisible in all of them. Run plain and with -race. C20.composed runs histories over names that are made of each other (base, children, grandchild, page + included part, importer + macro library): a cached entry keeps rendering what it was compiled from, whatever is compiled, cached or cleaned around it.",
    "note": "Trusted: the recording loader and the model in harness/props/c20_test.go. Interleavings inside batches are sampled. Concurrent toggling of Debug is outside the property (documented as caller-synchronised).",
    "design_ref": "DESIGN.md section 3, C20",
}

TEXT["C03"] = {
    "technique": "property-based testing (rapid) + enumeration of (target x route) + model-based call histories; observable probe tag/filter, differential banned-set vs unbanned-set",
    "text": "Every registered tag and filter (read through the registry hook, plus a probe tag and probe filter whose parsing/execution is counted) is banned in one set and used through generated routes: 24 expression positions x nested statement bodies (14 kinds, depth <= 3) x 9 file-composition routes (includes static/nested/lazy, extends parent/child, imported macro, ssi parsed). The template must fail to compile (lazy include: to execute), the probe counters must stay zero, a banned include must fetch nothing, the same template must be usable in an unbanned set, and an unbanned twin must render identically in both sets. All targets x single-wrapper routes x file routes are enumerated. Call histories over Ban*/From*/Render*/probes on two sets are compared with a (banned tags, banned filters, frozen) model. C03.concurrent lets a ban arrive while the first template is being compiled; C03.creators lets 2-8 goroutines create the first templates of a banned set at once by every route (also under the race detector).",
    "note": "Trusted: the probe registration and the route table in harness/props/c03_test.go. Syntax forms that are invalid today are only covered where listed as speculative routes.",
    "design_ref": "DESIGN.md section 3, C03",
}

TEXT["C10"] = {
    "technique": "property-based testing (rapid); differential against a reference resolution of the generated hierarchy",
    "text": "Generated inheritance chains of 1-5 templates in an in-memory loader (different directories, rooted and relative parent names) with random block sets per level (override with Super any number of times and in any position, inherit, add, nest, text outside blocks; base blocks nested in blocks, in live/dead if-branches and in for-loops). Every level is rendered twice and compared with an independent reference resolution (most-derived definition wins; Super = next less-derived definition, empty at the base; levels above the rendered one do not exist); the base is rendered before and after its children were compiled. Thirteen invalid shapes (a second extends naming another or the same parent, nested extends, duplicate blocks, ...) must fail to compile, directly or through another extends; every level is also rendered through a page that includes it. Loops iterate over distinct letters and definitions print the loop variable (Super must show the current iteration); afterwards any level is fetched in any order with FromCache / FromFile on a fresh set.",
    "note": "Trusted: the reference resolver c10Ref. Hierarchies in which blocks contain each other are excluded (no defined rendering).",
    "design_ref": "DESIGN.md section 3, C10",
}

TEXT["C12"] = {
    "technique": "property-based testing (rapid); differential against a reference environment (scope) model, plus deep before/after comparison of caller data",
    "text": "Generated nestings of with / for / macro / set / if / include over four deliberately colliding names, with a probe {{ name }} after every construct and inside every body and the same names present in Context and Globals, are rendered and compared with an independent reference interpreter that implements the scoping rules of the property. After every execution the caller's Context and the set's Globals are compared (reflect.DeepEqual, nested maps and slices included) with freshly built copies. Malformed keys and keys clashing with an exported macro must be rejected by every entry point without output, also when added to a map that was valid and executed before. A third of the macros are imported from a library file, and every compiled template is rendered again with the same context, with other values under the same names and with the first context.",
    "note": "Trusted: the reference interpreter in harness/props/mm_test.go and the value builder. Mutation of values reachable only through functions or pointers is not observed.",
    "design_ref": "DESIGN.md section 3, C12",
}

TEXT["C09"] = {
    "technique": "property-based testing (rapid); differential against a reference interpreter of the generated tag tree",
    "text": "Generated nestings (depth <= 4) of if/elif/else, ifequal/ifnotequal, firstof, for (+empty, reversed, sorted, key/value over sorted maps), cycle (plain/as/silent) and ifchanged over generated lists (typed, []any, written as array literals naming enclosing loop variables, integers beyond 2^53), strings (multi-byte), maps (string, int and any keys), nil and scalars are rendered once on a fresh compile and compared with an independent reference interpreter that implements the semantics stated by the property, including every forloop field and Parentloop chain inside bodies and inside empty branches. C09.nilvalues loops over maps and lists some of whose elements are nil (typed nil pointers, nil interfaces): one pass per element, the variables bound anew each time.",
    "note": "Trusted: the reference interpreter in harness/props/mm_test.go. ifchanged inside nested loops and unsorted map iteration are outside the asserted fragment (see evidence assumptions).",
    "design_ref": "DESIGN.md section 3, C09",
}

TEXT["C13"] = {
    "technique": "property-based testing (rapid) + enumeration of small call graphs; differential against a reference interpreter and between the local / imported / aliased forms; crash detection through a write-ahead journal",
    "text": "Macro signatures (0-4 parameters, any subset with defaults) and call sites (0-5 arguments of several kinds, strings needing escaping) are rendered in three forms - defined locally, imported, imported under an alias - that must agree with each other and with a reference interpreter (positional binding, defaults evaluated in the defining scope, omitted parameters shadow outer names, too many arguments = error, escaping exactly once). Call graphs over 1-3 macros without a base case (direct, mutual, branching; via body, default expression or argument; local / imported / mixed) must end in an execution error with the process alive; the same graphs with a counter terminate and must match the reference. All graphs with out-degree 1 over <= 2 (quick) / 3 (thorough) macros are enumerated. C13.options renders one exported macro (body of text, whitespace, outputs and nested block tags) locally, imported and aliased in sets with every TrimBlocks / LStripBlocks combination: the three forms must give the same bytes.",
    "note": "Trusted: the reference interpreter in harness/props/mm_test.go; the driver's journal/confirmation logic for process deaths.",
    "design_ref": "DESIGN.md section 3, C13",
}

TEXT["C08"] = {
    "technique": "property-based testing (rapid); differential against a reference resolver that walks the typed value descriptor",
    "text": "Random nested context values (string- and int-keyed maps, []any, typed slices, arrays by value and by pointer, structs by value / pointer / nil pointer with exported, unexported, embedded, pointer and any-typed fields, value- and pointer-receiver methods, variadic and error-returning methods, functions of every accepted signature shape) are combined with access paths generated by walking the descriptor - valid ones and ones with a wrong turn (missing key, unexported field, out-of-range / negative index through a variable, step on nil, step on a scalar, wrong arity or argument type, failing function, call of a non-function) - and observed through {{ p }}, {{ p|length }} and {% if p %}. A reference resolver over the descriptor predicts value / empty / execution error; every template is evaluated twice. C08.hetero applies one parsed path inside a loop to values of different Go types with overlapping member names and compares with element-wise resolution. Shadowing (tag bindings over context over globals) is checked on fixed templates and, more broadly, by C12. A generated shadowing spec (C08.shadow) binds one name in any subset of globals / context and through 0-4 nested tags and reads it directly or inside included templates. C08.named resolves methods, keys and indexes of values of named non-struct types (named slice, map, int64, string, float64) reached directly, through pointers, struct fields, maps and lists, with right and wrong arguments; C08.blockname reads the name block (block.Super) at every place of a block's body against context entries and globals of that name.",
    "note": "Trusted: the reference resolver c08Resolve and the value builder. Behaviours the property leaves open are discarded (listed in the evidence assumptions).",
    "design_ref": "DESIGN.md section 3, C08",
}

TEXT["C19"] = {
    "technique": "property-based testing (rapid); differential between template syntax at 27 positions and left-to-right composition of the public ApplyFilter",
    "text": "Chains of 0-4 deterministic registered filters with literal, context, dotted-path and enclosing-scope parameters are written at 27 expression positions (output, if/elif, for-in, with, set, include-with, firstof, ifequal, widthratio, macro argument/default - also where the surrounding scope binds the parameter's name -, subscript, cycle, ifchanged, operands of +, unary minus, ==, in and not, items of an array literal, function-call arguments, and the filter tag with several body kinds) and compared with the left-to-right fold of ApplyFilter over the same values; a failing fold requires an execution error. Unregistered filter / tag names are planted at every position and must fail compilation (filter tag: at the latest execution, without output). Registering any registered name again must be refused and leave the first implementation in effect; a fresh name is accepted once.",
    "note": "Trusted: the public Value API used for observation. Filters are compared with themselves (ApplyFilter) here; what each filter computes is C17/C18's concern.",
    "design_ref": "DESIGN.md section 3, C19",
}

TEXT["C11"] = {
    "technique": "property-based testing (rapid) over virtual file trees and loader configurations; differential against a reference composition, recording loaders, canary files",
    "text": "Virtual trees of up to 8 files (equal base names in different directories), 1-3 recording loaders with overlapping names and different contents, and acyclic reference graphs over include (static/lazy, with, only, if_exists), extends, import, ssi plain and parsed with names written rooted, relative, with .. and with detours, including names no loader serves. The output is compared with a reference composition (first loader wins, relative to the referring file, missing = error or nothing with if_exists, only hides includer variables, rooted literal = rooted computed); the loaders' Get logs must contain no name outside the referenced set, everything used must have been fetched through a loader, and the text of canary files at the same relative paths in the working directory must never appear. A second spec (C11.shipped) runs the same compositions through the loaders pongo2 ships (LocalFilesystemLoader with and without base directory on a real temporary tree, FSLoader, HttpFilesystemLoader), alone and several per set, each with its documented resolution rule.",
    "note": "Trusted: the recording loaders and the reference composer c11Ref. File-system reads that do not surface in output or errors would go unnoticed.",
    "design_ref": "DESIGN.md section 3, C11",
}

TEXT["C02"] = {
    "technique": "property-based testing (rapid) with taint markers + exhaustive filter x input x form sweep; non-interference oracle on the output bytes",
    "text": "Opt-out-free programs over the whole tag / filter / operator vocabulary (filters drawn from the registry hook, so new ones are covered) are rendered against a context in which every string leaf - map values and keys, slice items, struct fields, []any items, function / method / (T, error) results, Stringers on struct, int and pointer receivers, defined string types, *string - is a marker carrying all five HTML specials, while template text and literals carry none. After deleting the five entities and the engine's constant '<type Value>' renderings, the output must contain none of < > & ' \" : any survivor originated in the context. Every registered filter is additionally applied to 13 tainted inputs in 14 forms, exhaustively. C02.partial writes an opt-out on a harmless part (a literal with |safe, a macro result, a Go-side safe value) next to tainted text in 28 forms x 9 inputs x 6 safe parts, exhaustively: an opt-out covers only what it is written on.",
    "note": "Trusted: the marker construction and the whitelist regexes in harness/props/c02_test.go. Opt-outs named by the property are excluded by construction.",
    "design_ref": "DESIGN.md section 3, C02",
}

TEXT["C01"] = {
    "technique": "property-based testing (rapid) over grammar programs, token-mutated programs and lexeme soup + native coverage-guided fuzzing of raw bytes; crash / hang detection with a write-ahead journal",
    "text": "Every case compiles and (if that succeeds) executes a generated template against a context holding the whole value universe of the property (also installed as Globals): grammar programs over every registered tag and filter (registry hook) with error-prone constructs, a crude grammar that mixes path steps, subscripts, calls and filters freely, random lexeme soup, and 1-3 token-level mutations of valid programs; in the thorough tier also raw bytes through Go's native fuzzer seeded with the repository's fixtures and hostile constants. The oracle is totality only: exactly one of (template, *Error) from compilation, Execute returns, no panic, the worker process survives (a death is attributed to the journalled case and confirmed in a fresh process), no case exceeds the hang bound. The set's entry point is part of the case: FromFile, FromCache, FromString, FromBytes, RenderTemplateFile/String/Bytes, ExecuteBlocks. A grid mode enumerates every registered filter x 10 typical inputs x 16 hostile parameters taken from the context (extreme integers of every width, infinities, NaN, nil, containers), in an output and in a filter tag.",
    "note": "Trusted: the harness' own context functions (total by construction) and the journal / confirmation logic of the driver. Absence of hangs only up to the generated sizes.",
    "design_ref": "DESIGN.md section 3, C01",
}

PENDING_REASON = "check not built yet in this build phase (DESIGN.md section 3 describes the planned PBT check); will be claimed once its quick tier is silent on the unchanged tree and kills its mutants"


def hook_commits():
    try:
        out = subprocess.run(["git", "-C", "/repo", "log", "--format=%H", "--grep=^verif:"], capture_output=True, text=True).stdout
        return out.split()
    except Exception:
        return []


def main():
    checks = []
    na = []
    for pid in ALL:
        if pid in PROPS and pid in TEXT:
            t = TEXT[pid]
            checks.append({
                "property_id": pid,
                "quick_cmd": f"python3 bin/check.py {pid} --tier quick",
                "thorough_cmd": f"python3 bin/check.py {pid} --tier thorough",
                "evidence_file": f"/verif/evidence/{pid}.json",
                "replay_cmd_template": f"python3 bin/check.py {pid} --replay {{path}}",
                "engine": "harness",
                "level_claimed": {"category": t.get("category", "exploration"), "text": t["text"], "design_ref": t["design_ref"]},
                "level_note": t["note"],
                "technique": t["technique"],
            })
        else:
            na.append({"property_id": pid, "reason": TEXT.get(pid, {}).get("na", PENDING_REASON)})
    m = {
        "version": 1,
        "setup_cmd": "python3 bin/check.py --setup",
        "hooks": {
            "guard": "verif",
            "enable": "go build tag: every check compiles /repo with `-tags verif` (file /repo/verif_hooks.go, //go:build verif)",
            "baseline_off_cmd": "cd /repo && go test -vet=off -count=1 ./...",
            "source_commits": hook_commits(),
            "add_only": True,
        },
        "engines": [{
            "name": "harness",
            "path": "/verif/harness",
            "serves_properties": [c["property_id"] for c in checks],
            "kind_free_text": "Go test module (pgregory.net/rapid v1.3.0 + native go fuzzing) compiled against /repo's working tree through a replace directive; driven by bin/check.py",
        }],
        "checks": checks,
        "notes": "All checks are property-based tests / fuzzers with explicit oracles (DESIGN.md). Seeds derive from VERIF_SEED. Exit 2 = inconclusive infrastructure problem, never a violation.",
        "not_applicable": na,
    }
    with open(os.path.join(VERIF, "MANIFEST.json"), "w") as fh:
        json.dump(m, fh, indent=1)
    print(f"MANIFEST.json: {len(checks)} checks, {len(na)} not_applicable")


if __name__ == "__main__":
    main()
