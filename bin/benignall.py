#!/usr/bin/env python3
"""Run every quick check against property-preserving changes (false-alarm test).
usage: benignall.py <srcdir> [--keep]     srcdir/<id>/b<n>.patch + b<n>.json (written by sub-agents)
Each change is applied in a scratch worktree of /repo (never to /repo itself), the suite is run,
then all claimed checks run against it through VERIF_MODFILE. Prints the checks that report a
violation: each is a false-alarm candidate to be analysed by hand. With --keep the change and the
outcome are stored under /verif/benign/<id>-b<n>/."""
import glob, json, os, subprocess, sys, shutil
from concurrent.futures import ThreadPoolExecutor
VERIF = os.path.dirname(os.path.dirname(os.path.abspath(__file__)))
ENV = dict(os.environ, GOFLAGS="-mod=mod", GOPROXY="off", GOSUMDB="off", GOTOOLCHAIN="local")


def sh(cmd, cwd=None, timeout=7200):
    p = subprocess.run(cmd, shell=True, cwd=cwd, env=ENV, capture_output=True, text=True, timeout=timeout)
    return p.returncode, p.stdout + p.stderr


def one(patch):
    pid = os.path.basename(os.path.dirname(patch))
    n = os.path.basename(patch)[1:-len(".patch")]
    name = f"{pid}-b{n}"
    only = os.environ.get("BENIGN_CHECKS")
    ids = only.split(",") if only else [c["property_id"] for c in json.load(open(os.path.join(VERIF, "MANIFEST.json")))["checks"]]
    wt = f"/tmp/bn-{name}-{os.getpid()}"
    res = {"name": name, "patch": patch}
    try:
        rc, out = sh(f"git -C /repo worktree add -q --detach {wt} HEAD")
        assert rc == 0, out
        rc, out = sh(f"git apply {patch}", cwd=wt)
        res["applies"] = rc == 0
        if rc != 0:
            res["apply_output"] = out[-300:]
            return res
        rc, out = sh("go build ./... && go test -vet=off -count=1 ./...", cwd=wt)
        res["suite_passes"] = rc == 0
        if rc != 0:
            res["suite_tail"] = out[-400:]
            return res
        open(wt + ".mod", "w").write(open(os.path.join(VERIF, "harness", "go.mod")).read().replace("=> /repo", "=> " + wt))
        shutil.copy(os.path.join(VERIF, "harness", "go.sum"), wt + ".sum")
        os.makedirs(wt + ".ev", exist_ok=True)
        res["alarms"], res["inconclusive"] = {}, {}
        for c in ids:
            rc, out = sh(f"VERIF_MODFILE={wt}.mod VERIF_EVIDENCE_DIR={wt}.ev VERIF_JOBS=6 python3 bin/check.py {c} --tier quick", cwd=VERIF)
            if rc == 1:
                res["alarms"][c] = [l[:700] for l in out.splitlines() if "violation detail" in l][:3]
            elif rc != 0:
                res["inconclusive"][c] = out[-300:]
        return res
    finally:
        sh(f"git -C /repo worktree remove --force {wt}")
        sh(f"rm -rf {wt} {wt}.mod {wt}.sum {wt}.ev")


def main():
    src = sys.argv[1]
    keep = "--keep" in sys.argv
    patches = sorted(glob.glob(os.path.join(src, "*", "b*.patch")))
    if os.environ.get("BENIGN_ONLY"):
        patches = [p for p in patches if any(x in p for x in os.environ["BENIGN_ONLY"].split(","))]
    with ThreadPoolExecutor(max_workers=int(os.environ.get("BENIGN_PAR", "3"))) as ex:
        for res in ex.map(one, patches):
            print(json.dumps({k: res.get(k) for k in ("name", "applies", "suite_passes", "alarms", "inconclusive")}), flush=True)
            if keep and res.get("applies") and res.get("suite_passes"):
                d = os.path.join(VERIF, "benign", res["name"])
                os.makedirs(d, exist_ok=True)
                shutil.copy(res["patch"], os.path.join(d, "patch.diff"))
                meta = {}
                mj = res["patch"][:-len(".patch")] + ".json"
                if os.path.exists(mj):
                    try:
                        meta = json.load(open(mj))
                    except Exception:
                        meta = {"raw": open(mj).read()}
                meta["checks_reporting_a_violation"] = res["alarms"]
                meta["inconclusive"] = res["inconclusive"]
                json.dump(meta, open(os.path.join(d, "meta.json"), "w"), indent=1)


if __name__ == "__main__":
    main()
