#!/usr/bin/env python3
"""Verify a seeded change and run our check against it.

usage: seedverify.py <property> <srcdir> <n> [--keep-as NAME] [--tier quick]
  srcdir holds m<n>.patch, demo<n>_test.go, m<n>.json (written by a sub-agent)

Steps (all in a scratch worktree under /tmp, removed afterwards):
  1. patch applies, tree builds, baseline suite passes with the patch
  2. demo fails with the patch, passes without
Then: apply the patch to /repo, run bin/check.py <property>, undo.
With --keep-as the change is stored as /verif/seeded/<NAME>/ (patch.diff, demo_test.go, meta.json).
"""
import json
import os
import shutil
import subprocess
import sys
import time

VERIF = os.path.dirname(os.path.dirname(os.path.abspath(__file__)))
ENV = dict(os.environ, GOFLAGS="-mod=mod", GOPROXY="off", GOSUMDB="off", GOTOOLCHAIN="local")


def sh(cmd, cwd=None, timeout=1800):
    p = subprocess.run(cmd, shell=True, cwd=cwd, env=ENV, capture_output=True, text=True, timeout=timeout)
    return p.returncode, p.stdout + p.stderr


def main():
    pid, src, n = sys.argv[1], sys.argv[2], sys.argv[3]
    keep = None
    scratch = False  # run the checks against a scratch worktree through -modfile instead of patching /repo
    tier = "quick"
    checks = [pid]
    a = sys.argv[4:]
    while a:
        if a[0] == "--keep-as":
            keep = a[1]
            a = a[2:]
        elif a[0] == "--tier":
            tier = a[1]
            a = a[2:]
        elif a[0] == "--also":
            checks += a[1].split(",")
            a = a[2:]
        elif a[0] == "--scratch":
            scratch = True
            a = a[1:]
        else:
            raise SystemExit("bad arg " + a[0])
    patch = os.path.join(src, f"m{n}.patch")
    demo = os.path.join(src, f"demo{n}_test.go")
    meta_src = os.path.join(src, f"m{n}.json")
    wt = f"/tmp/sv-{pid}-{n}-{os.getpid()}"
    res = {"property": pid, "patch": patch}
    race = "-race" if "race" in open(demo).read().lower() and "sync" in open(demo).read() else ""
    try:
        rc, out = sh(f"git -C /repo worktree add -q --detach {wt} HEAD")
        assert rc == 0, out
        shutil.copy(demo, os.path.join(wt, "zz_demo_test.go"))
        rc, out = sh(f"go test -vet=off -count=1 {race} -run 'TestDemo{n}$' .", cwd=wt)
        res["demo_passes_without_patch"] = rc == 0
        rc, out = sh(f"git apply {patch}", cwd=wt)
        res["patch_applies"] = rc == 0
        if rc != 0:
            res["apply_output"] = out[-500:]
        else:
            rc, out = sh(f"go test -vet=off -count=1 {race} -run 'TestDemo{n}$' .", cwd=wt)
            res["demo_fails_with_patch"] = rc != 0
            res["demo_output_tail"] = out[-600:]
            os.remove(os.path.join(wt, "zz_demo_test.go"))
            rc, out = sh("go build ./... && go test -vet=off -count=1 ./...", cwd=wt)
            res["suite_passes_with_patch"] = rc == 0
            if rc != 0:
                res["suite_output_tail"] = out[-600:]
    finally:
        sh(f"git -C /repo worktree remove --force {wt}")
        shutil.rmtree(wt, ignore_errors=True)
    ok = res.get("patch_applies") and res.get("demo_fails_with_patch") and res.get("demo_passes_without_patch") and res.get("suite_passes_with_patch")
    res["confirmed"] = bool(ok)
    res["checks"] = {}
    if ok and scratch:
        wt2 = f"/tmp/svm-{pid}-{n}-{os.getpid()}"
        try:
            rc, out = sh(f"git -C /repo worktree add -q --detach {wt2} HEAD")
            assert rc == 0, out
            rc, out = sh(f"git apply {patch}", cwd=wt2)
            assert rc == 0, out
            mod = open(os.path.join(VERIF, "harness", "go.mod")).read().replace("=> /repo", "=> " + wt2)
            open(wt2 + ".mod", "w").write(mod)
            shutil.copy(os.path.join(VERIF, "harness", "go.sum"), wt2 + ".sum")
            for c in checks:
                t0 = time.time()
                rc, out = sh(f"VERIF_MODFILE={wt2}.mod VERIF_EVIDENCE_DIR={wt2}.ev python3 bin/check.py {c} --tier {tier}", cwd=VERIF, timeout=7200)
                viol = [l for l in out.splitlines() if l.startswith("VIOLATION") or "violation detail" in l]
                res["checks"][c] = {"exit": rc, "wall_s": round(time.time() - t0, 1), "lines": viol[:4], "via": "scratch worktree + -modfile"}
        finally:
            sh(f"git -C /repo worktree remove --force {wt2}")
            shutil.rmtree(wt2, ignore_errors=True)
            for ext in (".mod", ".sum"):
                if os.path.exists(wt2 + ext):
                    os.remove(wt2 + ext)
            shutil.rmtree(wt2 + ".ev", ignore_errors=True)
    elif ok:
        rc, out = sh("git -C /repo status --short")
        assert out.strip() == "", "/repo not clean: " + out
        try:
            rc, out = sh(f"git -C /repo apply {patch}")
            assert rc == 0, out
            for c in checks:
                t0 = time.time()
                rc, out = sh(f"python3 bin/check.py {c} --tier {tier}", cwd=VERIF, timeout=7200)
                viol = [l for l in out.splitlines() if l.startswith("VIOLATION") or "violation detail" in l]
                res["checks"][c] = {"exit": rc, "wall_s": round(time.time() - t0, 1), "lines": viol[:4]}
        finally:
            sh("git -C /repo checkout -- .")
        # our evidence files were rewritten by a run against a mutated tree: restore them
        sh("git checkout -- evidence", cwd=VERIF)
    res["caught_by"] = [c for c, r in res["checks"].items() if r["exit"] == 1]
    print(json.dumps(res, indent=1))
    if keep and ok:
        d = os.path.join(VERIF, "seeded", keep)
        os.makedirs(d, exist_ok=True)
        shutil.copy(patch, os.path.join(d, "patch.diff"))
        shutil.copy(demo, os.path.join(d, "demo_test.go"))
        meta = {}
        if os.path.exists(meta_src):
            try:
                meta = json.load(open(meta_src))
            except Exception:
                meta = {"raw": open(meta_src).read()}
        meta.pop("commands_run", None)
        meta.update({
            "property": pid,
            "demo_test": f"TestDemo{n}",
            "verified_by_me": {k: res[k] for k in ("patch_applies", "suite_passes_with_patch", "demo_fails_with_patch", "demo_passes_without_patch")},
            "what_i_ran": [
                "git worktree add (scratch) ; go test -run TestDemoN (passes)",
                "git apply patch.diff ; go test -run TestDemoN (fails) ; go test -vet=off -count=1 ./... (passes)",
                f"git -C /repo apply patch.diff ; python3 bin/check.py <id> --tier {tier} ; git -C /repo checkout -- .",
            ],
            "checks_run": res["checks"],
            "caught_by": res["caught_by"],
        })
        json.dump(meta, open(os.path.join(d, "meta.json"), "w"), indent=1)
    return 0


if __name__ == "__main__":
    sys.exit(main())
