#!/usr/bin/env python3
"""Re-run every kept seeded change against the quick tier of its property (sensitivity regression).
usage: seedall.py [name-prefix]     writes seeded/RESULTS.json"""
import glob, json, os, subprocess, sys, time
VERIF = os.path.dirname(os.path.dirname(os.path.abspath(__file__)))
ENV = dict(os.environ, GOFLAGS="-mod=mod", GOPROXY="off", GOSUMDB="off", GOTOOLCHAIN="local")
def sh(cmd, cwd=None, timeout=3600):
    p = subprocess.run(cmd, shell=True, cwd=cwd, env=ENV, capture_output=True, text=True, timeout=timeout)
    return p.returncode, p.stdout + p.stderr
def one_scratch(d):
    """apply the change in a scratch worktree and point the harness at it through -modfile"""
    name = os.path.basename(os.path.dirname(d))
    meta = json.load(open(os.path.join(os.path.dirname(d), "meta.json")))
    checks = meta.get("caught_by") or [meta["property"]]
    wt = f"/tmp/sa-{name}-{os.getpid()}"
    try:
        rc, out = sh(f"git -C /repo worktree add -q --detach {wt} HEAD")
        assert rc == 0, out
        rc, out = sh(f"git apply {d}", cwd=wt)
        if rc != 0:
            return name, {"applies": False}
        mod = open(os.path.join(VERIF, "harness", "go.mod")).read().replace("=> /repo", "=> " + wt)
        open(wt + ".mod", "w").write(mod)
        sh(f"cp {VERIF}/harness/go.sum {wt}.sum")
        os.makedirs(wt + ".ev", exist_ok=True)
        caught = []
        for c in checks:
            rc, out = sh(f"VERIF_MODFILE={wt}.mod VERIF_EVIDENCE_DIR={wt}.ev VERIF_JOBS=6 python3 bin/check.py {c} --tier quick", cwd=VERIF)
            if rc == 1:
                caught.append(c)
        return name, {"applies": True, "checks": checks, "caught_by": caught, "via": "scratch worktree"}
    finally:
        sh(f"git -C /repo worktree remove --force {wt}")
        sh(f"rm -rf {wt} {wt}.mod {wt}.sum {wt}.ev")


def main_scratch(prefix, par):
    from concurrent.futures import ThreadPoolExecutor
    ds = sorted(glob.glob(os.path.join(VERIF, "seeded", prefix + "*", "patch.diff")))
    results = {}
    with ThreadPoolExecutor(max_workers=par) as ex:
        for name, res in ex.map(one_scratch, ds):
            results[name] = res
            print(name, "caught by", res.get("caught_by") or ("DOES NOT APPLY" if not res.get("applies") else "NOTHING"), flush=True)
    old = {}
    rp = os.path.join(VERIF, "seeded", "RESULTS.json")
    if prefix and os.path.exists(rp):
        old = json.load(open(rp))
    old.update(results)
    json.dump(old, open(rp, "w"), indent=1, sort_keys=True)
    print("missed:", [k for k, v in results.items() if v.get("applies") and not v.get("caught_by")])
    print("do not apply:", [k for k, v in results.items() if not v.get("applies")])


def main():
    if "--scratch" in sys.argv:
        args = [a for a in sys.argv[1:] if a != "--scratch"]
        return main_scratch(args[0] if args else "", int(os.environ.get("SEEDALL_PAR", "3")))
    prefix = sys.argv[1] if len(sys.argv) > 1 else ""
    rc, out = sh("git -C /repo status --short")
    assert out.strip() == "", "/repo not clean"
    results = {}
    for d in sorted(glob.glob(os.path.join(VERIF, "seeded", prefix + "*", "patch.diff"))):
        name = os.path.basename(os.path.dirname(d))
        meta = json.load(open(os.path.join(os.path.dirname(d), "meta.json")))
        checks = meta.get("caught_by") or [meta["property"]]
        rc, out = sh(f"git -C /repo apply --check {d}")
        if rc != 0:
            results[name] = {"applies": False}
            print(name, "DOES NOT APPLY", flush=True)
            continue
        try:
            sh(f"git -C /repo apply {d}")
            caught = []
            for c in checks:
                t0 = time.time()
                rc, out = sh(f"python3 bin/check.py {c} --tier quick", cwd=VERIF)
                if rc == 1:
                    caught.append(c)
            results[name] = {"applies": True, "checks": checks, "caught_by": caught}
            print(name, "caught by", caught or "NOTHING", flush=True)
        finally:
            sh("git -C /repo checkout -- .")
    sh("git checkout -- evidence", cwd=VERIF)
    json.dump(results, open(os.path.join(VERIF, "seeded", "RESULTS.json"), "w"), indent=1, sort_keys=True)
    missed = [k for k, v in results.items() if v.get("applies") and not v.get("caught_by")]
    print("missed:", missed)
if __name__ == "__main__":
    main()
