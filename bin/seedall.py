#!/usr/bin/env python3
"""Re-run every kept seeded change against the quick tier of its property (sensitivity regression).
usage: seedall.py [name-prefix]     writes seeded/RESULTS.json"""
import glob, json, os, subprocess, sys, time
VERIF = os.path.dirname(os.path.dirname(os.path.abspath(__file__)))
ENV = dict(os.environ, GOFLAGS="-mod=mod", GOPROXY="off", GOSUMDB="off", GOTOOLCHAIN="local")
def sh(cmd, cwd=None, timeout=3600):
    p = subprocess.run(cmd, shell=True, cwd=cwd, env=ENV, capture_output=True, text=True, timeout=timeout)
    return p.returncode, p.stdout + p.stderr
def main():
    prefix = sys.argv[1] if len(sys.argv) > 1 else ""
    rc, out = sh("git -C /repo status --short")
    assert out.strip() == "", "/repo not clean"
    results = {}
    for d in sorted(glob.glob(os.path.join(VERIF, "seeded", prefix + "*", "patch.diff"))):
        name = os.path.basename(os.path.dirname(d))
        meta = json.load(open(os.path.join(os.path.dirname(d), "meta.json")))
        checks = meta.get("caught_by") or [meta["property"]]
        rc, out = sh(f"git -C /repo apply --check {d}")
        if rc != 0:
            results[name] = {"applies": False}
            print(name, "DOES NOT APPLY", flush=True)
            continue
        try:
            sh(f"git -C /repo apply {d}")
            caught = []
            for c in checks:
                t0 = time.time()
                rc, out = sh(f"python3 bin/check.py {c} --tier quick", cwd=VERIF)
                if rc == 1:
                    caught.append(c)
            results[name] = {"applies": True, "checks": checks, "caught_by": caught}
            print(name, "caught by", caught or "NOTHING", flush=True)
        finally:
            sh("git -C /repo checkout -- .")
    sh("git checkout -- evidence", cwd=VERIF)
    json.dump(results, open(os.path.join(VERIF, "seeded", "RESULTS.json"), "w"), indent=1, sort_keys=True)
    missed = [k for k, v in results.items() if v.get("applies") and not v.get("caught_by")]
    print("missed:", missed)
if __name__ == "__main__":
    main()
