#!/bin/bash
# usage: soak.sh <tier> <seed>...   runs every claimed check once per seed; prints exits != 0
tier=$1; shift
cd "$(dirname "$0")/.."   # the tree this script belongs to (/verif, or a snapshot made by vp run)
ids=$(python3 -c "import json; print(' '.join(c['property_id'] for c in json.load(open('MANIFEST.json'))['checks']))")
for seed in "$@"; do
  for id in $ids; do
    out=$(VERIF_SEED=$seed python3 bin/check.py $id --tier $tier 2>&1); rc=$?
    echo "seed=$seed $id rc=$rc $(echo "$out" | grep '^\[' | tail -1)"
    if [ $rc -ne 0 ]; then echo "$out" | tail -15; fi
  done
done
