#!/usr/bin/env python3
"""prints the prompt for a mutation sub-agent: agent_prompt.py C06"""
import json, sys
pid = sys.argv[1]
props = {json.loads(l)["id"]: json.loads(l) for l in open("/verif/properties.jsonl")}
p = props[pid]
print(f"""You are working in a scratch git worktree of the Go project flosch/pongo2 (a Django-syntax template engine for Go) at /tmp/wt-{pid}. Do ALL your work there and in /tmp/seed-out/{pid}/ only. Never read, write or run anything in /repo or /verif.

Environment: the sandbox is offline. Before every go command run: export GOFLAGS=-mod=mod GOPROXY=off GOSUMDB=off GOTOOLCHAIN=local
The existing test suite is run with: cd /tmp/wt-{pid} && go test -vet=off -count=1 ./...   (135 tests, about 1 second). It currently passes.

Here is a semantic property of pongo2 that holds on this tree:

TITLE: {p['title']}
STATEMENT: {p['statement']}
QUANTIFIED OVER: {p['quantifier']['text']}
RELEVANT FILES: {', '.join(p['anchors']['files'])}

YOUR TASK: produce TWO independent, realistic source changes to pongo2's non-test Go code (each the kind of slip a plausible refactoring, optimisation, "clean-up" or well-meant bug fix could introduce), such that EACH change on its own
  (a) compiles,
  (b) still passes the complete existing test suite (run it!),
  (c) breaks the property above,
  (d) but needs something specific to manifest: an unusual input, a particular multi-step sequence of operations, a particular interleaving of goroutines, a fault at a particular point, or two cooperating code sites that each look fine alone. Do NOT produce changes that ordinary everyday use (or a trivial one-line template) would expose at once; prefer subtle ones. The two changes should have different root causes / touch different mechanisms.

For change N in (1, 2):
  1. make the change in the worktree; save it with: git -C /tmp/wt-{pid} diff > /tmp/seed-out/{pid}/m$N.patch
  2. write a demonstration /tmp/seed-out/{pid}/demo$N_test.go (package pongo2_test, importing "github.com/flosch/pongo2/v6"; it may define its own in-memory TemplateLoader) containing ONE test function TestDemo$N that FAILS with the change applied and PASSES on the unchanged tree. Verify both directions by copying it into the worktree and running: go test -vet=off -count=1 -run 'TestDemo$N$' .  (with -race if the failure is a data race).
  3. write /tmp/seed-out/{pid}/m$N.json with keys: property ("{pid}"), summary (one sentence: what was changed), breaks (how the property is violated), needs_to_manifest (what specific input/sequence/schedule is required), suite_passes (true/false as you observed), demo_fails_with_patch (true/false), demo_passes_without_patch (true/false), commands_run (list of strings).
  4. restore the worktree: git -C /tmp/wt-{pid} checkout -- . and delete any files you added to it (git -C /tmp/wt-{pid} status --short must be empty) before starting the next change.

Constraints: only edit existing non-test .go files of the package (no new dependencies, no build tags, do not edit tests, fixtures or go.mod). Keep each patch small (a few lines). Do not leave build output around. At the end, reply with a short summary of the two changes and whether all verifications succeeded.""")
